#!/usr/bin/env python3
"""py2lean_mon.py -- translator (tie 1) for the core loops of py65/monitor.py (C16, C17, C20).

    py2lean_mon.py --out lean/Py65/Gen --report r.json [--units fill,run,pre]

Parses `$PY65_REPO/py65/monitor.py` with `ast` (comments, docstrings, blank lines and formatting
never matter) and emits one Lean file per UNIT, a shallow embedding that follows the Python
statement by statement:

    fill  Py65/Gen/MonFillGen.lean   Monitor._fill                                        (C16)
    run   Py65/Gen/MonRunGen.lean    Monitor._run, do_step, do_goto, do_return,
                                     do_add_breakpoint, do_delete_breakpoint,
                                     do_show_breakpoints and the help_* they call         (C17)
    pre   Py65/Gen/MonPreGen.lean    Monitor._add_shortcuts (the table), _preprocess_line (C20)

The units are independent: a refusal in one does not touch the file of another.  Deterministic;
no timestamps, no source hash in the Lean text (the hash goes into the report), so a change of
comments or layout rewrites nothing.

Accepted subset (anything else -> exit 3 and {"ok": false, "error", "where", "function"}):
  statements   Assign (name, tuple of names, self attribute of the unit's table, subscript of
               memory / the breakpoint list), AugAssign (+= -= &=), Expr (call), If/elif/else,
               While (flow units; becomes a fuel-bounded recursive function), For over a string,
               `enumerate(list or string)`, `dict.items()`, Break, Continue, Return, Pass,
               Try/except <ExceptionName> (exceptions are resolved statically)
  expressions  int / str / None / bool constants, names, + - & on ints, + on strings, % with a
               constant template (or one built from constants and self.addrFmt), comparisons
               == != < <= > >= in / not in / is / is not None, and or not, tuples, list displays,
               len(), set(), int(str), subscripts and slices [:i] [i:], the attribute and method
               tables of the unit (see UNITS below), `re.match` with the one pattern of TABLE_RE.
Every library behaviour is a named Lean helper (lean/Py65/Model/MonGenRt.lean and the hand models).
"""
import argparse
import ast
import hashlib
import json
import os
import re
import sys


class Unsupported(Exception):
    def __init__(self, msg, node=None, func=None):
        Exception.__init__(self, msg)
        self.msg, self.node, self.func = msg, node, func


class NeedCPS(Exception):
    """internal: the branch being translated in phi style contains a non-local exit"""


# ---------------------------------------------------------------------------------------
# types and values
# ---------------------------------------------------------------------------------------

INT, BOOL, PROP, STR, CHAR, UNIT, NONE = 'int', 'bool', 'prop', 'str', 'char', 'unit', 'none'


def tlist(t):
    return ('list', t)


def topt(t):
    return ('opt', t)


def ttuple(ts):
    return ('tuple', tuple(ts))


MATCH = topt(ttuple([INT, INT]))


def lean_type(t, top=True):
    if t == INT:
        return 'Int'
    if t == BOOL:
        return 'Bool'
    if t == STR:
        return 'Str'
    if t == CHAR:
        return 'Char'
    if t in (UNIT, NONE):
        return 'Unit'
    if isinstance(t, tuple):
        if t[0] == 'list':
            s = 'List %s' % lean_type(t[1], False)
        elif t[0] == 'opt':
            s = 'Option %s' % lean_type(t[1], False)
        elif t[0] == 'tuple':
            if not t[1]:
                return 'Unit'
            s = ' × '.join(lean_type(x, False) for x in t[1])
        else:
            raise Unsupported('no Lean type for %r' % (t,))
        return s if top else '(%s)' % s
    raise Unsupported('no Lean type for %r' % (t,))


class Val(object):
    """A translated expression: Lean text, type, whether the text is atomic, and what is known
    statically (`const` = a Python str constant; `template` = list of ('lit', text) / ('hexw', lean
    width) pieces of a %-template; `items` = the component Vals of a tuple display; `alias` = an
    attribute path; `pattern` = the literal of the TABLE_RE pattern; `dict` = a constant table)."""

    def __init__(self, text, ty, atom=False, **static):
        self.text, self.ty, self.atom, self.static = text, ty, atom, static

    def p(self):
        return self.text if self.atom else '(%s)' % self.text


LEAN_KEYWORDS = set('''end from at have show then else if match with fun let in do where def theorem
 instance structure inductive namespace open import by calc exact mut for unless return macro syntax
 section variable universe abbrev class deriving extends private protected partial unsafe local
 notation prefix infix infixl infixr postfix attribute export using try catch finally
 Type Prop Sort matches nomatch nofun this meta public omit include mutual deriving'''.split())
RESERVED = set(['σ', 'fuel', 'reply', 'd', 'P', 'step', 'dis', 'rest_', 'r_', 'idx_'])


def lean_str(s):
    out = []
    for ch in s:
        o = ord(ch)
        if ch == '\\':
            out.append('\\\\')
        elif ch == '"':
            out.append('\\"')
        elif ch == '\n':
            out.append('\\n')
        elif ch == '\t':
            out.append('\\t')
        elif ch == '\r':
            out.append('\\r')
        elif o < 32 or o == 127:
            out.append('\\x%02x' % o)
        elif o > 126:
            raise Unsupported('non-ASCII character in a string constant: %r' % s)
        else:
            out.append(ch)
    return '"%s"' % ''.join(out)


def lean_strlist(s):
    return '%s.toList' % lean_str(s)


def lean_char(ch):
    o = ord(ch)
    if ch == '\\':
        return "'\\\\'"
    if ch == "'":
        return "'\\''"
    if ch == '\n':
        return "'\\n'"
    if ch == '\t':
        return "'\\t'"
    if ch == '\r':
        return "'\\r'"
    if o < 32 or o == 127:
        return "'\\x%02x'" % o
    if o > 126:
        raise Unsupported('non-ASCII character constant %r' % ch)
    return "'%s'" % ch


def ind(lines, n=2):
    return [' ' * n + l for l in lines]


def proj(n, i):
    """projection text of component i of a Lean n-tuple (right-nested pairs)"""
    if n == 1:
        return ''
    if i < n - 1:
        return '.2' * i + '.1'
    return '.2' * i


def unparse1(node):
    try:
        s = ast.unparse(node)
    except Exception:
        s = '<%s>' % type(node).__name__
    return s.split('\n')[0]


def path_of(node):
    """('self', '_mpu', 'pc') for self._mpu.pc; None if not a pure attribute chain on a name"""
    parts = []
    while isinstance(node, ast.Attribute):
        parts.append(node.attr)
        node = node.value
    if isinstance(node, ast.Name):
        parts.append(node.id)
        return tuple(reversed(parts))
    return None


TEMPLATE_SPEC = re.compile(r'%(?:(%)|(0?)(\d*)([dsxX]))')
# the only regular expression accepted: (format template, function applied to the argument)
TABLE_RE = {('^%s\\s+', 're.escape'): 'reMatchLitSpaces'}


# ---------------------------------------------------------------------------------------
# units: what each generated file contains and the vocabulary it may use
# ---------------------------------------------------------------------------------------

class Bind(object):
    def __init__(self, lean, ty, static=None):
        self.lean, self.ty, self.static = lean, ty, static or {}


class Ctl(object):
    """control context: enclosing exception handlers (innermost first), enclosing loop, phi flag"""

    def __init__(self, hs=(), lc=None, phi=False):
        self.hs, self.lc, self.phi = hs, lc, phi

    def with_(self, **kw):
        c = Ctl(self.hs, self.lc, self.phi)
        for a, b in kw.items():
            setattr(c, a, b)
        return c


OUTPUT_BODY = "self.stdout.write('%s\\n' % stuff)"

UNITS = {
    'fill': dict(
        file='MonFillGen.lean', ns='Py65.Gen.MonFillGen', mode='flow', state='FillSt',
        params=[('reply', 'Reply'), ('d', 'Dev')],
        funcs=['_fill'],
        sigs={'_fill': [('start', INT), ('end', INT), ('filler', tlist(INT))]},
        attrs={
            ('self', 'addrMask'): ('cfg', 'd.addrMask', INT),
            ('self', 'byteMask'): ('cfg', 'd.byteMask', INT),
            ('self', 'addrFmt'): ('hexfmt', 'd.addrFmtW'),
            ('self', '_mpu'): ('obj', 'mpu'),
            ('self', '_mpu', 'memory'): ('obj', 'omem'),
        },
        reset_facts=['self.addrMask = self._mpu.addrMask', 'self.byteMask = self._mpu.byteMask',
                     'self.addrFmt = self._mpu.ADDR_FORMAT'],
        init_facts=[],
        uses_output=True,
    ),
    'run': dict(
        file='MonRunGen.lean', ns='Py65.Gen.MonRunGen', mode='flow', state='RunSt',
        params=[('step', 'St → St'), ('dis', 'Str → St → List Str'), ('d', 'Dev'), ('P', 'Parser')],
        funcs=['help_step', 'help_return', 'help_goto', 'help_add_breakpoint', 'help_delete_breakpoint',
               'help_show_breakpoints', '_run', 'do_step', 'do_return', 'do_goto', 'do_add_breakpoint',
               'do_delete_breakpoint', 'do_show_breakpoints'],
        sigs={'_run': [('stopcodes', tlist(INT))], 'do_step': [('args', STR)], 'do_return': [('args', STR)],
              'do_goto': [('args', STR)], 'do_add_breakpoint': [('args', STR)],
              'do_delete_breakpoint': [('args', STR)], 'do_show_breakpoints': [('args', STR)],
              'help_step': [], 'help_return': [], 'help_goto': [], 'help_add_breakpoint': [],
              'help_delete_breakpoint': [], 'help_show_breakpoints': []},
        attrs={
            ('self', 'addrFmt'): ('hexfmt', 'd.addrFmtW'),
            ('self', '_mpu'): ('obj', 'mpu'),
            ('self', '_mpu', 'pc'): ('field', ('mpu', 'pc'), INT),
            ('self', '_mpu', 'memory'): ('obj', 'stmem'),
            ('self', '_breakpoints'): ('field', ('breakpoints',), tlist(topt(INT))),
            ('self', '_address_parser'): ('obj', 'parser'),
            ('self', 'stdin'): ('obj', 'ignored'),
        },
        reset_facts=['self.addrFmt = self._mpu.ADDR_FORMAT',
                     'self._address_parser = AddressParser(maxwidth=self.addrWidth)'],
        init_facts=['self._breakpoints = []'],
        uses_output=True,
    ),
    'pre': dict(
        file='MonPreGen.lean', ns='Py65.Gen.MonPreGen', mode='pure', state=None,
        params=[],
        funcs=['_preprocess_line'],
        sigs={'_preprocess_line': [('line', STR)]},
        rets={'_preprocess_line': STR},
        attrs={('self', '_shortcuts'): ('obj', 'shortcuts')},
        reset_facts=[], init_facts=['self._add_shortcuts()'],
        uses_output=False,
    ),
}
# console mode switching: no-ops outside the model, skipped by name
SKIPPED_CALLS = {('console', 'noncanonical_mode'), ('console', 'restore_mode')}


class Loop(object):
    def __init__(self, brk, cont):
        self.brk, self.cont = brk, cont


class Handler(object):
    def __init__(self, names, body, after, ctl):
        self.names, self.body, self.after, self.ctl = names, body, after, ctl


# ---------------------------------------------------------------------------------------
# one function
# ---------------------------------------------------------------------------------------

class FnTr(object):
    def __init__(self, unitname, unit, methods, fname, fuel_of, consts):
        self.unitname, self.unit, self.methods, self.fname = unitname, unit, methods, fname
        self.fd = methods[fname]
        self.mode = unit['mode']
        self.fuel_of = fuel_of          # name -> bool: the function takes a fuel argument
        self.consts = consts            # static tables of the unit (pre: the shortcut dict)
        self.aux = []                   # loop functions, in order of completion
        self.ntemp = 0
        self.nloop = 0
        self.pynames = set(n.id for n in ast.walk(self.fd) if isinstance(n, ast.Name)) | \
            set(a.arg for a in self.fd.args.args)
        for n in self.pynames:
            if n.startswith('py_t') or n in ('phi_', 'r_', 'rest_'):
                self.fail('local name %s collides with the translator\'s temporaries' % n, self.fd)
        seen = {}
        for n in sorted(self.pynames):
            m = self.mangle(n)
            if m in seen:
                self.fail('names %s and %s collide after mangling' % (seen[m], n), self.fd)
            seen[m] = n

    # -- helpers -------------------------------------------------------------------------
    def fail(self, msg, node=None):
        raise Unsupported('%s in %s%s' % (msg, self.fname,
                                          (': `%s`' % unparse1(node)) if node is not None else ''),
                          node, self.fname)

    def mangle(self, n):
        return n + '_' if (n in LEAN_KEYWORDS or n in RESERVED) else n

    def temp(self):
        self.ntemp += 1
        return 'py_t%d' % self.ntemp

    def pnames(self):
        return ' '.join(p for p, _ in self.unit['params'])

    def pdecl(self):
        return ' '.join('(%s : %s)' % pt for pt in self.unit['params'])

    def state_upd(self, fpath, text):
        """{ σ with a := { σ.a with b := text } }"""
        def go(prefix, path):
            if len(path) == 1:
                return '{ %s with %s := %s }' % (prefix, path[0], text)
            return '{ %s with %s := %s }' % (prefix, path[0], go('%s.%s' % (prefix, path[0]), path[1:]))
        return go('σ', list(fpath))

    def need_flow(self, node, what):
        if self.mode != 'flow':
            self.fail('%s in a pure function' % what, node)

    def raise_lines(self, exc, env, ctl, node):
        """Lean lines for `raise exc` at this point: the statically matching handler, else leave"""
        self.need_flow(node, 'a construct that can raise %s' % exc)
        if ctl.phi:
            raise NeedCPS()
        for h in ctl.hs:
            if exc in h.names or 'Exception' in h.names or None in h.names:
                return self.block(h.body, env, h.after, h.ctl)
        return ['.raise .%s σ' % exc]

    def resolve_path(self, node, env):
        """attribute path with a leading alias name replaced by what it stands for"""
        p = path_of(node)
        if p is None:
            return None
        b = env.get(p[0])
        if b is not None and 'alias' in b.static:
            return tuple(b.static['alias']) + p[1:]
        if b is not None:
            return None            # an ordinary local: not a path
        return p

    def coerce(self, v, ty, node):
        if v.ty == ty:
            return v
        if isinstance(ty, tuple) and ty[0] == 'opt':
            if v.ty == NONE:
                return Val('none', ty, True)
            if v.ty == ty[1]:
                return Val('some %s' % v.p(), ty)
        if ty == CHAR and v.ty == STR and 'const' in v.static and len(v.static['const']) == 1:
            return Val(lean_char(v.static['const']), CHAR, True)
        self.fail('type mismatch (%s where %s is needed)' % (v.ty, ty), node)

    # -- expressions ---------------------------------------------------------------------
    def ex(self, node, env, pre, ctl):
        if isinstance(node, ast.Constant):
            c = node.value
            if isinstance(c, bool):
                return Val('true' if c else 'false', BOOL, True)
            if isinstance(c, int):
                return Val(str(c), INT, True) if c >= 0 else Val('(%d)' % c, INT, True)
            if isinstance(c, str):
                return Val(lean_strlist(c), STR, True, const=c, template=[('lit', c)])
            if c is None:
                return Val('none', NONE, True)
            self.fail('constant of an unsupported type', node)
        if isinstance(node, ast.Name):
            b = env.get(node.id)
            if b is None:
                self.fail('unknown name %s (not a parameter, not assigned on every path before)' % node.id, node)
            if 'alias' in b.static:
                return self.attr_val(tuple(b.static['alias']), node, env)
            return Val(b.lean, b.ty, True, **b.static)
        if isinstance(node, ast.Attribute):
            p = self.resolve_path(node, env)
            if p is None:
                self.fail('attribute of a computed object', node)
            return self.attr_val(p, node, env)
        if isinstance(node, ast.Tuple):
            items = [self.ex(e, env, pre, ctl) for e in node.elts]
            if any(i.text is None for i in items):
                self.fail('tuple of static-only values', node)
            return Val('(%s)' % ', '.join(i.text for i in items), ttuple([i.ty for i in items]), True,
                       items=items)
        if isinstance(node, ast.List):
            items = [self.ex(e, env, pre, ctl) for e in node.elts]
            if not items or any(i.ty != items[0].ty for i in items):
                self.fail('list display must be non-empty and homogeneous', node)
            t = tlist(items[0].ty)
            return Val('([%s] : %s)' % (', '.join(i.text for i in items), lean_type(t)), t, True)
        if isinstance(node, ast.BinOp):
            return self.binop(node, env, pre, ctl)
        if isinstance(node, ast.UnaryOp):
            if isinstance(node.op, ast.Not):
                v = self.ex(node.operand, env, pre, ctl)
                if v.ty == BOOL:
                    return Val('!%s' % v.p(), BOOL)
                if v.ty == PROP:
                    return Val('¬ %s' % v.p(), PROP)
                if v.ty == STR or (isinstance(v.ty, tuple) and v.ty[0] == 'list'):
                    return Val('%s = []' % v.p(), PROP)
                if isinstance(v.ty, tuple) and v.ty[0] == 'opt':
                    return Val('%s = none' % v.p(), PROP)
                self.fail('`not` of a value of type %s' % (v.ty,), node)
            if isinstance(node.op, ast.USub) and isinstance(node.operand, ast.Constant) \
                    and isinstance(node.operand.value, int):
                return Val('(-%d)' % node.operand.value, INT, True)
            self.fail('unsupported unary operator', node)
        if isinstance(node, ast.BoolOp):
            n0 = len(pre)
            vs = [self.ex(e, env, pre, ctl) for e in node.values]
            if len(pre) > n0:
                self.fail('a raising operand inside and/or (short-circuit order not modelled)', node)
            isand = isinstance(node.op, ast.And)
            if all(v.ty == BOOL for v in vs):
                return Val((' && ' if isand else ' || ').join(v.p() for v in vs), BOOL)
            ps = ['(%s)' % self.truthy(v, node) for v in vs]
            return Val((' ∧ ' if isand else ' ∨ ').join(ps), PROP)
        if isinstance(node, ast.Compare):
            return self.compare(node, env, pre, ctl)
        if isinstance(node, ast.Call):
            return self.call_expr(node, env, pre, ctl)
        if isinstance(node, ast.Subscript):
            return self.subscript(node, env, pre, ctl)
        self.fail('unsupported expression kind %s' % type(node).__name__, node)

    def truthy(self, v, node):
        if v.ty == BOOL:
            return '%s = true' % v.p()
        if v.ty == PROP:
            return v.text
        if v.ty == STR or (isinstance(v.ty, tuple) and v.ty[0] == 'list'):
            return '%s ≠ []' % v.p()
        if isinstance(v.ty, tuple) and v.ty[0] == 'opt':
            return '%s ≠ none' % v.p()
        if v.ty == INT:
            return '%s ≠ 0' % v.p()
        self.fail('truth value of a %s' % (v.ty,), node)

    def cond(self, node, env, pre, ctl):
        n0 = len(pre)
        v = self.ex(node, env, pre, ctl)
        if len(pre) > n0 and isinstance(node, ast.BoolOp):
            self.fail('a raising operand inside and/or (short-circuit order not modelled)', node)
        return self.truthy(v, node)

    def attr_val(self, p, node, env):
        a = self.unit['attrs'].get(p)
        if a is None:
            self.fail('attribute %s is not in the table of unit %s' % ('.'.join(p), self.unitname), node)
        if a[0] == 'cfg':
            return Val(a[1], a[2], True)
        if a[0] == 'hexfmt':
            return Val(None, STR, True, template=[('hexw', a[1])])
        if a[0] == 'field':
            return Val('σ.' + '.'.join(a[1]), a[2], True)
        if a[0] == 'obj':
            if a[1] == 'shortcuts':
                return Val('_shortcuts', tlist(ttuple([STR, STR])), True, dict=self.consts['shortcuts'])
            return Val(None, ('obj', a[1]), True, alias=p)
        self.fail('bad attribute table entry', node)

    def binop(self, node, env, pre, ctl):
        if isinstance(node.op, ast.Mod):
            return self.percent(node, env, pre, ctl)
        l = self.ex(node.left, env, pre, ctl)
        r = self.ex(node.right, env, pre, ctl)
        if l.ty == INT and r.ty == INT:
            if isinstance(node.op, ast.Add):
                return Val('%s + %s' % (l.p(), r.p()), INT)
            if isinstance(node.op, ast.Sub):
                return Val('%s - %s' % (l.p(), r.p()), INT)
            if isinstance(node.op, ast.BitAnd):
                return Val('Py.land %s %s' % (l.p(), r.p()), INT)
            self.fail('unsupported integer operator %s' % type(node.op).__name__, node)
        if l.ty == STR and r.ty == STR and isinstance(node.op, ast.Add):
            st = {}
            if 'template' in l.static and 'template' in r.static:
                st['template'] = l.static['template'] + r.static['template']
            if 'const' in l.static and 'const' in r.static:
                st['const'] = l.static['const'] + r.static['const']
            if l.text is None or r.text is None:
                if 'template' not in st:
                    self.fail('a %-template part used as an ordinary string', node)
                return Val(None, STR, True, **st)
            return Val('%s ++ %s' % (l.p(), r.p()), STR, False, **st)
        self.fail('operator %s on %s and %s' % (type(node.op).__name__, l.ty, r.ty), node)

    def percent(self, node, env, pre, ctl):
        l = self.ex(node.left, env, pre, ctl)
        # the one regular expression
        if 'const' in l.static and isinstance(node.right, ast.Call):
            fp = path_of(node.right.func)
            key = (l.static['const'], '.'.join(fp) if fp else None)
            if key in TABLE_RE:
                if len(node.right.args) != 1 or node.right.keywords:
                    self.fail('bad call of %s' % key[1], node)
                a = self.ex(node.right.args[0], env, pre, ctl)
                if a.ty != STR or a.text is None:
                    self.fail('regex literal argument must be a string', node)
                return Val(None, ('pattern',), True, pattern=(TABLE_RE[key], a))
        if 'template' not in l.static:
            self.fail('% with a template that is not built from constants', node)
        if isinstance(node.right, ast.Call) and path_of(node.right.func) and \
                '.'.join(path_of(node.right.func)) in [k[1] for k in TABLE_RE]:
            self.fail('the regular expression %r %% %s(...) is not in the translator\'s table'
                      % (l.static.get('const'), '.'.join(path_of(node.right.func))), node)
        r = self.ex(node.right, env, pre, ctl)
        if isinstance(r.ty, tuple) and r.ty[0] == 'tuple':
            n = len(r.ty[1])
            if 'items' in r.static:
                args = r.static['items']
            else:
                args = [Val('%s%s' % (r.text, proj(n, i)), r.ty[1][i], True) for i in range(n)]
        else:
            args = [r]
        parts, ai = [], 0
        for kind, x in l.static['template']:
            if kind == 'hexw':
                if ai >= len(args) or args[ai].ty != INT:
                    self.fail('format argument mismatch', node)
                parts.append('pyFmtX %s %s' % (x, args[ai].p()))
                ai += 1
                continue
            pos = 0
            for m in TEMPLATE_SPEC.finditer(x):
                if '%' in x[pos:m.start()]:
                    self.fail('unsupported conversion in the template %r' % x, node)
                if m.start() > pos:
                    parts.append(lean_strlist(x[pos:m.start()]))
                pos = m.end()
                if m.group(1):
                    parts.append(lean_strlist('%'))
                    continue
                zero, width, conv = m.group(2), m.group(3), m.group(4)
                if ai >= len(args):
                    self.fail('not enough arguments for the format template', node)
                a = args[ai]
                ai += 1
                if conv == 's' and not zero and not width and a.ty == STR and a.text is not None:
                    parts.append(a.p())
                elif conv == 's' and not zero and not width and a.ty == INT:
                    parts.append('pyFmtD %s' % a.p())
                elif conv == 'd' and not zero and not width and a.ty == INT:
                    parts.append('pyFmtD %s' % a.p())
                elif conv in 'xX' and a.ty == INT and (zero or not width):
                    parts.append('%s %d %s' % ('pyFmtX' if conv == 'x' else 'pyFmtUX', int(width or 0), a.p()))
                else:
                    self.fail('conversion %s applied to a %s' % (m.group(0), a.ty), node)
            if '%' in x[pos:]:
                self.fail('unsupported conversion in the template %r' % x, node)
            if pos < len(x):
                parts.append(lean_strlist(x[pos:]))
        if ai != len(args):
            self.fail('too many arguments for the format template', node)
        if not parts:
            return Val('([] : Str)', STR, True)
        return Val(' ++ '.join(parts), STR, len(parts) == 1 and parts[0].endswith('.toList'))

    def compare(self, node, env, pre, ctl):
        if len(node.ops) != 1:
            self.fail('chained comparison', node)
        op, rn = node.ops[0], node.comparators[0]
        l = self.ex(node.left, env, pre, ctl)
        r = self.ex(rn, env, pre, ctl)
        if isinstance(op, (ast.Is, ast.IsNot)):
            if r.ty != NONE or not (isinstance(l.ty, tuple) and l.ty[0] == 'opt'):
                self.fail('`is` is accepted only as `<optional> is [not] None`', node)
            return Val('%s %s none' % (l.p(), '=' if isinstance(op, ast.Is) else '≠'), PROP)
        if isinstance(op, (ast.In, ast.NotIn)):
            if 'items' in r.static:
                alts = ['%s = %s' % (l.p(), self.coerce(i, l.ty, node).p()) for i in r.static['items']]
                t = ' ∨ '.join(alts) if alts else 'False'
            elif isinstance(r.ty, tuple) and r.ty[0] == 'list':
                t = 'pyIn %s %s = true' % (self.coerce(l, r.ty[1], node).p(), r.p())
            else:
                self.fail('`in` on a %s' % (r.ty,), node)
            return Val(t if isinstance(op, ast.In) else '¬ (%s)' % t, PROP)
        sym = {ast.Eq: '=', ast.NotEq: '≠', ast.Lt: '<', ast.LtE: '≤', ast.Gt: '>', ast.GtE: '≥'}.get(type(op))
        if sym is None:
            self.fail('unsupported comparison', node)
        if l.ty != r.ty:
            if l.ty == CHAR or (isinstance(l.ty, tuple) and l.ty[0] == 'opt'):
                r = self.coerce(r, l.ty, node)
            elif r.ty == CHAR or (isinstance(r.ty, tuple) and r.ty[0] == 'opt'):
                l = self.coerce(l, r.ty, node)
            else:
                self.fail('comparison of %s with %s' % (l.ty, r.ty), node)
        if sym in ('<', '≤', '>', '≥') and l.ty != INT:
            self.fail('ordering comparison on %s' % (l.ty,), node)
        if l.ty not in (INT, STR, CHAR, BOOL) and not isinstance(l.ty, tuple):
            self.fail('comparison on %s' % (l.ty,), node)
        if l.text is None or r.text is None:
            self.fail('comparison of static-only values', node)
        return Val('%s %s %s' % (l.p(), sym, r.p()), PROP)

    # -- expressions that can raise: bound by a `match` wrapped around the continuation -----
    def opt_bind(self, call_text, exc, ty, env, pre, ctl, node):
        t = self.temp()
        rl = self.raise_lines(exc, env, ctl, node)

        def w(lines):
            return ['match %s with' % call_text, '| none =>'] + ind(rl) + ['| some %s =>' % t] + ind(lines)
        pre.append(w)
        return Val(t, ty, True)

    def except_bind(self, call_text, ty, env, pre, ctl, node):
        self.need_flow(node, 'a call that can raise')
        if ctl.phi:
            raise NeedCPS()
        if ctl.hs:
            self.fail('a call whose exception class is only known at run time, inside try', node)
        t = self.temp()

        def w(lines):
            return ['match %s with' % call_text, '| .error e_ => .raise e_ σ', '| .ok %s =>' % t] + ind(lines)
        pre.append(w)
        return Val(t, ty, True)

    def args_plain(self, node, n, what):
        if node.keywords or len(node.args) != n:
            self.fail('%s takes exactly %d positional argument(s)' % (what, n), node)

    def call_expr(self, node, env, pre, ctl):
        f = node.func
        if isinstance(f, ast.Name) and f.id not in env:
            if f.id == 'len':
                self.args_plain(node, 1, 'len')
                a = self.ex(node.args[0], env, pre, ctl)
                if a.text is None or not (a.ty == STR or (isinstance(a.ty, tuple) and a.ty[0] == 'list')):
                    self.fail('len() of a %s' % (a.ty,), node)
                return Val('(%s.length : Int)' % a.p(), INT, True)
            if f.id == 'set':
                self.args_plain(node, 1, 'set')
                a = self.ex(node.args[0], env, pre, ctl)
                if a.text is None or not (isinstance(a.ty, tuple) and a.ty[0] == 'list'):
                    self.fail('set() of a %s' % (a.ty,), node)
                return Val('pySet %s' % a.p(), a.ty)
            if f.id == 'int':
                self.args_plain(node, 1, 'int')
                a = self.ex(node.args[0], env, pre, ctl)
                if a.ty != STR or a.text is None:
                    self.fail('int() of a %s' % (a.ty,), node)
                return self.opt_bind('pyIntL %s 10' % a.p(), 'ValueError', INT, env, pre, ctl, node)
            self.fail('call of an unknown builtin/function %s' % f.id, node)
        if not isinstance(f, ast.Attribute):
            self.fail('unsupported call', node)
        p = self.resolve_path(f, env)
        if p is not None:
            # library / monitor methods addressed by path
            if p == ('shlex', 'split'):
                self.args_plain(node, 1, 'shlex.split')
                a = self.ex(node.args[0], env, pre, ctl)
                if a.ty != STR or a.text is None:
                    self.fail('shlex.split of a %s' % (a.ty,), node)
                return self.opt_bind('MonCmd.shlexSplit %s' % a.p(), 'ValueError', tlist(STR), env, pre, ctl, node)
            if p == ('re', 'match'):
                self.args_plain(node, 2, 're.match')
                pat = self.ex(node.args[0], env, pre, ctl)
                if 'pattern' not in pat.static:
                    self.fail('re.match with a pattern that is not in the translator\'s table', node)
                s = self.ex(node.args[1], env, pre, ctl)
                if s.ty != STR or s.text is None:
                    self.fail('re.match on a %s' % (s.ty,), node)
                helper, lit = pat.static['pattern']
                return Val('%s %s %s' % (helper, lit.p(), s.p()), MATCH)
            owner = self.unit['attrs'].get(p[:-1])
            if owner is not None and owner[0] == 'obj' and owner[1] == 'parser':
                if p[-1] == 'number':
                    self.args_plain(node, 1, 'number')
                    a = self.ex(node.args[0], env, pre, ctl)
                    if a.ty != STR or a.text is None:
                        self.fail('number() of a %s' % (a.ty,), node)
                    return self.except_bind('parseNumber P %s' % a.p(), INT, env, pre, ctl, node)
                if p[-1] == 'label_for':
                    self.args_plain(node, 1, 'label_for')
                    a = self.ex(node.args[0], env, pre, ctl)
                    if a.ty != INT:
                        self.fail('label_for() of a %s' % (a.ty,), node)
                    return Val('labelFor P %s' % a.p(), topt(STR))
                self.fail('unknown method %s of the address parser' % p[-1], node)
            if owner is not None and owner[0] == 'field' and owner[2] == tlist(topt(INT)) and p[-1] == 'index':
                self.args_plain(node, 1, 'index')
                a = self.coerce(self.ex(node.args[0], env, pre, ctl), topt(INT), node)
                return self.opt_bind('pyIndex σ.%s %s' % ('.'.join(owner[1]), a.p()), 'ValueError', INT,
                                     env, pre, ctl, node)
            if owner is not None and owner[0] == 'obj' and owner[1] == 'shortcuts' and p[-1] == 'items':
                self.args_plain(node, 0, 'items')
                return Val('_shortcuts', tlist(ttuple([STR, STR])), True)
            if p[0] == 'self' and len(p) == 2 and p[1] in self.unit['funcs']:
                self.fail('call of %s in an expression (only as a statement or `return self.f(...)`)' % p[1], node)
            self.fail('unknown attribute/method %s' % '.'.join(p), node)
        # method of a computed value
        recv = self.ex(f.value, env, pre, ctl)
        m = f.attr
        if recv.ty == STR and recv.text is not None and m in ('strip', 'lstrip', 'rstrip', 'startswith'):
            self.args_plain(node, 1, 'str.' + m)
            a = self.ex(node.args[0], env, pre, ctl)
            if a.ty != STR or a.text is None:
                self.fail('str.%s with a %s argument' % (m, a.ty), node)
            if m == 'startswith':
                return Val('startsWith %s %s' % (recv.p(), a.p()), BOOL)
            h = {'strip': 'pyStripChars', 'lstrip': 'pyLstripChars', 'rstrip': 'pyRstripChars'}[m]
            return Val('%s %s %s' % (h, a.p(), recv.p()), STR)
        if recv.ty == ttuple([INT, INT]) and recv.static.get('ismatch') and m == 'span':
            self.args_plain(node, 0, 'span')
            return Val(recv.text, recv.ty, True)
        self.fail('unknown method %s on a value of type %s' % (m, recv.ty), node)

    def subscript(self, node, env, pre, ctl):
        sl = node.slice
        p = self.resolve_path(node.value, env)
        if p is not None:
            a = self.unit['attrs'].get(p)
            if a is not None and a[0] == 'obj' and a[1] == 'stmem':
                i = self.ex(sl, env, pre, ctl)
                if i.ty != INT:
                    self.fail('memory index of type %s' % (i.ty,), node)
                return Val('σ.mpu.mem %s' % i.p(), INT)
            if a is not None and a[0] == 'obj' and a[1] == 'omem':
                self.fail('a monitor-side read of the ObservableMemory is not in the subset', node)
        base = self.ex(node.value, env, pre, ctl)
        if 'dict' in base.static:
            if not (isinstance(sl, ast.Constant) and isinstance(sl.value, str)):
                self.fail('table lookup with a key that is not a constant', node)
            d = base.static['dict']
            if sl.value not in d:
                self.fail('table lookup of a key that is not in the table (KeyError)', node)
            return Val(lean_strlist(d[sl.value]), STR, True, const=d[sl.value], template=[('lit', d[sl.value])])
        if base.text is None:
            self.fail('subscript of a static-only value', node)
        seq = base.ty == STR or (isinstance(base.ty, tuple) and base.ty[0] == 'list')
        if isinstance(sl, ast.Slice):
            if not seq or sl.step is not None or (sl.lower is None) == (sl.upper is None):
                self.fail('only the slices s[:i] and s[i:] of a string or list are accepted', node)
            b = self.ex(sl.lower if sl.lower is not None else sl.upper, env, pre, ctl)
            if b.ty != INT:
                self.fail('slice bound of type %s' % (b.ty,), node)
            h = 'pySliceFrom' if sl.lower is not None else 'pySliceTo'
            return Val('%s %s %s' % (h, base.p(), b.p()), base.ty)
        if isinstance(base.ty, tuple) and base.ty[0] == 'list':
            i = self.ex(sl, env, pre, ctl)
            if i.ty != INT:
                self.fail('list index of type %s' % (i.ty,), node)
            return self.opt_bind('pyGetItem %s %s' % (base.p(), i.p()), 'IndexError', base.ty[1], env, pre, ctl, node)
        self.fail('subscript of a %s' % (base.ty,), node)

    # -- statements ----------------------------------------------------------------------
    @staticmethod
    def wrap(pre, lines):
        for w in reversed(pre):
            lines = w(lines)
        return lines

    def let(self, lean, ty, text):
        return 'let %s : %s := %s' % (lean, lean_type(ty), text)

    def bind_name(self, env, name, v, node):
        """env after `name = v`; returns (env, lines)"""
        env = dict(env)
        if v.text is None:
            keep = dict((k, x) for k, x in v.static.items() if k in ('alias', 'template', 'pattern'))
            if not keep:
                self.fail('cannot bind a static-only value', node)
            env[name] = Bind(None, v.ty, keep)
            return env, ['-- %s  (no run-time value: resolved by the translator)' % unparse1(node)]
        st = dict((k, x) for k, x in v.static.items() if k in ('const', 'template', 'ismatch'))
        env[name] = Bind(self.mangle(name), v.ty, st)
        text = '()' if v.ty == NONE else v.text
        return env, [self.let(self.mangle(name), v.ty, text)]

    def block(self, stmts, env, k, ctl):
        if not stmts:
            return k(env)
        s, rest = stmts[0], stmts[1:]

        def restk(e):
            return self.block(rest, e, k, ctl)
        if isinstance(s, ast.Pass):
            return restk(env)
        if isinstance(s, ast.Expr) and isinstance(s.value, ast.Constant) and isinstance(s.value.value, str):
            return restk(env)                      # docstring
        if isinstance(s, ast.Assign):
            return self.st_assign(s, env, restk, ctl)
        if isinstance(s, ast.AugAssign):
            return self.st_augassign(s, env, restk, ctl)
        if isinstance(s, ast.Expr):
            if not isinstance(s.value, ast.Call):
                self.fail('expression statement that is not a call', s)
            return self.st_call(s.value, env, restk, ctl, s)
        if isinstance(s, ast.If):
            return self.st_if(s, env, restk, ctl)
        if isinstance(s, ast.While):
            return self.st_while(s, env, restk, ctl)
        if isinstance(s, ast.For):
            return self.st_for(s, env, restk, ctl)
        if isinstance(s, ast.Try):
            return self.st_try(s, env, restk, ctl)
        if isinstance(s, ast.Return):
            return self.st_return(s, env, ctl)
        if isinstance(s, ast.Break):
            if ctl.phi:
                raise NeedCPS()
            if ctl.lc is None:
                self.fail('break outside a loop', s)
            return ['-- break'] + ctl.lc.brk(env)
        if isinstance(s, ast.Continue):
            if ctl.phi:
                raise NeedCPS()
            if ctl.lc is None:
                self.fail('continue outside a loop', s)
            return ['-- continue'] + ctl.lc.cont(env)
        self.fail('unsupported statement kind %s' % type(s).__name__, s)

    def st_assign(self, s, env, k, ctl):
        if len(s.targets) != 1:
            self.fail('chained assignment', s)
        tg = s.targets[0]
        pre = []
        head = ['-- %s' % unparse1(s)]
        if isinstance(tg, ast.Name):
            v = self.ex(s.value, env, pre, ctl)
            env2, lines = self.bind_name(env, tg.id, v, s)
            if v.text is None:
                return self.wrap(pre, lines + k(env2))
            return head + self.wrap(pre, lines + k(env2))
        if isinstance(tg, ast.Tuple):
            if not all(isinstance(e, ast.Name) for e in tg.elts):
                self.fail('unpacking into something other than names', s)
            v = self.ex(s.value, env, pre, ctl)
            if not (isinstance(v.ty, tuple) and v.ty[0] == 'tuple' and len(v.ty[1]) == len(tg.elts)):
                self.fail('unpacking a value that is not a tuple of the right length', s)
            n = len(tg.elts)
            if 'items' in v.static:
                items = v.static['items']
                used = set(x.id for e in s.value.elts for x in ast.walk(e) if isinstance(x, ast.Name))
                if used & set(e.id for e in tg.elts):
                    self.fail('parallel assignment whose right side mentions a target', s)
            else:
                items = [Val('%s%s' % (v.text, proj(n, i)), v.ty[1][i], True) for i in range(n)]
            lines = head
            env2 = env
            for e, it in zip(tg.elts, items):
                env2, ls = self.bind_name(env2, e.id, it, s)
                lines = lines + ls
            return self.wrap(pre, lines + k(env2))
        if isinstance(tg, ast.Attribute):
            self.need_flow(s, 'an attribute store')
            p = self.resolve_path(tg, env)
            a = self.unit['attrs'].get(p) if p else None
            if a is None or a[0] != 'field':
                self.fail('store to an attribute that is not a state field of unit %s' % self.unitname, s)
            v = self.coerce(self.ex(s.value, env, pre, ctl), a[2], s)
            return head + self.wrap(pre, ['let σ : %s := %s' % (self.unit['state'], self.state_upd(a[1], v.text))] + k(env))
        if isinstance(tg, ast.Subscript):
            self.need_flow(s, 'a subscript store')
            p = self.resolve_path(tg.value, env)
            a = self.unit['attrs'].get(p) if p else None
            if a is None or isinstance(tg.slice, ast.Slice):
                self.fail('subscript store to something other than memory / the breakpoint list', s)
            # Python evaluates the right side first, then the target's index
            v = self.ex(s.value, env, pre, ctl)
            i = self.ex(tg.slice, env, pre, ctl)
            if i.ty != INT:
                self.fail('index of type %s' % (i.ty,), s)
            if a[0] == 'obj' and a[1] == 'omem':
                if v.ty != INT:
                    self.fail('memory store of a %s' % (v.ty,), s)
                upd = self.state_upd(('memory',), 'ObsMem.set reply σ.memory %s %s' % (i.p(), v.p()))
                return head + self.wrap(pre, ['let σ : %s := %s' % (self.unit['state'], upd)] + k(env))
            if a[0] == 'field' and isinstance(a[2], tuple) and a[2][0] == 'list':
                v = self.coerce(v, a[2][1], s)
                fld = 'σ.' + '.'.join(a[1])
                nl = self.opt_bind('pyListSet %s %s %s' % (fld, i.p(), v.p()), 'IndexError', a[2], env, pre, ctl, s)
                return head + self.wrap(pre, ['let σ : %s := %s' % (self.unit['state'], self.state_upd(a[1], nl.text))]
                                 + k(env))
            self.fail('subscript store to %s' % '.'.join(p), s)
        self.fail('unsupported assignment target', s)

    def st_augassign(self, s, env, k, ctl):
        if not isinstance(s.target, ast.Name):
            self.fail('augmented assignment to something other than a name', s)
        fake = ast.BinOp(left=ast.Name(id=s.target.id, ctx=ast.Load()), op=s.op, right=s.value)
        ast.copy_location(fake, s)
        ast.fix_missing_locations(fake)
        pre = []
        v = self.ex(fake, env, pre, ctl)
        b = env.get(s.target.id)
        if v.text is None or b is None or v.ty != b.ty:
            self.fail('augmented assignment changes the type', s)
        v.static = {}
        env2, lines = self.bind_name(env, s.target.id, v, s)
        return ['-- %s' % unparse1(s)] + self.wrap(pre, lines + k(env2))

    def st_return(self, s, env, ctl):
        if ctl.phi:
            raise NeedCPS()
        if ctl.lc is not None:
            self.fail('return inside a loop', s)
        head = ['-- %s' % unparse1(s)]
        if self.mode == 'pure':
            if s.value is None:
                self.fail('bare return in a value function', s)
            pre = []
            v = self.coerce(self.ex(s.value, env, pre, ctl), self.unit['rets'][self.fname], s)
            return head + self.wrap(pre, [v.text])
        if s.value is None or (isinstance(s.value, ast.Constant) and s.value.value is None):
            return head + ['.ok () σ']
        if isinstance(s.value, ast.Call):
            p = self.resolve_path(s.value.func, env)
            if p and p[0] == 'self' and len(p) == 2 and p[1] in self.unit['funcs']:
                if ctl.hs:
                    self.fail('call of a translated method inside try', s)
                pre = []
                return head + self.wrap(pre, [self.internal_call(s.value, p[1], env, pre, ctl)])
        self.fail('return of a value from a command method', s)

    def internal_call(self, node, callee, env, pre, ctl):
        sig = self.unit['sigs'][callee]
        given = {}
        if len(node.args) > len(sig):
            self.fail('too many arguments for %s' % callee, node)
        for (pn, pt), a in zip(sig, node.args):
            given[pn] = a
        for kw in node.keywords:
            if kw.arg is None or kw.arg in given or kw.arg not in [x for x, _ in sig]:
                self.fail('bad keyword argument for %s' % callee, node)
            given[kw.arg] = kw.value
        args = []
        for pn, pt in sig:
            if pn not in given:
                self.fail('missing argument %s for %s' % (pn, callee), node)
            v = self.coerce(self.ex(given[pn], env, pre, ctl), pt, node)
            if v.text is None:
                self.fail('static-only argument', node)
            args.append(v.p())
        ps = self.pnames()
        return ' '.join(x for x in [callee, ps, 'fuel' if self.fuel_of[callee] else '', ' '.join(args), 'σ'] if x)

    def st_call(self, node, env, k, ctl, s):
        head = ['-- %s' % unparse1(s)]
        p = self.resolve_path(node.func, env)
        if p in SKIPPED_CALLS:
            for a in node.args:
                ap = self.resolve_path(a, env)
                at = self.unit['attrs'].get(ap) if ap else None
                if at is None or at[0] != 'obj' or at[1] != 'ignored':
                    self.fail('unexpected argument of a console call', s)
            return ['-- %s  (console mode switching: no effect on the modelled state, skipped by name)'
                    % unparse1(s)] + k(env)
        self.need_flow(s, 'a call statement')
        st = self.unit['state']
        pre = []
        if p == ('self', '_output'):
            if not self.unit['uses_output']:
                self.fail('_output is not available in unit %s' % self.unitname, s)
            if node.keywords:
                self.fail('keyword argument for _output', s)
            vals = [self.ex(a, env, pre, ctl) for a in node.args]
            if len(vals) != 1:
                # _output(self, stuff) takes exactly one argument: TypeError, after the arguments
                return head + self.wrap(pre, ['-- _output takes exactly one argument: TypeError']
                                 + self.raise_lines('TypeError', env, ctl, s))
            if vals[0].ty != STR or vals[0].text is None:
                self.fail('_output of a %s' % (vals[0].ty,), s)
            upd = self.state_upd(('out',), 'σ.out ++ [%s]' % vals[0].text)
            return head + self.wrap(pre, ['let σ : %s := %s' % (st, upd)] + k(env))
        if p is not None and p[-1] == 'step' and self.unit['attrs'].get(p[:-1], (None, None))[:2] == ('obj', 'mpu') \
                and self.unitname == 'run':
            self.args_plain(node, 0, 'mpu.step')
            return head + ['let σ : %s := %s' % (st, self.state_upd(('mpu',), 'step σ.mpu'))] + k(env)
        if p == ('self', 'do_disassemble') and self.unitname == 'run':
            self.args_plain(node, 1, 'do_disassemble')
            a = self.ex(node.args[0], env, pre, ctl)
            if a.ty != STR or a.text is None:
                self.fail('do_disassemble of a %s' % (a.ty,), s)
            upd = self.state_upd(('out',), 'σ.out ++ dis %s σ.mpu' % a.p())
            return head + self.wrap(pre, ['let σ : %s := %s' % (st, upd)] + k(env))
        if p is not None and p[-1] == 'append':
            a = self.unit['attrs'].get(p[:-1])
            if a is not None and a[0] == 'field' and isinstance(a[2], tuple) and a[2][0] == 'list':
                self.args_plain(node, 1, 'append')
                v = self.coerce(self.ex(node.args[0], env, pre, ctl), a[2][1], s)
                upd = self.state_upd(a[1], 'σ.%s ++ [%s]' % ('.'.join(a[1]), v.text))
                return head + self.wrap(pre, ['let σ : %s := %s' % (st, upd)] + k(env))
        if p and p[0] == 'self' and len(p) == 2 and p[1] in self.unit['funcs']:
            if ctl.phi:
                raise NeedCPS()
            if ctl.hs:
                self.fail('call of a translated method inside try', s)
            call = self.internal_call(node, p[1], env, pre, ctl)
            return head + self.wrap(pre, ['(%s).bind fun _ σ =>' % call] + k(env))
        self.fail('call of an unknown function/method %s' % ('.'.join(p) if p else unparse1(node.func)), s)

    # -- compound statements ---------------------------------------------------------------
    @staticmethod
    def dfs(node):
        yield node
        for c in ast.iter_child_nodes(node):
            for x in FnTr.dfs(c):
                yield x

    def assigned(self, stmts):
        out = []
        for s in stmts:
            for n in self.dfs(s):
                if isinstance(n, ast.Name) and isinstance(n.ctx, ast.Store) and n.id not in out:
                    out.append(n.id)
                elif isinstance(n, ast.AugAssign) and isinstance(n.target, ast.Name) and n.target.id not in out:
                    out.append(n.target.id)
        return out

    def loaded(self, nodes):
        out = []
        for s in nodes:
            for n in self.dfs(s):
                if isinstance(n, ast.Name) and n.id not in out:
                    out.append(n.id)
        return out

    def touches_state(self, stmts):
        for s in stmts:
            for n in self.dfs(s):
                if isinstance(n, ast.Expr) and isinstance(n.value, ast.Call):
                    return True
                if isinstance(n, (ast.Attribute, ast.Subscript)) and isinstance(n.ctx, ast.Store):
                    return True
        return False

    def narrowing(self, test, env):
        def optname(n):
            if isinstance(n, ast.Name):
                b = env.get(n.id)
                if b is not None and b.lean is not None and isinstance(b.ty, tuple) and b.ty[0] == 'opt':
                    return n.id
            return None
        if optname(test):
            return test.id, True
        if isinstance(test, ast.UnaryOp) and isinstance(test.op, ast.Not) and optname(test.operand):
            return test.operand.id, False
        if isinstance(test, ast.Compare) and len(test.ops) == 1 and optname(test.left) and \
                isinstance(test.comparators[0], ast.Constant) and test.comparators[0].value is None:
            if isinstance(test.ops[0], ast.IsNot):
                return test.left.id, True
            if isinstance(test.ops[0], ast.Is):
                return test.left.id, False
        return None

    def st_if(self, s, env, k, ctl):
        head = ['-- if %s:' % unparse1(s.test)]
        nf = self.narrowing(s.test, env)
        if nf:
            name, positive = nf
            b = env[name]
            env_some = dict(env)
            env_some[name] = Bind(b.lean, b.ty[1], {'ismatch': True} if b.ty == MATCH else {})
            yes, no = (s.body, s.orelse) if positive else (s.orelse, s.body)
            return head + ['match %s with' % b.lean, '| some %s =>' % b.lean] + \
                ind(self.block(yes, env_some, k, ctl)) + ['| none =>'] + ind(self.block(no, env, k, ctl))
        # phi style: both arms only assign; the statement yields the tuple of assigned variables
        try:
            return self.if_phi(s, env, k, ctl, head)
        except NeedCPS:
            if ctl.phi:
                raise
        pre = []
        c = self.cond(s.test, env, pre, ctl)
        lines = ['if %s then' % c] + ind(self.block(s.body, env, k, ctl)) + ['else'] + \
            ind(self.block(s.orelse, env, k, ctl))
        return head + self.wrap(pre, lines)

    def if_phi(self, s, env, k, ctl, head):
        names = [n for n in self.assigned(s.body + s.orelse) if n in env and env[n].lean is not None]
        with_state = self.mode == 'flow' and self.touches_state(s.body + s.orelse)
        for n in self.assigned(s.body + s.orelse):
            if n in env and env[n].lean is None:
                raise NeedCPS()
        comps = [(env[n].lean, lean_type(env[n].ty)) for n in names]
        if with_state:
            comps.append(('σ', self.unit['state']))
        if not comps:
            raise NeedCPS()
        pctl = ctl.with_(phi=True)

        def endk(e):
            for n in names:
                if e[n].ty != env[n].ty or e[n].lean is None:
                    raise NeedCPS()
            if len(comps) == 1:
                return [comps[0][0]]
            return ['(%s)' % ', '.join(c for c, _ in comps)]
        pre = []
        c = self.cond(s.test, env, pre, pctl)
        if pre:
            raise NeedCPS()
        body = ['if %s then' % c] + ind(self.block(s.body, env, endk, pctl)) + ['else'] + \
            ind(self.block(s.orelse, env, endk, pctl))
        env2 = dict(env)
        for n in names:
            env2[n] = Bind(env[n].lean, env[n].ty)
        if len(comps) == 1:
            lines = ['let %s : %s :=' % comps[0]] + ind(body)
        else:
            lines = ['let phi_ : %s :=' % ' × '.join(t for _, t in comps)] + ind(body)
            for i, (cn, ct) in enumerate(comps):
                lines.append('let %s : %s := phi_%s' % (cn, ct, proj(len(comps), i)))
        return head + lines + k(env2)

    def loop_frame(self, s, env, ctl, extra_nodes, targets):
        """carried variables, free variables (become parameters) and the environment inside"""
        if ctl.phi:
            raise NeedCPS()
        if ctl.hs:
            self.fail('a loop inside try', s)
        if s.orelse:
            self.fail('loop with an else clause', s)
        asg = self.assigned(s.body)
        for t in targets:
            if t in env:
                self.fail('loop target %s shadows an existing variable' % t, s)
        carried = [n for n in asg if n in env and n not in targets]
        for n in carried:
            if env[n].lean is None:
                self.fail('a static-only variable (%s) is assigned in a loop' % n, s)
        free = [n for n in self.loaded(extra_nodes + s.body) if n in env and n not in carried
                and env[n].lean is not None]
        env_in = dict(env)
        for n in carried:
            env_in[n] = Bind(env[n].lean, env[n].ty)
        return carried, free, env_in

    def carried_tuple(self, carried, e, env, s):
        for n in carried:
            if n not in e or e[n].lean is None or e[n].ty != env[n].ty:
                self.fail('loop-carried variable %s changes its type' % n, s)
        if not carried:
            return '()'
        if len(carried) == 1:
            return e[carried[0]].lean
        return '(%s)' % ', '.join(e[n].lean for n in carried)

    def after_loop(self, call, carried, env, k):
        env2 = dict(env)
        lines = []
        n = len(carried)
        tys = [lean_type(env[c].ty, False) for c in carried]
        rty = 'Unit' if not carried else ' × '.join(tys)
        if self.mode == 'flow':
            lines.append('(%s).bind fun %s σ =>' % (call, 'r_' if carried else '_'))
        else:
            lines.append('let r_ : %s := %s' % (rty, call))
        for i, c in enumerate(carried):
            env2[c] = Bind(env[c].lean, env[c].ty)
            lines.append(self.let(env[c].lean, env[c].ty, 'r_%s' % proj(n, i)))
        return lines + k(env2)

    def st_while(self, s, env, k, ctl):
        self.need_flow(s, 'a while loop')
        carried, free, env_in = self.loop_frame(s, env, ctl, [s.test], [])
        self.nloop += 1
        name = '%s_while%d' % (self.fname, self.nloop)
        st = self.unit['state']
        fixed = ' '.join(x for x in [name, self.pnames()] + [env[n].lean for n in free] if x)

        def rec(e):
            self.carried_tuple(carried, e, env, s)
            return [' '.join([fixed, 'fuel'] + [e[n].lean for n in carried] + ['σ'])]

        def brk(e):
            return ['.ok %s σ' % self.carried_tuple(carried, e, env, s)]
        lctl = Ctl((), Loop(brk, rec), False)
        body = self.block(s.body, env_in, rec, lctl)
        if isinstance(s.test, ast.Constant) and s.test.value is True:
            lines = body
        else:
            pre = []
            c = self.cond(s.test, env_in, pre, lctl)
            lines = self.wrap(pre, ['if %s then' % c] + ind(body) + ['else'] + ind(brk(env_in)))
        cl = [env[n].lean for n in carried]
        tys = [lean_type(env[n].ty, False) for n in carried]
        rty = 'Unit' if not carried else ' × '.join(tys)
        decl = ' '.join([self.pdecl()] + ['(%s : %s)' % (env[n].lean, lean_type(env[n].ty)) for n in free]).strip()
        d = ['/-- `while %s:` of `%s` (loop %d).  Loop-carried: %s.  `fuel` bounds the number of iterations. -/'
             % (unparse1(s.test), self.fname, self.nloop, ', '.join(carried) or 'only the state'),
             'def %s %s :' % (name, decl),
             '    %s → %s → Flow %s %s' % (' → '.join(['Nat'] + tys), st, st, rty if len(carried) <= 1 else '(%s)' % rty),
             '  | %s => .nofuel' % ', '.join(['0'] + cl + ['σ']),
             '  | %s =>' % ', '.join(['fuel + 1'] + cl + ['σ'])] + ind(lines, 4)
        self.aux.append('\n'.join(d))
        call = ' '.join([fixed, 'fuel'] + cl + ['σ'])
        return ['-- while %s:' % unparse1(s.test)] + self.after_loop(call, carried, env, k)

    def st_for(self, s, env, k, ctl):
        it, enum = s.iter, False
        if isinstance(it, ast.Call) and isinstance(it.func, ast.Name) and it.func.id == 'enumerate' \
                and 'enumerate' not in env:
            self.args_plain(it, 1, 'enumerate')
            it, enum = it.args[0], True
        tg = s.target
        if enum:
            if not (isinstance(tg, ast.Tuple) and len(tg.elts) == 2 and isinstance(tg.elts[0], ast.Name)):
                self.fail('enumerate needs a target `i, x`', s)
            idx, tg = tg.elts[0].id, tg.elts[1]
        if isinstance(tg, ast.Name):
            tnames = [tg.id]
        elif isinstance(tg, ast.Tuple) and all(isinstance(e, ast.Name) for e in tg.elts):
            tnames = [e.id for e in tg.elts]
        else:
            self.fail('unsupported loop target', s)
        targets = tnames + ([idx] if enum else [])
        if len(set(targets)) != len(targets):
            self.fail('repeated loop target', s)
        carried, free, env_in = self.loop_frame(s, env, ctl, [], targets)
        pre = []
        seq = self.ex(it, env, pre, ctl)
        if seq.text is None:
            self.fail('iteration over a static-only value', s)
        if seq.ty == STR:
            ety = CHAR
        elif isinstance(seq.ty, tuple) and seq.ty[0] == 'list':
            ety = seq.ty[1]
        else:
            self.fail('iteration over a %s' % (seq.ty,), s)
        if isinstance(tg, ast.Name):
            env_in[tg.id] = Bind(self.mangle(tg.id), ety)
            pat = self.mangle(tg.id)
        else:
            if not (isinstance(ety, tuple) and ety[0] == 'tuple' and len(ety[1]) == len(tnames)):
                self.fail('unpacking loop target does not fit the element type', s)
            for n, t in zip(tnames, ety[1]):
                env_in[n] = Bind(self.mangle(n), t)
            pat = '(%s)' % ', '.join(self.mangle(n) for n in tnames)
        if enum:
            env_in[idx] = Bind(self.mangle(idx), INT)
        self.nloop += 1
        name = '%s_for%d' % (self.fname, self.nloop)
        st = self.unit['state']
        flow = self.mode == 'flow'
        fixed = ' '.join(x for x in [name, self.pnames()] + [env[n].lean for n in free] if x)
        sig = ['σ'] if flow else []

        def rec(e):
            parts = [fixed] + (['(%s + 1)' % self.mangle(idx)] if enum else []) + ['rest_']
            for n in carried:
                self.carried_tuple([n], e, env, s)
                parts.append(e[n].lean)
            return [' '.join(parts + sig)]

        def brk(e):
            t = self.carried_tuple(carried, e, env, s)
            return ['.ok %s σ' % t] if flow else [t]
        lctl = Ctl((), Loop(brk, rec), False)
        body = self.block(s.body, env_in, rec, lctl)
        cl = [env[n].lean for n in carried]
        tys = [lean_type(env[n].ty, False) for n in carried]
        rty = 'Unit' if not carried else ' × '.join(tys)
        decl = ' '.join([self.pdecl()] + ['(%s : %s)' % (env[n].lean, lean_type(env[n].ty)) for n in free]).strip()
        argt = (['Int'] if enum else []) + ['List %s' % lean_type(ety, False)] + tys + ([st] if flow else [])
        res = ('Flow %s %s' % (st, rty if len(carried) <= 1 else '(%s)' % rty)) if flow else rty
        ipat = [self.mangle(idx)] if enum else []
        d = ['/-- `for %s in %s:` of `%s` (loop %d).  Loop-carried: %s. -/'
             % (unparse1(s.target), unparse1(s.iter), self.fname, self.nloop, ', '.join(carried) or 'only the state'),
             ('def %s %s :' % (name, decl)).replace(' :', ' :').replace('  :', ' :'),
             '    %s → %s' % (' → '.join(argt), res),
             '  | %s => %s' % (', '.join(ipat + ['[]'] + cl + sig), brk(env_in)[0]),
             '  | %s =>' % ', '.join(ipat + ['%s :: rest_' % pat] + cl + sig)] + ind(body, 4)
        self.aux.append('\n'.join(d))
        call = ' '.join([fixed] + (['0'] if enum else []) + [seq.p()] + cl + sig)
        return ['-- for %s in %s:' % (unparse1(s.target), unparse1(s.iter))] + \
            self.wrap(pre, self.after_loop(call, carried, env, k))

    def st_try(self, s, env, k, ctl):
        self.need_flow(s, 'try')
        if ctl.phi:
            raise NeedCPS()
        if s.orelse or s.finalbody:
            self.fail('try with else/finally', s)
        hs = []
        for h in s.handlers:
            if h.name is not None:
                self.fail('`except ... as name`', s)
            if h.type is None:
                names = [None]
            elif isinstance(h.type, ast.Name):
                names = [h.type.id]
            elif isinstance(h.type, ast.Tuple) and all(isinstance(e, ast.Name) for e in h.type.elts):
                names = [e.id for e in h.type.elts]
            else:
                self.fail('unsupported exception specification', s)
            hs.append(Handler(names, h.body, k, ctl))
        return ['-- try:  (handlers: %s; every raise below is resolved statically)'
                % ', '.join('/'.join(str(n) for n in h.names) for h in hs)] + \
            self.block(s.body, env, k, ctl.with_(hs=tuple(hs) + ctl.hs))

    # -- the function ----------------------------------------------------------------------
    def translate(self):
        fd = self.fd
        sig = self.unit['sigs'][self.fname]
        a = fd.args
        if a.vararg or a.kwarg or a.kwonlyargs or a.posonlyargs or a.defaults or \
                [x.arg for x in a.args] != ['self'] + [n for n, _ in sig]:
            self.fail('signature differs from (self, %s)' % ', '.join(n for n, _ in sig), fd)
        if fd.decorator_list:
            self.fail('decorated method', fd)
        env = {}
        for n, t in sig:
            env[n] = Bind(self.mangle(n), t)
        flow = self.mode == 'flow'
        st = self.unit['state']

        def endk(e):
            if flow:
                return ['.ok () σ']
            self.fail('the function may fall off its end without a value', fd)
        lines = self.block(fd.body, env, endk, Ctl())
        params = [self.pdecl()]
        if flow and self.fuel_of[self.fname]:
            params.append('(fuel : Nat)')
        params += ['(%s : %s)' % (self.mangle(n), lean_type(t)) for n, t in sig]
        if flow:
            params.append('(σ : %s)' % st)
            res = 'Flow %s Unit' % st
        else:
            res = lean_type(self.unit['rets'][self.fname])
        head = ['/-- `Monitor.%s` (py65/monitor.py), statement by statement. -/' % self.fname,
                'def %s %s : %s :=' % (self.fname, ' '.join(p for p in params if p), res)]
        return '\n\n'.join(self.aux + ['\n'.join(head + ind(lines))])


# ---------------------------------------------------------------------------------------
# one unit, the file
# ---------------------------------------------------------------------------------------

STORE_SITES = {'addrMask': '_reset', 'byteMask': '_reset', 'addrFmt': '_reset', '_address_parser': '_reset',
               '_mpu': '_reset', '_breakpoints': '__init__', '_shortcuts': '_add_shortcuts'}

HEADER = '''/-
GENERATED by harness/py2lean_mon.py from py65/monitor.py (class Monitor) -- do not edit.
Unit `%s`: %s.
Shallow embedding, statement by statement (the Python statement is quoted above its translation);
library behaviour is the named helpers of Py65/Model/MonGenRt.lean and of the hand models.
-/
import Py65.Model.MonGenRt

set_option linter.unusedVariables false

namespace %s
open Py65 Py65.Model Py65.Model.PyStr Py65.Model.ObsMem Py65.Model.AddrParser Py65.Model.MonMem Py65.Model.MonGenRt
'''


def class_methods(tree, fname):
    cls = [n for n in tree.body if isinstance(n, ast.ClassDef) and n.name == 'Monitor']
    if len(cls) != 1:
        raise Unsupported('expected exactly one class Monitor in %s' % fname)
    methods = {}
    for n in cls[0].body:
        if isinstance(n, (ast.FunctionDef, ast.AsyncFunctionDef)):
            if n.name in methods:
                raise Unsupported('method %s is defined twice in class Monitor' % n.name, n, n.name)
            methods[n.name] = n
    return cls[0], methods


def check_facts(unitname, unit, methods):
    def tops(name):
        if name not in methods:
            raise Unsupported('method %s is missing' % name)
        out = []
        for s in methods[name].body:
            out.append(ast.unparse(s))
            if isinstance(s, ast.Try):          # __init__ wraps its second half in try/except
                out.extend(ast.unparse(x) for x in s.body)
        return out
    for fact in unit['reset_facts']:
        if fact not in tops('_reset'):
            raise Unsupported('_reset no longer contains `%s` (unit %s relies on it)' % (fact, unitname),
                              methods.get('_reset'), '_reset')
    for fact in unit['init_facts']:
        if fact not in tops('__init__'):
            raise Unsupported('__init__ no longer contains `%s` (unit %s relies on it)' % (fact, unitname),
                              methods.get('__init__'), '__init__')
    used = set(p[1] for p in unit['attrs'] if len(p) >= 2 and p[0] == 'self')
    for mname, fd in methods.items():
        for n in ast.walk(fd):
            tgt = None
            if isinstance(n, ast.Attribute) and isinstance(n.ctx, (ast.Store, ast.Del)):
                tgt = n
            if tgt is not None and isinstance(tgt.value, ast.Name) and tgt.value.id == 'self' \
                    and tgt.attr in used and tgt.attr in STORE_SITES and STORE_SITES[tgt.attr] != mname:
                raise Unsupported('self.%s is also assigned in %s (the translation assumes it is set only in %s)'
                                  % (tgt.attr, mname, STORE_SITES[tgt.attr]), tgt, mname)
    if unit['uses_output']:
        fd = methods.get('_output')
        if fd is None or [a.arg for a in fd.args.args] != ['self', 'stuff'] or fd.args.defaults or \
                fd.args.vararg or fd.args.kwarg or len(fd.body) != 1 or ast.unparse(fd.body[0]) != OUTPUT_BODY:
            raise Unsupported('_output is no longer `def _output(self, stuff): %s`' % OUTPUT_BODY, fd, '_output')


def shortcut_table(methods):
    fd = methods.get('_add_shortcuts')
    if fd is None:
        raise Unsupported('method _add_shortcuts is missing')
    body = [s for s in fd.body if not (isinstance(s, ast.Expr) and isinstance(s.value, ast.Constant))]
    if [a.arg for a in fd.args.args] != ['self'] or len(body) != 1 or not isinstance(body[0], ast.Assign) \
            or len(body[0].targets) != 1 or path_of(body[0].targets[0]) != ('self', '_shortcuts') \
            or not isinstance(body[0].value, ast.Dict):
        raise Unsupported('_add_shortcuts is not the single assignment `self._shortcuts = {...}`', fd, '_add_shortcuts')
    table = []
    for kx, vx in zip(body[0].value.keys, body[0].value.values):
        if not (isinstance(kx, ast.Constant) and isinstance(kx.value, str) and
                isinstance(vx, ast.Constant) and isinstance(vx.value, str)):
            raise Unsupported('a shortcut table entry is not `str: str`', kx or vx, '_add_shortcuts')
        if kx.value in [a for a, _ in table]:
            raise Unsupported('duplicate shortcut key %r' % kx.value, kx, '_add_shortcuts')
        table.append((kx.value, vx.value))
    return table


def translate_unit(unitname, methods):
    unit = UNITS[unitname]
    check_facts(unitname, unit, methods)
    for f in unit['funcs']:
        if f not in methods:
            raise Unsupported('method %s is missing' % f)
    consts = {}
    chunks = []
    if unitname == 'pre':
        table = shortcut_table(methods)
        consts['shortcuts'] = dict(table)
        rows = ['(%s, %s)' % (lean_strlist(a), lean_strlist(b)) for a, b in table]
        chunks.append('/-- `self._shortcuts` as assigned by `Monitor._add_shortcuts`, in dict (insertion) order. -/\n'
                      'def _shortcuts : List (Str × Str) :=\n  [' + ',\n   '.join(rows) + ']')
    # which functions need fuel (contain a while loop, or call one that does)
    fuel = dict((f, any(isinstance(n, ast.While) for n in ast.walk(methods[f]))) for f in unit['funcs'])
    changed = True
    while changed:
        changed = False
        for f in unit['funcs']:
            if fuel[f]:
                continue
            for n in ast.walk(methods[f]):
                if isinstance(n, ast.Call) and path_of(n.func) and path_of(n.func)[0] == 'self' \
                        and len(path_of(n.func)) == 2 and fuel.get(path_of(n.func)[1]):
                    fuel[f] = True
                    changed = True
    for f in unit['funcs']:
        chunks.append(FnTr(unitname, unit, methods, f, fuel, consts).translate())
    what = ', '.join('Monitor.' + f for f in (['_add_shortcuts'] if unitname == 'pre' else []) + unit['funcs'])
    return HEADER % (unitname, what, unit['ns']) + '\n' + '\n\n'.join(chunks) + '\n\nend %s\n' % unit['ns']


def main():
    ap = argparse.ArgumentParser()
    ap.add_argument('--out', required=True)
    ap.add_argument('--report', default=None)
    ap.add_argument('--units', default='fill,run,pre')
    ap.add_argument('--source', default=None, help='monitor.py (default: $PY65_REPO/py65/monitor.py)')
    args = ap.parse_args()
    src = args.source or os.path.join(os.environ.get('PY65_REPO', '/repo'), 'py65', 'monitor.py')
    units = [u for u in args.units.split(',') if u]
    report = {'ok': False, 'source': src, 'units': {}}
    rc = 0
    try:
        data = open(src, 'rb').read()
        report['source_sha256'] = hashlib.sha256(data).hexdigest()
        tree = ast.parse(data.decode('utf-8'), filename=src)
        _, methods = class_methods(tree, src)
    except (Unsupported, SyntaxError, OSError, UnicodeDecodeError) as ex:
        report['error'] = getattr(ex, 'msg', None) or str(ex)
        report['where'] = src
        units, rc = [], 3
    written = []
    for u in units:
        if u not in UNITS:
            report['error'] = 'unknown unit %s' % u
            rc = 2
            continue
        r = {'ok': False, 'file': UNITS[u]['file'], 'functions': UNITS[u]['funcs']}
        try:
            text = translate_unit(u, methods)
            r['ok'] = True
            os.makedirs(args.out, exist_ok=True)
            p = os.path.join(args.out, UNITS[u]['file'])
            old = open(p).read() if os.path.exists(p) else None
            if old != text:
                with open(p, 'w') as f:
                    f.write(text)
                written.append(UNITS[u]['file'])
        except Unsupported as ex:
            r['error'] = ex.msg
            if ex.func:
                r['function'] = ex.func
            if ex.node is not None and hasattr(ex.node, 'lineno'):
                r['where'] = '%s:%d' % (src, ex.node.lineno)
            else:
                r['where'] = src
            sys.stderr.write('py2lean_mon: unit %s unsupported: %s\n' % (u, ex.msg))
            if rc == 0:
                rc = 3
                report['error'], report['where'] = ex.msg, r['where']
                if ex.func:
                    report['function'] = ex.func
        report['units'][u] = r
    report['written'] = written
    report['ok'] = rc == 0
    if args.report:
        with open(args.report, 'w') as f:
            json.dump(report, f, indent=1)
    sys.exit(rc)


if __name__ == '__main__':
    main()
