#!/usr/bin/env python3
"""Source watch: does the implementation under /repo differ from the tree the hand models were
written against?

`pins/py65_ast.json` holds, for every non-test module of py65 at the pinned tree, a hash of each
top-level function / method (AST dump without docstrings, so comments, blank lines and docstrings
never matter).  `changed(repo)` lists the functions whose hash differs now.  This is NOT a tie and
never produces a verdict: it only tells the check runner to spend more effort (more exploration
rounds with fresh seeds, thorough-size generators) on a tree that is not the pinned one, and
harvests the literals that appear only in the changed functions so that generators can aim at them.

  python3 harness/srcwatch.py --pin      rewrite the pin file from $PY65_REPO (default /repo)
  python3 harness/srcwatch.py            print what differs
"""
import ast
import hashlib
import json
import os
import sys

HERE = os.path.dirname(os.path.abspath(__file__))
PIN = os.path.join(HERE, 'pins', 'py65_ast.json')


def _strip_doc(node):
    for n in ast.walk(node):
        if isinstance(n, (ast.FunctionDef, ast.ClassDef, ast.Module, ast.AsyncFunctionDef)):
            b = n.body
            if b and isinstance(b[0], ast.Expr) and isinstance(getattr(b[0], 'value', None), ast.Constant) \
                    and isinstance(b[0].value.value, str):
                n.body = b[1:] or [ast.Pass()]
    return node


def _consts(node):
    ints, strs = set(), set()
    for n in ast.walk(node):
        if isinstance(n, ast.Constant):
            v = n.value
            if isinstance(v, bool) or v is None:
                continue
            if isinstance(v, int):
                ints.add(v)
            elif isinstance(v, str):
                strs.add(v)
    return ints, strs


def units(path):
    """{qualname: (hash, ints, strs)} for the functions/methods of one file plus '<module>' for the
    rest (class attributes, tables, top-level statements)."""
    src = open(path, encoding='utf-8').read()
    tree = _strip_doc(ast.parse(src))
    out = {}
    rest = []

    def visit(body, prefix):
        for n in body:
            if isinstance(n, (ast.FunctionDef, ast.AsyncFunctionDef)):
                q = prefix + n.name
                k = 2
                while q in out:          # redefinitions (inst_0x.. handlers are all distinct, but be safe)
                    q = '%s%s#%d' % (prefix, n.name, k)
                    k += 1
                i, s = _consts(n)
                out[q] = (hashlib.sha256(ast.dump(n).encode()).hexdigest()[:20], sorted(i), sorted(s))
            elif isinstance(n, ast.ClassDef):
                rest.append(ast.dump(ast.ClassDef(name=n.name, bases=n.bases, keywords=n.keywords,
                                                  body=[], decorator_list=n.decorator_list)))
                visit(n.body, prefix + n.name + '.')
            else:
                rest.append(ast.dump(n))
                i, s = _consts(n)
                e = out.setdefault(prefix + '<body>', ['', [], []])
                e[1] = sorted(set(e[1]) | i)
                e[2] = sorted(set(e[2]) | s)
    visit(tree.body, '')
    for q, e in out.items():
        if q.endswith('<body>'):
            e[0] = ''
    out['<module>'] = (hashlib.sha256('\n'.join(rest).encode()).hexdigest()[:20], [], [])
    return {q: tuple(e) for q, e in out.items()}


def scan(repo):
    root = os.path.join(repo, 'py65')
    res = {}
    for d, dirs, files in os.walk(root):
        dirs[:] = sorted(x for x in dirs if x not in ('tests', '__pycache__'))
        for f in sorted(files):
            if f.endswith('.py'):
                p = os.path.join(d, f)
                rel = os.path.relpath(p, repo)
                try:
                    res[rel] = {q: list(e) for q, e in units(p).items()}
                except SyntaxError as ex:
                    res[rel] = {'<syntax-error>': [str(ex), [], []]}
    return res


def changed(repo):
    """list of dict(file, unit, kind, new_ints, new_strs) for everything that differs from the pin"""
    try:
        pin = json.load(open(PIN))
    except Exception:
        return []
    if pin.pop('<python>', None) != list(sys.version_info[:2]):
        return []            # ast.dump is not stable across Python versions: no opinion, no extra effort
    cur = scan(repo)
    out = []
    for f in sorted(set(pin) | set(cur)):
        pu, cu = pin.get(f, {}), cur.get(f, {})
        for q in sorted(set(pu) | set(cu)):
            if q.endswith('<body>'):
                continue
            if q not in cu:
                out.append(dict(file=f, unit=q, kind='removed', new_ints=[], new_strs=[]))
            elif q not in pu:
                out.append(dict(file=f, unit=q, kind='added', new_ints=cu[q][1], new_strs=cu[q][2]))
            elif pu[q][0] != cu[q][0]:
                ni = sorted(set(cu[q][1]) - set(pu[q][1]))
                ns = sorted(set(cu[q][2]) - set(pu[q][2]))
                if q == '<module>':
                    for b in cu:
                        if b.endswith('<body>'):
                            ni = sorted(set(ni) | (set(cu[b][1]) - set(pu.get(b, ['', [], []])[1])))
                            ns = sorted(set(ns) | (set(cu[b][2]) - set(pu.get(b, ['', [], []])[2])))
                out.append(dict(file=f, unit=q, kind='changed', new_ints=ni, new_strs=ns))
    return out


if __name__ == '__main__':
    repo = os.environ.get('PY65_REPO', '/repo')
    if '--pin' in sys.argv:
        os.makedirs(os.path.dirname(PIN), exist_ok=True)
        with open(PIN, 'w') as fh:
            d = scan(repo)
            d['<python>'] = list(sys.version_info[:2])
            json.dump(d, fh, indent=0, sort_keys=True)
        print('pinned', PIN)
    else:
        ch = changed(repo)
        for c in ch:
            print('%(kind)-8s %(file)s %(unit)s ints=%(new_ints)s strs=%(new_strs)s' % c)
        print('%d unit(s) differ from the pinned tree' % len(ch))
