"""Spec-vs-real differential for the CPU properties: the failing-input search of DESIGN §2.7.

For each Case: run the real device (recording memory), then ask the Lean driver for the
specification's verdict on the same state (`spec` line, probing every address the real run
touched and every address the spec writes) and compare, aspect by aspect:

  sem   registers, flags modulo bits 4/5, PC, waiting, every probed cell      (C01 C02 C03 C06)
  cyc   cycle-counter delta per operation                                      (C13)
  acc   multiset of data accesses per operation, operand bytes at most once    (C12)
  raise the real device raised                                                 (C05)
"""
from collections import Counter

from common import RecMem, bg, device_classes, run_driver, widths


class RealObs(object):
    __slots__ = ('ops', 'raised', 'cells', 'touched')


def real_observe(case, classes, mpu=None):
    """Run the real device on `case`.  `mpu=None`: a fresh instance (the usual reading of "every
    machine state").  `mpu=<instance>`: a long-lived ("veteran") instance that has executed other
    cases before; only the architectural state, the cycle bookkeeping and the memory object are
    set, so anything else an earlier instruction left behind in the instance (a cache, a memo, a
    stale flag) takes part -- the programming model knows no such state, so the result must be
    the same."""
    W, AW = widths(case.dev)
    mem = RecMem(case.seed, W, case.ov)
    if mpu is None:
        mpu = classes[case.dev](memory=mem, pc=case.startpc)
    else:
        mpu.memory = mem
        mpu.start_pc = case.startpc
    mem.log = []
    mem.cells = dict(case.ov)
    mpu.a, mpu.x, mpu.y, mpu.sp, mpu.p, mpu.pc = case.a, case.x, case.y, case.sp, case.p, case.pc
    mpu.processorCycles = case.cycles
    mpu.excycles = case.excycles
    mpu.addcycles = case.addcycles
    if hasattr(mpu, 'waiting'):
        mpu.waiting = bool(case.waiting)
    o = RealObs()
    o.ops = []
    o.raised = None
    touched = []
    for op in case.ops:
        if op == 'step' and not getattr(mpu, 'waiting', False) and not (0 <= mem.peek(mpu.pc) <= 255):
            o.ops.append('oob')
            break
        c0 = mpu.processorCycles
        n0 = len(mem.log)
        try:
            getattr(mpu, op)()
        except Exception as ex:
            o.raised = '%s:%s' % (type(ex).__name__, ex)
            break
        seg = mem.log[n0:]
        o.ops.append(dict(a=mpu.a, x=mpu.x, y=mpu.y, sp=mpu.sp, p=mpu.p | 0x30, pc=mpu.pc,
                          waiting=1 if getattr(mpu, 'waiting', False) else 0,
                          dcyc=mpu.processorCycles - c0, log=seg, cyc=mpu.processorCycles))
    for ev in mem.log:
        touched.append(int(ev.split(':')[1]))
    o.touched = sorted(set(touched))
    o.cells = {a: mem.peek(a) for a in o.touched}
    o.cells['_mem'] = mem
    return o


def spec_line(case, obs):
    probes = ','.join(str(a) for a in obs.touched) or '-'
    return case.line('spec') + ' ' + probes


def parse_spec(reply):
    head, _, tail = reply.partition(' | ')
    ops = []
    for part in head.split(';'):
        if part == 'oob':
            ops.append('oob')
            continue
        f = part.split(' ')
        d = dict(a=int(f[0]), x=int(f[1]), y=int(f[2]), sp=int(f[3]), p=int(f[4]), pc=int(f[5]),
                 waiting=int(f[6]), dcyc=int(f[7]))
        acc = f[8][len('acc='):]
        opn = f[9][len('opn='):]
        d['acc'] = [a for a in acc.split(',') if a]
        d['opn'] = [int(a) for a in opn.split(',') if a]
        d['mn'] = f[10][len('mn='):] if len(f) > 10 else '-' 
        ops.append(d)
    cells = {}
    if tail:
        for kv in tail.split(','):
            k, v = kv.split(':')
            cells[int(k)] = int(v)
    return ops, cells


def compare(case, obs, reply):
    """Return list of (aspect, detail) discrepancies; [] when the real device did exactly what
    the specification prescribes.  Also returns flags used for exclusions."""
    out = []
    info = dict(self_overwrite=False, decimal_stop=False)
    if obs.raised:
        out.append(('raise', obs.raised))
        return out, info
    sops, scells = parse_spec(reply)
    W, AW = widths(case.dev)
    am = (1 << AW) - 1
    pc = case.pc
    mem = obs.cells['_mem']
    for i, (op, r) in enumerate(zip(case.ops, obs.ops)):
        if i >= len(sops):
            out.append(('sem', 'spec produced fewer operations'))
            break
        s = sops[i]
        if r == 'oob' or s == 'oob':
            if r != s:
                out.append(('sem', 'op %d: oob mismatch' % i))
            break
        # histories stop at the first ADC/SBC executed in decimal mode (that is C04's subject;
        # the Spec used here is binary-only, and the 65Org16 does not support decimal mode)
        pre_p = case.p if i == 0 else obs.ops[i - 1]['p']
        dec_op = op == 'step' and s['mn'][:3] in ('ADC', 'SBC') and bool(pre_p & 8)
        # self-overwrite exclusion (C01/C02/C09): the instruction writes its own bytes
        if op == 'step':
            own = set([pc] + s['opn'])
            wr = set(int(a.split(':')[1]) for a in s['acc'] if a.startswith('w:'))
            wr |= set(int(e.split(':')[1]) for e in r['log'] if e.startswith('w:'))
            if own & wr:
                info['self_overwrite'] = True
                return out, info
        for k in ('a', 'x', 'y', 'sp', 'p', 'pc'):
            if dec_op and k in ('a', 'p'):
                continue
            if r[k] != s[k]:
                out.append(('sem', 'op %d (%s): %s real=%d spec=%d' % (i, op, k, r[k], s[k])))
        if r['waiting'] != s['waiting']:
            out.append(('wait', 'op %d (%s): waiting real=%d spec=%d' % (i, op, r['waiting'], s['waiting'])))
        if op == 'reset':
            if r.get('cyc', 0) != 0:        # reset() zeroes the counter (whatever it was before)
                out.append(('cyc', 'op %d (reset): cycle counter is %d after reset(), must be 0' % (i, r['cyc'])))
        elif r['dcyc'] != s['dcyc']:
            out.append(('cyc', 'op %d (%s): cycles real=%+d spec=%+d%s' % (
                i, op, r['dcyc'], s['dcyc'], (' executing mn=%s' % s['mn']) if op == 'step' and i > 0 else '')))
        # accesses
        real_ms = Counter()
        for e in r['log']:
            f = e.split(':')
            real_ms['%s:%s' % (f[0], f[1])] += 1
        need = Counter(s['acc'])
        if op == 'step' and not (case.waiting and i == 0) and not _was_waiting(obs, i, case):
            need['r:%d' % pc] += 1
        extra = real_ms - need
        missing = need - real_ms
        allowed = Counter('r:%d' % a for a in s['opn'])
        over = extra - allowed
        if missing or over:
            out.append(('acc', 'op %d (%s): accesses real=%s spec=%s(+operands %s)'
                        % (i, op, ' '.join(r['log']), ' '.join(sorted(need.elements())),
                           s['opn'])))
        pc = r['pc']
        if dec_op:
            info['decimal_stop'] = True
            break
    # memory (not after a decimal-mode stop: the binary-only Spec has diverged from there on)
    if info['decimal_stop']:
        return out, info
    for a, v in scells.items():
        rv = mem.peek(a)
        if rv != v:
            out.append(('sem', 'cell %d real=%d spec=%d' % (a, rv, v)))
    return out, info


def _was_waiting(obs, i, case):
    if i == 0:
        return bool(case.waiting)
    prev = obs.ops[i - 1]
    return isinstance(prev, dict) and prev['waiting'] == 1


def run_cases(cases, classes=None):
    classes = classes or device_classes()
    obs = [real_observe(c, classes) for c in cases]
    replies = run_driver([spec_line(c, o) for c, o in zip(cases, obs)])
    res = []
    for c, o, rp in zip(cases, obs, replies):
        d, info = compare(c, o, rp)
        res.append((c, d, info, rp))
    return res
