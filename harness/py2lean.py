#!/usr/bin/env python3
"""py2lean -- translate the py65 device classes (Python source + live class tables) to Lean 4.

Tie 1 of DESIGN.md §2.4.  Run with PYTHONPATH=<repo>.  Emits, into --out:

  Mpu6502.lean  Mpu65c02.lean  Mpu65org16.lean   one `def` per Python method reachable from
                                                 step/reset/irq/nmi or from an `instruct` slot
  Devices.lean                                   per device: Cfg (live instance), the four class
                                                 tables (live class), Tbl, entry points, `rfl` lemmas

Translation scheme: explicit state passing.  A method `f(self, a, b)` becomes
`def f (c : Cfg) [(t : Tbl)] (a b) (s0 : St) : St` (or `Int × St` when it returns a value).
Every Python statement becomes one or a few `let`s; an `if` becomes an `if` *expression*
yielding the tuple of the variables assigned in its arms plus the state (SSA phi-tuple).

Anything outside the accepted subset raises Unsupported -> exit code 3 and a JSON report; the
caller treats that as a broken tie, never as a silent approximation.
"""
import ast
import hashlib
import importlib
import inspect
import json
import os
import sys
import textwrap

STATE_ATTRS = {
    'a': ('a', 'Int'), 'x': ('x', 'Int'), 'y': ('y', 'Int'), 'sp': ('sp', 'Int'),
    'p': ('p', 'Int'), 'pc': ('pc', 'Int'), 'excycles': ('excycles', 'Int'),
    'addcycles': ('addcycles', 'Int'), 'processorCycles': ('cycles', 'Int'),
    'waiting': ('waiting', 'Bool'),
}
CFG_INT = ['byteMask', 'addrMask', 'addrHighMask', 'spBase', 'RESET', 'NMI', 'IRQ',
           'NEGATIVE', 'OVERFLOW', 'UNUSED', 'BREAK', 'DECIMAL', 'INTERRUPT', 'ZERO', 'CARRY']
CFG_NAT = ['BYTE_WIDTH', 'ADDR_WIDTH']
TABLES = {'instruct', 'cycletime', 'extracycles'}
ENTRY = ['step', 'reset', 'irq', 'nmi']

DEVICES = [
    ('Mpu6502', 'py65.devices.mpu6502', 'dev6502'),
    ('Mpu65c02', 'py65.devices.mpu65c02', 'dev65c02'),
    ('Mpu65org16', 'py65.devices.mpu65org16', 'dev65org16'),
]
MODNS = {m: ns for ns, m, _ in DEVICES}


class Unsupported(Exception):
    def __init__(self, msg, node=None, func=None):
        self.msg, self.node, self.func = msg, node, func
        Exception.__init__(self, msg)


def lit(n):
    return str(n) if n >= 0 else '(%d)' % n


# ---------------------------------------------------------------------------------------
# function universe
# ---------------------------------------------------------------------------------------

class FuncInfo:
    def __init__(self, fobj):
        self.fobj = fobj
        self.mod = fobj.__module__
        if self.mod not in MODNS:
            raise Unsupported('function %s defined outside the device modules (%s)'
                              % (fobj.__qualname__, self.mod))
        self.ns = MODNS[self.mod]
        self.name = fobj.__name__
        src = textwrap.dedent(inspect.getsource(fobj))
        tree = ast.parse(src)
        fd = tree.body[0]
        if not isinstance(fd, ast.FunctionDef):
            raise Unsupported('not a plain function: %s' % fobj.__qualname__)
        self.fd = fd
        self.src = src
        a = fd.args
        if a.vararg or a.kwarg or a.kwonlyargs or a.defaults or a.posonlyargs:
            raise Unsupported('unsupported signature', fd, self)
        names = [x.arg for x in a.args]
        if not names or names[0] != 'self':
            raise Unsupported('first parameter must be self', fd, self)
        self.params = names[1:]
        # parameter kinds
        self.kind = {}
        for p in self.params:
            self.kind[p] = 'int'
        for n in ast.walk(fd):
            if isinstance(n, ast.Call) and isinstance(n.func, ast.Name) and n.func.id in self.kind:
                if n.args or n.keywords:
                    raise Unsupported('call of a parameter with arguments', n, self)
                if self.kind[n.func.id] == 'int':
                    self.kind[n.func.id] = 'thunk'
        for n in ast.walk(fd):
            if isinstance(n, ast.Compare) and isinstance(n.left, ast.Name) and n.left.id in self.kind \
                    and len(n.ops) == 1 and isinstance(n.ops[0], (ast.Is, ast.IsNot)) \
                    and isinstance(n.comparators[0], ast.Constant) and n.comparators[0].value is None:
                self.kind[n.left.id] = 'optthunk'
        # value-returning?
        self.returns_value = any(isinstance(n, ast.Return) and n.value is not None
                                 for n in ast.walk(fd))
        if self.name in ('step',):
            # `return self` (chaining convenience) is not a value
            rets = [n for n in ast.walk(fd) if isinstance(n, ast.Return) and n.value is not None]
            if all(isinstance(r.value, ast.Name) and r.value.id == 'self' for r in rets):
                self.returns_value = False
        self.callees = {}      # attribute name -> FuncInfo (resolved per device, checked consistent)
        self.uses_tbl = False  # filled by fixpoint
        self.uses_startpc = any(isinstance(n, ast.Attribute) and n.attr == 'start_pc'
                                for n in ast.walk(fd))

    @property
    def lean(self):
        return 'Py65.Gen.%s.%s' % (self.ns, self.name)


class Universe:
    def __init__(self):
        self.funcs = {}    # id(fobj) -> FuncInfo
        self.order = []    # emission order (post-order)
        self.classes = {}
        self.insts = {}

    def get(self, fobj):
        fobj = getattr(fobj, '__func__', fobj)
        if not inspect.isfunction(fobj):
            raise Unsupported('not a Python function: %r' % (fobj,))
        k = id(fobj)
        if k not in self.funcs:
            self.funcs[k] = FuncInfo(fobj)
        return self.funcs[k]

    def resolve_all(self):
        """For every device, walk from the entry points and the 256 table slots; resolve every
        `self.NAME` that denotes a method through that device's class; require that a function
        shared between devices resolves each callee identically under all of them."""
        for ns, modname, dev in DEVICES:
            cls = self.classes[ns]
            seen = set()
            work = [self.get(getattr(cls, e)) for e in ENTRY]
            work += [self.get(f) for f in cls.instruct]
            while work:
                fi = work.pop()
                if id(fi) in seen:
                    continue
                seen.add(id(fi))
                glob = fi.fobj.__globals__
                for n in ast.walk(fi.fd):
                    target = None
                    key = None
                    if isinstance(n, ast.Attribute) and isinstance(n.value, ast.Name) \
                            and n.value.id == 'self':
                        if n.attr in STATE_ATTRS or n.attr in CFG_INT or n.attr in CFG_NAT \
                                or n.attr in TABLES or n.attr in ('memory', 'start_pc'):
                            continue
                        obj = getattr(cls, n.attr, None)
                        if obj is None or not inspect.isfunction(obj):
                            raise Unsupported('self.%s is neither state, configuration, table '
                                              'nor method' % n.attr, n, fi)
                        target, key = obj, n.attr
                    elif isinstance(n, ast.Attribute) and is_class_path(n, glob):
                        target, key = eval(ast.unparse(n), glob), ast.unparse(n)
                    if target is not None:
                        tfi = self.get(target)
                        prev = fi.callees.get(key)
                        if prev is not None and prev is not tfi:
                            raise Unsupported(
                                'method %s called from %s resolves differently on different '
                                'devices (overridden helper) -- not supported' % (key, fi.lean), n, fi)
                        fi.callees[key] = tfi
                        work.append(tfi)
        # table use fixpoint
        changed = True
        for fi in self.funcs.values():
            fi.uses_tbl = any(isinstance(n, ast.Attribute) and isinstance(n.value, ast.Name)
                              and n.value.id == 'self' and n.attr in TABLES
                              for n in ast.walk(fi.fd))
        while changed:
            changed = False
            for fi in self.funcs.values():
                if not fi.uses_tbl and any(c.uses_tbl for c in fi.callees.values()):
                    fi.uses_tbl = True
                    changed = True
                if not fi.uses_startpc and any(c.uses_startpc for c in fi.callees.values()):
                    fi.uses_startpc = True
                    changed = True
        # topological order
        state = {}

        def visit(fi, stack):
            s = state.get(id(fi))
            if s == 2:
                return
            if s == 1:
                raise Unsupported('recursion through %s' % fi.lean)
            state[id(fi)] = 1
            for c in sorted(fi.callees.values(), key=lambda z: z.lean):
                visit(c, stack + [fi])
            state[id(fi)] = 2
            self.order.append(fi)
        for fi in sorted(self.funcs.values(), key=lambda z: (z.ns != 'Mpu6502', z.ns, z.fd.lineno)):
            visit(fi, [])


def is_class_path(n, glob):
    """`mpu6502.MPU.step` style explicit parent reference."""
    try:
        txt = ast.unparse(n)
    except Exception:
        return False
    parts = txt.split('.')
    if len(parts) != 3 or parts[0] == 'self' or parts[0] not in glob:
        return False
    try:
        obj = eval(txt, glob)
    except Exception:
        return False
    return inspect.isfunction(obj)


# ---------------------------------------------------------------------------------------
# code generation for one function (one specialisation)
# ---------------------------------------------------------------------------------------

class Gen:
    def __init__(self, fi, spec):
        """spec: dict param -> 'none' | 'some' for optthunk params; plus 'start_pc' -> none/some"""
        self.fi = fi
        self.spec = spec
        self.n = 0
        self.lambdas = {}

    def fresh(self, base):
        self.n += 1
        return '%s_%d' % (base, self.n)

    def err(self, msg, node):
        raise Unsupported(msg + ' in %s: `%s`' % (self.fi.lean, safe_unparse(node)), node, self.fi)

    # env = dict(st=<state var>, loc={py name: lean var}, pcnone=bool)

    def lean_name(self):
        nm = self.fi.name
        for p in self.fi.params:
            if self.fi.kind[p] == 'optthunk':
                nm += '_acc' if self.spec[p] == 'none' else '_mem'
        if self.fi.uses_startpc:
            nm += '_vec' if self.spec['start_pc'] == 'none' else '_at'
        return nm

    def emit(self):
        fi = self.fi
        params = ['(c : Cfg)']
        if fi.uses_tbl:
            params.append('(t : Tbl)')
        env = dict(st='s0', loc={}, pcnone=False)
        for p in fi.params:
            k = fi.kind[p]
            if k == 'int':
                params.append('(%s : Int)' % p)
                env['loc'][p] = p
            elif k == 'thunk' or (k == 'optthunk' and self.spec[p] == 'some'):
                params.append('(%s : St → Int × St)' % p)
                env['loc'][p] = p
        if fi.uses_startpc and self.spec['start_pc'] == 'some':
            params.append('(start_pc : Int)')
        ret = 'Int × St' if fi.returns_value else 'St'
        body = self.block(fi.fd.body, env, tail=True, indent=1)
        hdr = 'def %s %s (s0 : St) : %s :=\n' % (self.lean_name(), ' '.join(params), ret)
        return hdr + body + '\n'

    # -- blocks ---------------------------------------------------------------------------

    def block(self, stmts, env, tail, indent, phi=None):
        """Returns Lean text of an expression.  tail=True: the block ends the function (value of
        the expression is the function result).  Otherwise phi is the ordered list of python
        locals to export; value = tuple (locals..., state)."""
        pad = '  ' * indent
        out = []
        env = dict(st=env['st'], loc=dict(env['loc']), pcnone=env['pcnone'])
        i = 0
        while i < len(stmts):
            s = stmts[i]
            rest = stmts[i + 1:]
            if isinstance(s, ast.Expr) and isinstance(s.value, ast.Constant) \
                    and isinstance(s.value.value, str):
                i += 1
                continue  # docstring
            if isinstance(s, ast.Pass):
                i += 1
                continue
            if isinstance(s, ast.Return):
                if not tail:
                    self.err('return inside a non-tail block', s)
                if s.value is None or (isinstance(s.value, ast.Name) and s.value.id == 'self'
                                       and not self.fi.returns_value):
                    if self.fi.returns_value:
                        self.err('bare return in a value-returning function', s)
                    out.append(pad + env['st'])
                else:
                    v, ty = self.expr(s.value, env, out, pad)
                    if ty != 'Int':
                        self.err('non-integer return value', s)
                    out.append(pad + '(%s, %s)' % (v, env['st']))
                return '\n'.join(out)
            if isinstance(s, ast.If):
                static = self.static_test(s.test, env)
                if static is not None:
                    chosen = s.body if static else s.orelse
                    stmts = stmts[:i] + list(chosen) + rest
                    continue
                arms_return = contains_return(s.body) or contains_return(s.orelse)
                if arms_return or (tail and not rest):
                    if not tail:
                        self.err('return inside a non-tail if', s)
                    # the rest of the block is executed by every arm that does not return
                    cond = self.cond(s.test, env, out, pad)
                    a1 = self.block(list(s.body) + ([] if always_returns(s.body) else rest),
                                    env, True, indent + 1)
                    a2 = self.block(list(s.orelse) + ([] if always_returns(s.orelse) else rest),
                                    env, True, indent + 1)
                    out.append(pad + 'if %s then\n%s\n%selse\n%s' % (cond, a1, pad, a2))
                    return '\n'.join(out)
                # phi join
                cond = self.cond(s.test, env, out, pad)
                assigned = []
                for nm in assigned_locals(s.body) + assigned_locals(s.orelse):
                    if nm not in assigned:
                        assigned.append(nm)
                for nm in assigned:
                    in1 = nm in definitely_assigned(s.body)
                    in2 = nm in definitely_assigned(s.orelse)
                    if not (in1 and in2) and nm not in env['loc']:
                        self.err('local %r may be unbound after this if' % nm, s)
                a1 = self.block(s.body, env, False, indent + 1, phi=assigned)
                a2 = self.block(s.orelse, env, False, indent + 1, phi=assigned)
                ph = self.fresh('φ')
                out.append(pad + 'let %s := if %s then\n%s\n%selse\n%s'
                           % (ph, cond, a1, pad + '  ', a2))
                comps = assigned + ['$st']
                for j, nm in enumerate(comps):
                    if len(comps) == 1:
                        proj = ph
                    elif j < len(comps) - 1:
                        proj = ph + '.2' * j + '.1'
                    else:
                        proj = ph + '.2' * j
                    if nm == '$st':
                        ns_ = self.fresh('s')
                        out.append(pad + 'let %s : St := %s' % (ns_, proj))
                        env['st'] = ns_
                    else:
                        v = self.fresh(nm)
                        out.append(pad + 'let %s := %s' % (v, proj))
                        env['loc'][nm] = v
                i += 1
                continue
            self.stmt(s, env, out, pad)
            i += 1
        # fell off the end
        if tail:
            if self.fi.returns_value:
                raise Unsupported('function %s may fall off its end without a value' % self.fi.lean)
            out.append(pad + env['st'])
        else:
            comps = [env['loc'][nm] for nm in phi] + [env['st']]
            out.append(pad + (comps[0] if len(comps) == 1 else '(' + ', '.join(comps) + ')'))
        return '\n'.join(out)

    def static_test(self, test, env):
        """`x is None` on an optional-thunk parameter; `self.pc is None` right after
        `self.pc = self.start_pc` -- resolved per specialisation."""
        if isinstance(test, ast.Compare) and len(test.ops) == 1 \
                and isinstance(test.ops[0], (ast.Is, ast.IsNot)) \
                and isinstance(test.comparators[0], ast.Constant) \
                and test.comparators[0].value is None:
            neg = isinstance(test.ops[0], ast.IsNot)
            l = test.left
            if isinstance(l, ast.Name) and self.fi.kind.get(l.id) == 'optthunk':
                r = self.spec[l.id] == 'none'
                return (not r) if neg else r
            if isinstance(l, ast.Attribute) and isinstance(l.value, ast.Name) \
                    and l.value.id == 'self' and l.attr == 'pc' and self.fi.uses_startpc:
                r = env['pcnone']
                return (not r) if neg else r
            self.err('unsupported `is None` test', test)
        return None

    def cond(self, test, env, out, pad):
        v, ty = self.expr(test, env, out, pad)
        if ty == 'Bool':
            return v
        return '%s ≠ 0' % v

    # -- statements -----------------------------------------------------------------------

    def set_state(self, env, out, pad, field, val):
        ns_ = self.fresh('s')
        out.append(pad + 'let %s : St := { %s with %s := %s }' % (ns_, env['st'], field, val))
        env['st'] = ns_

    def stmt(self, s, env, out, pad):
        if isinstance(s, ast.Assign):
            if len(s.targets) != 1:
                self.err('multiple assignment targets', s)
            t = s.targets[0]
            # lambda bound to a local: inline macro
            if isinstance(t, ast.Name) and isinstance(s.value, ast.Lambda):
                lam = s.value
                a = lam.args
                if a.vararg or a.kwarg or a.kwonlyargs or a.defaults or len(a.args) != 1:
                    self.err('unsupported lambda', s)
                self.lambdas[t.id] = lam
                return
            # self.pc = self.start_pc
            if is_self_attr(t, 'pc') and is_self_attr(s.value, 'start_pc'):
                if self.spec['start_pc'] == 'none':
                    env['pcnone'] = True
                else:
                    self.set_state(env, out, pad, 'pc', 'start_pc')
                    env['pcnone'] = False
                return
            self.assign(t, s.value, None, env, out, pad, s)
            return
        if isinstance(s, ast.AugAssign):
            self.assign(s.target, s.value, s.op, env, out, pad, s)
            return
        if isinstance(s, ast.Expr):
            if not isinstance(s.value, ast.Call):
                self.err('expression statement that is not a call', s)
            v, ty = self.expr(s.value, env, out, pad, want_value=False)
            return
        self.err('unsupported statement %s' % type(s).__name__, s)

    def assign(self, t, value, op, env, out, pad, node):
        # target kinds: self.<state attr>, local name, self.memory[e]
        if isinstance(t, ast.Attribute) and isinstance(t.value, ast.Name) and t.value.id == 'self':
            if t.attr not in STATE_ATTRS:
                self.err('assignment to self.%s (not a state register)' % t.attr, node)
            field, fty = STATE_ATTRS[t.attr]
            if t.attr == 'pc':
                if env['pcnone'] and op is not None:
                    self.err('arithmetic on a None pc', node)
            if op is None:
                v, ty = self.expr(value, env, out, pad)
                v = self.coerce(v, ty, fty, node)
            else:
                old = '%s.%s' % (env['st'], field)   # load target first (Python order)
                if fty != 'Int':
                    self.err('augmented assignment to a boolean attribute', node)
                v, ty = self.expr(value, env, out, pad)
                if ty != 'Int':
                    self.err('non-integer operand', node)
                v = self.binop(op, old, v, value, env, node)
            self.set_state(env, out, pad, field, v)
            if t.attr == 'pc':
                env['pcnone'] = False
            return
        if isinstance(t, ast.Name):
            if t.id in self.fi.kind and self.fi.kind[t.id] != 'int':
                self.err('assignment to a function-valued parameter', node)
            if op is None:
                v, ty = self.expr(value, env, out, pad)
            else:
                if t.id not in env['loc']:
                    self.err('augmented assignment to unbound local', node)
                old = env['loc'][t.id]
                v, ty = self.expr(value, env, out, pad)
                v = self.binop(op, old, v, value, env, node)
            if ty != 'Int':
                self.err('non-integer local', node)
            nv = self.fresh(t.id)
            out.append(pad + 'let %s : Int := %s' % (nv, v))
            env['loc'][t.id] = nv
            return
        if isinstance(t, ast.Subscript) and is_self_attr(t.value, 'memory'):
            idx = subscript_index(t)
            if idx is None:
                self.err('unsupported memory subscript (slice?)', node)
            a, aty = self.expr(idx, env, out, pad)
            if aty != 'Int':
                self.err('non-integer address', node)
            av = self.fresh('addr')
            out.append(pad + 'let %s : Int := %s' % (av, a))
            if op is None:
                v, ty = self.expr(value, env, out, pad)
            else:
                # memory[a] op= v : getitem, evaluate v, op, setitem
                r = self.fresh('r')
                out.append(pad + 'let %s := memGet %s %s' % (r, av, env['st']))
                ns_ = self.fresh('s')
                out.append(pad + 'let %s : St := %s.2' % (ns_, r))
                env['st'] = ns_
                v, ty = self.expr(value, env, out, pad)
                v = self.binop(op, '%s.1' % r, v, value, env, node)
            if ty != 'Int':
                self.err('non-integer stored value', node)
            ns_ = self.fresh('s')
            out.append(pad + 'let %s : St := memSet %s (%s) %s' % (ns_, av, v, env['st']))
            env['st'] = ns_
            return
        self.err('unsupported assignment target', node)

    def coerce(self, v, ty, want, node):
        if ty == want:
            return v
        if ty == 'Bool' and want == 'Int':
            return '(if %s then 1 else 0)' % v
        self.err('type mismatch (%s where %s expected)' % (ty, want), node)

    # -- expressions ----------------------------------------------------------------------

    def binop(self, op, l, r, rnode, env, node):
        if isinstance(op, ast.Add):
            return '(%s + %s)' % (l, r)
        if isinstance(op, ast.Sub):
            return '(%s - %s)' % (l, r)
        if isinstance(op, ast.BitAnd):
            return '(Py.land %s %s)' % (l, r)
        if isinstance(op, ast.BitOr):
            return '(Py.lor %s %s)' % (l, r)
        if isinstance(op, ast.BitXor):
            return '(Py.lxor %s %s)' % (l, r)
        if isinstance(op, (ast.LShift, ast.RShift)):
            fn = 'Py.shl' if isinstance(op, ast.LShift) else 'Py.shr'
            if isinstance(rnode, ast.Constant) and isinstance(rnode.value, int) \
                    and not isinstance(rnode.value, bool) and rnode.value >= 0:
                return '(%s %s %d)' % (fn, l, rnode.value)
            if is_self_attr(rnode, 'BYTE_WIDTH') or is_self_attr(rnode, 'ADDR_WIDTH'):
                return '(%s %s c.%s)' % (fn, l, rnode.attr)
            self.err('shift by a non-literal count', node)
        self.err('unsupported operator %s' % type(op).__name__, node)

    def expr(self, e, env, out, pad, want_value=True):
        """Returns (lean term, type).  Effects are emitted as lets into `out`, threading env['st']."""
        if isinstance(e, ast.Constant):
            if isinstance(e.value, bool):
                return ('true' if e.value else 'false'), 'Bool'
            if isinstance(e.value, int):
                return lit(e.value), 'Int'
            self.err('unsupported constant', e)
        if isinstance(e, ast.Name):
            if e.id in self.lambdas:
                self.err('lambda used as a value', e)
            if e.id in self.fi.kind and self.fi.kind[e.id] != 'int':
                self.err('function-valued parameter used as a value', e)
            if e.id in env['loc']:
                return env['loc'][e.id], 'Int'
            self.err('unbound name %r' % e.id, e)
        if isinstance(e, ast.Attribute):
            if isinstance(e.value, ast.Name) and e.value.id == 'self':
                if e.attr in STATE_ATTRS:
                    if e.attr == 'pc' and env['pcnone']:
                        self.err('read of a None pc', e)
                    f, ty = STATE_ATTRS[e.attr]
                    return '%s.%s' % (env['st'], f), ty
                if e.attr in CFG_INT:
                    return 'c.%s' % e.attr, 'Int'
                if e.attr in CFG_NAT:
                    return '(c.%s : Int)' % e.attr, 'Int'
            self.err('unsupported attribute', e)
        if isinstance(e, ast.UnaryOp):
            if isinstance(e.op, ast.Invert):
                v, ty = self.expr(e.operand, env, out, pad)
                if ty != 'Int':
                    self.err('~ on non-integer', e)
                return '(Py.lnot %s)' % v, 'Int'
            if isinstance(e.op, ast.USub) and isinstance(e.operand, ast.Constant) \
                    and isinstance(e.operand.value, int):
                return lit(-e.operand.value), 'Int'
            self.err('unsupported unary operator', e)
        if isinstance(e, ast.BinOp):
            l, lt = self.expr(e.left, env, out, pad)
            r, rt = self.expr(e.right, env, out, pad)
            if lt != 'Int' or rt != 'Int':
                self.err('non-integer operand', e)
            return self.binop(e.op, l, r, e.right, env, e), 'Int'
        if isinstance(e, ast.Compare):
            if len(e.ops) != 1:
                self.err('chained comparison', e)
            l, lt = self.expr(e.left, env, out, pad)
            r, rt = self.expr(e.comparators[0], env, out, pad)
            if lt != 'Int' or rt != 'Int':
                self.err('comparison of non-integers', e)
            op = e.ops[0]
            sym = {ast.Eq: '=', ast.NotEq: '≠', ast.Gt: '>', ast.GtE: '≥', ast.Lt: '<',
                   ast.LtE: '≤'}.get(type(op))
            if sym is None:
                self.err('unsupported comparison', e)
            return '(%s %s %s)' % (l, sym, r), 'Bool'
        if isinstance(e, ast.Subscript):
            if is_self_attr(e.value, 'memory'):
                idx = subscript_index(e)
                if idx is None:
                    self.err('unsupported memory subscript', e)
                a, aty = self.expr(idx, env, out, pad)
                if aty != 'Int':
                    self.err('non-integer address', e)
                return self.effect('memGet (%s)' % a, True, env, out, pad), 'Int'
            if isinstance(e.value, ast.Attribute) and isinstance(e.value.value, ast.Name) \
                    and e.value.value.id == 'self' and e.value.attr in ('cycletime', 'extracycles'):
                idx = subscript_index(e)
                a, aty = self.expr(idx, env, out, pad)
                if aty != 'Int':
                    self.err('non-integer table index', e)
                return '(t.%s %s)' % (e.value.attr, a), 'Int'
            self.err('unsupported subscript', e)
        if isinstance(e, ast.Call):
            return self.call(e, env, out, pad, want_value)
        self.err('unsupported expression %s' % type(e).__name__, e)

    def effect(self, app, returns_value, env, out, pad):
        """Emit `let r := app st` and thread the state; return the value term (or None)."""
        if returns_value:
            r = self.fresh('r')
            out.append(pad + 'let %s := %s %s' % (r, app, env['st']))
            ns_ = self.fresh('s')
            out.append(pad + 'let %s : St := %s.2' % (ns_, r))
            env['st'] = ns_
            return '%s.1' % r
        ns_ = self.fresh('s')
        out.append(pad + 'let %s : St := %s %s' % (ns_, app, env['st']))
        env['st'] = ns_
        return None

    def call(self, e, env, out, pad, want_value):
        if e.keywords:
            self.err('keyword arguments', e)
        f = e.func
        # parameter thunk  x()
        if isinstance(f, ast.Name):
            if f.id in self.lambdas:
                lam = self.lambdas[f.id]
                if len(e.args) != 1:
                    self.err('lambda arity', e)
                a, aty = self.expr(e.args[0], env, out, pad)
                pv = self.fresh(lam.args.args[0].arg)
                out.append(pad + 'let %s : Int := %s' % (pv, a))
                env2 = dict(st=env['st'], loc=dict(env['loc']), pcnone=env['pcnone'])
                env2['loc'][lam.args.args[0].arg] = pv
                n_before = len(out)
                st_before = env2['st']
                v, ty = self.expr(lam.body, env2, out, pad)
                if env2['st'] != st_before:
                    env['st'] = env2['st']
                return v, ty
            k = self.fi.kind.get(f.id)
            if k == 'thunk' or (k == 'optthunk' and self.spec[f.id] == 'some'):
                if e.args:
                    self.err('thunk called with arguments', e)
                return self.effect(f.id, True, env, out, pad), 'Int'
            self.err('call of an unsupported name', e)
        # self.instruct[code](self)
        if isinstance(f, ast.Subscript) and is_self_attr(f.value, 'instruct'):
            if len(e.args) != 1 or not (isinstance(e.args[0], ast.Name) and e.args[0].id == 'self'):
                self.err('table call must pass self', e)
            idx = subscript_index(f)
            a, aty = self.expr(idx, env, out, pad)
            self.effect('t.instruct %s' % a, False, env, out, pad)
            return None, 'Unit'
        # self.method(args)  or  module.Class.method(self, args)
        tfi = None
        args = list(e.args)
        if isinstance(f, ast.Attribute) and isinstance(f.value, ast.Name) and f.value.id == 'self':
            tfi = self.fi.callees.get(f.attr)
            if tfi is None:
                self.err('call of unknown method self.%s' % f.attr, e)
        elif isinstance(f, ast.Attribute):
            key = safe_unparse(f)
            tfi = self.fi.callees.get(key)
            if tfi is None:
                self.err('unsupported call target', e)
            if not args or not (isinstance(args[0], ast.Name) and args[0].id == 'self'):
                self.err('explicit class call must pass self first', e)
            args = args[1:]
        else:
            self.err('unsupported call target', e)
        if len(args) != len(tfi.params):
            self.err('arity mismatch calling %s' % tfi.lean, e)
        nm = tfi.name
        largs = []
        for p, a in zip(tfi.params, args):
            k = tfi.kind[p]
            if k == 'int':
                v, ty = self.expr(a, env, out, pad)
                if ty != 'Int':
                    self.err('non-integer argument', e)
                largs.append(atom(v))
            else:
                if isinstance(a, ast.Constant) and a.value is None:
                    if k != 'optthunk':
                        self.err('None passed where a method is required', e)
                    nm += '_acc'
                    continue
                if not (isinstance(a, ast.Attribute) and isinstance(a.value, ast.Name)
                        and a.value.id == 'self'):
                    self.err('function argument must be a bound method self.NAME', e)
                afi = self.fi.callees.get(a.attr)
                if afi is None or afi.params or not afi.returns_value:
                    self.err('function argument must be a parameterless value-returning method', e)
                if k == 'optthunk':
                    nm += '_mem'
                largs.append('(%s c%s)' % (afi.lean, ' t' if afi.uses_tbl else ''))
        if tfi.uses_startpc:
            # the callee is specialised on `self.start_pc is None`; so is the caller
            if self.spec.get('start_pc') == 'none':
                nm += '_vec'
            else:
                nm += '_at'
                largs.append('start_pc')
        app = 'Py65.Gen.%s.%s c%s%s' % (tfi.ns, nm, ' t' if tfi.uses_tbl else '',
                                        ''.join(' ' + a for a in largs))
        if tfi.returns_value:
            return self.effect(app, True, env, out, pad), 'Int'
        self.effect(app, False, env, out, pad)
        if want_value:
            self.err('value of a procedure used', e)
        return None, 'Unit'


def atom(v):
    if v.startswith('(') or v.replace('_', '').replace('.', '').isalnum():
        return v
    return '(%s)' % v


def safe_unparse(n):
    try:
        return ast.unparse(n)
    except Exception:
        return '<%s>' % type(n).__name__


def is_self_attr(n, attr):
    return isinstance(n, ast.Attribute) and isinstance(n.value, ast.Name) \
        and n.value.id == 'self' and n.attr == attr


def subscript_index(n):
    idx = n.slice
    if isinstance(idx, ast.Slice) or isinstance(idx, ast.Tuple):
        return None
    return idx


def contains_return(stmts):
    return any(isinstance(n, ast.Return) for s in stmts for n in ast.walk(s))


def always_returns(stmts):
    for s in stmts:
        if isinstance(s, ast.Return):
            return True
        if isinstance(s, ast.If) and s.orelse and always_returns(s.body) and always_returns(s.orelse):
            return True
    return False


def assigned_locals(stmts):
    out = []
    for s in stmts:
        for n in ast.walk(s):
            t = None
            if isinstance(n, ast.Assign):
                t = n.targets[0]
                if isinstance(n.value, ast.Lambda):
                    continue
            elif isinstance(n, ast.AugAssign):
                t = n.target
            if isinstance(t, ast.Name) and t.id not in out:
                out.append(t.id)
    return out


def definitely_assigned(stmts):
    out = set()
    for s in stmts:
        if isinstance(s, ast.Assign) and isinstance(s.targets[0], ast.Name):
            out.add(s.targets[0].id)
        elif isinstance(s, ast.AugAssign) and isinstance(s.target, ast.Name):
            out.add(s.target.id)
        elif isinstance(s, ast.If):
            out |= (definitely_assigned(s.body) & definitely_assigned(s.orelse))
    return out


# ---------------------------------------------------------------------------------------
# static checks that are properties in themselves (C11, C14)
# ---------------------------------------------------------------------------------------

def check_no_class_state_writes(uni):
    """No translated function writes a table, a class attribute or a module global, and
    self.memory is only ever indexed.  (Assignments to non-state attributes are already refused
    by Gen.assign; here: Global/Nonlocal/Delete/loops/try and bare uses of self.memory.)"""
    banned = (ast.Global, ast.Nonlocal, ast.Delete, ast.For, ast.While, ast.Try, ast.With,
              ast.Raise, ast.Import, ast.ImportFrom, ast.ClassDef, ast.Yield, ast.YieldFrom,
              ast.Await, ast.ListComp, ast.DictComp, ast.SetComp, ast.GeneratorExp, ast.BoolOp,
              ast.IfExp, ast.Starred, ast.NamedExpr)
    for fi in uni.funcs.values():
        parents = {}
        for n in ast.walk(fi.fd):
            for ch in ast.iter_child_nodes(n):
                parents[id(ch)] = n
        for n in ast.walk(fi.fd):
            if isinstance(n, banned):
                raise Unsupported('unsupported construct %s in %s: `%s`'
                                  % (type(n).__name__, fi.lean, safe_unparse(n)), n, fi)
            if isinstance(n, ast.FunctionDef) and n is not fi.fd:
                raise Unsupported('nested def in %s' % fi.lean, n, fi)
            if is_self_attr(n, 'memory'):
                par = parents.get(id(n))
                if not (isinstance(par, ast.Subscript) and par.value is n):
                    raise Unsupported('self.memory used other than by indexing in %s' % fi.lean, n, fi)
            for tb in TABLES | {'disassemble'}:
                if is_self_attr(n, tb):
                    par = parents.get(id(n))
                    if not (isinstance(par, ast.Subscript) and par.value is n
                            and isinstance(par.ctx, ast.Load)):
                        raise Unsupported('table self.%s used other than by a read index in %s'
                                          % (tb, fi.lean), n, fi)


# ---------------------------------------------------------------------------------------
# emission
# ---------------------------------------------------------------------------------------

HEADER = '''/- GENERATED by harness/py2lean.py from %s -- do not edit.
   Source sha256: %s -/
'''


def specialisations(fi):
    specs = [{}]
    for p in fi.params:
        if fi.kind[p] == 'optthunk':
            specs = [dict(s, **{p: v}) for s in specs for v in ('none', 'some')]
    if fi.uses_startpc:
        specs = [dict(s, start_pc=v) for s in specs for v in ('none', 'some')]
    return specs


def lean_str(s):
    return '"' + s.replace('\\', '\\\\').replace('"', '\\"') + '"'


def main():
    import argparse
    ap = argparse.ArgumentParser()
    ap.add_argument('--out', required=True)
    ap.add_argument('--report', default=None)
    args = ap.parse_args()
    report = {'ok': False}
    try:
        files = run(args.out, report)
        report['ok'] = True
        report['files'] = files
        rc = 0
    except Unsupported as ex:
        report['error'] = ex.msg
        if ex.func is not None:
            report['function'] = ex.func.lean
            if ex.node is not None and hasattr(ex.node, 'lineno'):
                try:
                    line0 = inspect.getsourcelines(ex.func.fobj)[1]
                    report['where'] = '%s:%d' % (inspect.getsourcefile(ex.func.fobj),
                                                 line0 + ex.node.lineno - 1)
                except Exception:
                    pass
        sys.stderr.write('py2lean: unsupported: %s\n' % ex.msg)
        rc = 3
    if args.report:
        with open(args.report, 'w') as f:
            json.dump(report, f, indent=1)
    sys.exit(rc)


def run(outdir, report):
    uni = Universe()
    mods = {}
    for ns, modname, dev in DEVICES:
        m = importlib.import_module(modname)
        mods[ns] = m
        uni.classes[ns] = m.MPU
        uni.insts[ns] = m.MPU()
        for tb in ('instruct', 'cycletime', 'extracycles', 'disassemble'):
            tbl = getattr(m.MPU, tb)
            if not isinstance(tbl, list) or len(tbl) != 256:
                raise Unsupported('%s.%s is not a 256-entry list' % (modname, tb))
            if tb in uni.insts[ns].__dict__:
                raise Unsupported('%s: instance attribute shadows class table %s' % (modname, tb))
    uni.resolve_all()
    check_no_class_state_writes(uni)

    srchash = {}
    for ns, modname, dev in DEVICES:
        p = inspect.getsourcefile(mods[ns])
        srchash[ns] = hashlib.sha256(open(p, 'rb').read()).hexdigest()
    report['source_sha256'] = srchash

    texts = {}
    by_ns = {ns: [] for ns, _, _ in DEVICES}
    sigs = {}
    for fi in uni.order:
        for spec in specialisations(fi):
            g = Gen(fi, spec)
            by_ns[fi.ns].append(g.emit())
    prev = []
    for ns, modname, dev in DEVICES:
        imports = ['import Py65.Machine'] + ['import Py65.Gen.%s' % p for p in prev]
        body = HEADER % (modname, srchash[ns]) + '\n'.join(imports) + '\n\n' + \
            'set_option linter.unusedVariables false\n\n' + \
            'namespace Py65.Gen.%s\nopen Py65\n\n' % ns + '\n'.join(by_ns[ns]) + \
            '\nend Py65.Gen.%s\n' % ns
        texts['%s.lean' % ns] = body
        prev.append(ns)

    # Tables.lean (pure data, no dependency on the translated code) and Devices.lean
    tb_lines = [HEADER % ('live class tables of the three device modules',
                          ' '.join(srchash[ns] for ns, _, _ in DEVICES)),
                'namespace Py65.Gen', '']
    d = [HEADER % ('live classes/instances of the three device modules',
                   ' '.join(srchash[ns] for ns, _, _ in DEVICES)),
         'import Py65.Gen.Tables',
         '\n'.join('import Py65.Gen.%s' % ns for ns, _, _ in DEVICES), '',
         'namespace Py65.Gen', 'open Py65', '']
    funcs_by_id = uni.funcs
    for ns, modname, dev in DEVICES:
        cls, inst = uni.classes[ns], uni.insts[ns]
        d.append('/-- Configuration of a live `%s.MPU()` instance. -/' % modname)
        d.append('def %s.cfg : Cfg where' % dev)
        for k in CFG_NAT:
            v = getattr(inst, k)
            if not isinstance(v, int) or isinstance(v, bool) or v < 0:
                raise Unsupported('%s.%s is not a natural number' % (modname, k))
            d.append('  %s := %d' % (k, v))
        for k in CFG_INT:
            v = getattr(inst, k)
            if not isinstance(v, int) or isinstance(v, bool):
                raise Unsupported('%s.%s is not an int' % (modname, k))
            d.append('  %s := %s' % (k, lit(v)))
        d.append('')
        hs = []
        for i, f in enumerate(cls.instruct):
            fi = uni.get(f)
            if fi.params or fi.returns_value:
                raise Unsupported('instruct[%d] of %s is not a parameterless procedure' % (i, modname))
            hs.append('%s%s' % (fi.lean, ' c t' if fi.uses_tbl else ' c'))
        if any(uni.get(f).uses_tbl for f in cls.instruct):
            raise Unsupported('an instruction handler of %s consults the class tables' % modname)
        d.append('def %s.instructL (c : Cfg) : List (St → St) := [' % dev)
        for i in range(0, 256, 4):
            d.append('  ' + ', '.join(hs[i:i + 4]) + (',' if i < 252 else ''))
        d.append(']')
        t_ = tb_lines
        t_.append('def %s.handlerNames : List String := [' % dev)
        names = ['%s.%s' % (uni.get(f).ns, uni.get(f).name) for f in cls.instruct]
        for i in range(0, 256, 8):
            t_.append('  ' + ', '.join(lean_str(x) for x in names[i:i + 8]) + (',' if i < 248 else ''))
        t_.append(']')
        t_.append('def %s.BYTE_WIDTH : Nat := %d' % (dev, inst.BYTE_WIDTH))
        t_.append('def %s.ADDR_WIDTH : Nat := %d' % (dev, inst.ADDR_WIDTH))
        t_.append('def %s.BYTE_FORMAT : String := %s' % (dev, lean_str(inst.BYTE_FORMAT)))
        t_.append('def %s.ADDR_FORMAT : String := %s' % (dev, lean_str(inst.ADDR_FORMAT)))
        t_.append('def %s.name : String := %s' % (dev, lean_str(inst.name)))
        for tb in ('cycletime', 'extracycles'):
            vals = getattr(cls, tb)
            for v in vals:
                if not isinstance(v, int) or isinstance(v, bool):
                    raise Unsupported('%s.%s has a non-int entry' % (modname, tb))
            t_.append('def %s.%sL : List Int := [' % (dev, tb))
            for i in range(0, 256, 16):
                t_.append('  ' + ', '.join(lit(v) for v in vals[i:i + 16]) + (',' if i < 240 else ''))
            t_.append(']')
        dis = cls.disassemble
        t_.append('def %s.disassembleL : List (String × String) := [' % dev)
        for i in range(0, 256, 4):
            row = []
            for v in dis[i:i + 4]:
                if not (isinstance(v, tuple) and len(v) == 2 and all(isinstance(z, str) for z in v)):
                    raise Unsupported('%s.disassemble has a malformed entry' % modname)
                row.append('(%s, %s)' % (lean_str(v[0]), lean_str(v[1])))
            t_.append('  ' + ', '.join(row) + (',' if i < 252 else ''))
        t_.append(']')
        t_.append('''def {dev}.disassemble (n : Int) : String × String :=
  if 0 ≤ n ∧ n < 256 then {dev}.disassembleL.getD n.toNat ("???", "imp") else ("???", "imp")
'''.format(dev=dev))
        d.append('''
/-- `cls.instruct[n]` for a list index `0 ≤ n < 256` (Python raises IndexError above, and
wraps below; both are outside the well-formed states, where the model acts as a no-op). -/
def {dev}.instruct (n : Int) : St → St :=
  if 0 ≤ n ∧ n < 256 then ({dev}.instructL {dev}.cfg).getD n.toNat id else id
def {dev}.cycletime (n : Int) : Int :=
  if 0 ≤ n ∧ n < 256 then {dev}.cycletimeL.getD n.toNat 0 else 0
def {dev}.extracycles (n : Int) : Int :=
  if 0 ≤ n ∧ n < 256 then {dev}.extracyclesL.getD n.toNat 0 else 0
def {dev}.tbl : Tbl := ⟨{dev}.instruct, {dev}.cycletime, {dev}.extracycles⟩
'''.format(dev=dev))
        # entry points
        for en in ENTRY:
            fi = uni.get(getattr(cls, en))
            targs = ' %s.cfg%s' % (dev, (' %s.tbl' % dev) if fi.uses_tbl else '')
            if fi.uses_startpc:
                d.append('def %s.%s (start_pc : Option Int) (s : St) : St :=' % (dev, en))
                d.append('  match start_pc with')
                d.append('  | some v => %s_at%s v s' % (fi.lean, targs))
                d.append('  | none => %s_vec%s s' % (fi.lean, targs))
            else:
                if fi.params or fi.returns_value:
                    raise Unsupported('%s.%s has an unsupported signature' % (modname, en))
                d.append('def %s.%s : St → St := %s%s' % (dev, en, fi.lean, targs))
        d.append('')
        # rfl lemmas: one per table slot
        for i, f in enumerate(cls.instruct):
            fi = uni.get(f)
            d.append('theorem %s.instruct_%02x : %s.instruct %d = %s %s.cfg := by decide +kernel'
                     .replace('by decide +kernel', 'rfl')
                     % (dev, i, dev, i, fi.lean, dev))
        d.append('')
    d.append('end Py65.Gen')
    texts['Devices.lean'] = '\n'.join(d) + '\n'
    tb_lines.append('end Py65.Gen')
    texts['Tables.lean'] = '\n'.join(tb_lines) + '\n'

    os.makedirs(outdir, exist_ok=True)
    written = []
    for name, body in texts.items():
        p = os.path.join(outdir, name)
        old = None
        if os.path.exists(p):
            old = open(p).read()
        if old != body:
            with open(p, 'w') as f:
                f.write(body)
            written.append(name)
    report['written'] = written
    report['functions'] = len(uni.funcs)
    return sorted(texts)


if __name__ == '__main__':
    main()
