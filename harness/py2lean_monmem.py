#!/usr/bin/env python3
"""py2lean_monmem.py -- translator (tie 1) for the memory COMMAND FRONT ENDS of py65/monitor.py (C16).

    py2lean_monmem.py --out lean/Py65/Gen --report r.json

Parses `$PY65_REPO/py65/monitor.py` with `ast` and emits `Py65/Gen/MonMemGen.lean` (unit `memcmd`):

    Monitor.help_fill, help_load, help_save, help_mem, do_fill, do_load, do_save, do_mem

as a shallow embedding that follows the Python statement by statement.  The machinery (types, values,
expression and statement translation, loop functions, phi / continuation style) is that of
`py2lean_mon.py` (class `FnTr`), which this file imports and extends; the generated `do_fill` / `do_load`
call the generated `_fill` of unit `fill` (`Py65.Gen.MonFillGen._fill`, through `liftFill`), so the chain
command -> `_fill` -> memory object is generated end to end.

Additions to the accepted subset of py2lean_mon.py (anything else -> exit 3 + JSON report):
  statements   Try/except WITH dynamic dispatch (`except A as exc`, `except (A, B) as exc`, `except
               Exception as exc`, `else:`; no `finally`): the try body becomes an auxiliary function
               `<f>_try<n>` returning the variables it assigns, the statement a `match` on how it ended;
               loops, parser calls and `raise` may occur inside; `return/break/continue` may not.
               `raise <Class>(arg)` for the classes of EXC_TABLE.  A nested `def g(a, b): return <expr>`
               (optionally under a statically decided `isinstance` test) -> a local function.
               `x.append(v)` on a local list, `f.write(bytearray([...]))`, `f.close()` on local file
               objects.  An `if` whose branches both go on and that needs continuation style gets a
               JOIN function `<f>_join<n>` (the rest of the method, once) instead of a copy per branch.
  expressions  `//` `<<` `>>` (ZeroDivisionError / ValueError modelled), `sub in s` on strings,
               `range(a, b[, c])` (c a non-zero constant) as the list it enumerates, list comprehensions
               `[e for x in it]` (one generator, no condition; with memory reads in `e` -> an
               auxiliary function `<f>_comp<n>`), `self._mpu.memory[a]` (ObservableMemory item read:
               changes the call log), `l[i::c]`, `list(map(g, a, b))`, `list(l)`, `open(name, 'rb' |
               'wb')`, `urlopen(url)`, `f.read()`, `bytearray(list)`, `str(exc)`, `exc.args[0]`,
               `exc.errno`, `exc.strerror`, `[]` (a list of ints), `isinstance(x, str)` decided
               STATICALLY from the type of `x` (Python 3: file contents are lists of ints, never `str`;
               the dead Python-2 branch is not translated).
A comparison bound to a name (`exceeded = a > b`) becomes a `Bool` (`decide`).
Library behaviour is the named helpers of lean/Py65/Model/MonMemRt.lean (+ MonGenRt.lean).
"""
import argparse
import ast
import hashlib
import json
import os
import re
import sys

HERE = os.path.dirname(os.path.abspath(__file__))
if HERE not in sys.path:
    sys.path.insert(0, HERE)
import py2lean_mon as M  # noqa: E402
from py2lean_mon import (Unsupported, NeedCPS, Val, Bind, Ctl, INT, BOOL, PROP, STR, NONE,  # noqa: E402
                         tlist, ttuple, ind, proj, unparse1, path_of, lean_strlist)

# ---------------------------------------------------------------------------------------
# new types
# ---------------------------------------------------------------------------------------
RFILE, WFILE = 'rfile', 'wfile'          # file objects: open(.., 'rb') / urlopen(..); open(.., 'wb')

_lean_type0 = M.lean_type


def lean_type(t, top=True):
    if t == RFILE:
        return 'List Int' if top else '(List Int)'
    if t == WFILE:
        return 'WFile'
    if isinstance(t, tuple) and t and t[0] == 'fn':
        s = ' → '.join([lean_type(x, False) for x in t[1]] + [lean_type(t[2], False)])
        return s if top else '(%s)' % s
    if isinstance(t, tuple) and t and t[0] in ('list', 'opt'):
        s = '%s %s' % ('List' if t[0] == 'list' else 'Option', lean_type(t[1], False))
        return s if top else '(%s)' % s
    if isinstance(t, tuple) and t and t[0] == 'tuple' and t[1]:
        s = ' × '.join(lean_type(x, False) for x in t[1])
        return s if top else '(%s)' % s
    return _lean_type0(t, top)


M.lean_type = lean_type                   # process-local: the inherited methods call it by its global name
M.RESERVED |= set(['w', 'acc_', 'e_', 'exc_'])
M.STORE_SITES.update({'byteWidth': '_reset', 'byteFmt': '_reset'})

# exception classes: constructor of MonMemRt.PExc and the attributes the code may read
EXC_TABLE = {
    'KeyError': ('KeyError', [('args0', STR)]),
    'OverflowError': ('OverflowError', [('args0', INT)]),
    'OSError': ('OSError', [('errno', INT), ('strerror', STR)]),
    'IOError': ('OSError', [('errno', INT), ('strerror', STR)]),      # alias of OSError in Python 3
    'IndexError': ('IndexError', []), 'TypeError': ('TypeError', []), 'ValueError': ('ValueError', []),
    'ZeroDivisionError': ('ZeroDivisionError', []),
}

UNIT = dict(
    file='MonMemGen.lean', ns='Py65.Gen.MonMemGen', mode='flow', state='MemSt',
    params=[('w', 'World'), ('reply', 'Reply'), ('d', 'Dev'), ('P', 'Parser')],
    funcs=['help_fill', 'help_load', 'help_save', 'help_mem', 'do_fill', 'do_load', 'do_save', 'do_mem'],
    sigs={'help_fill': [], 'help_load': [], 'help_save': [], 'help_mem': [],
          'do_fill': [('args', STR)], 'do_load': [('args', STR)], 'do_save': [('args', STR)],
          'do_mem': [('args', STR)]},
    attrs={
        ('self', 'addrMask'): ('cfg', 'd.addrMask', INT),
        ('self', 'byteMask'): ('cfg', 'd.byteMask', INT),
        ('self', 'byteWidth'): ('cfg', '(d.BW : Int)', INT),
        ('self', 'addrFmt'): ('hexfmt', 'd.addrFmtW'),
        ('self', 'byteFmt'): ('hexfmt', 'd.byteFmtW'),
        ('self', '_mpu'): ('obj', 'mpu'),
        ('self', '_mpu', 'memory'): ('obj', 'omem'),
        ('self', '_mpu', 'pc'): ('field', ('pc',), INT),
        ('self', '_width'): ('field', ('width',), INT),
        ('self', '_address_parser'): ('obj', 'parser'),
    },
    reset_facts=['self.addrMask = self._mpu.addrMask', 'self.byteMask = self._mpu.byteMask',
                 'self.byteWidth = self._mpu.BYTE_WIDTH',
                 'self.addrFmt = self._mpu.ADDR_FORMAT', 'self.byteFmt = self._mpu.BYTE_FORMAT',
                 'self._address_parser = AddressParser(maxwidth=self.addrWidth)'],
    init_facts=[],
    uses_output=True,
)
# the method of unit `fill` the commands call, and its parameter list (checked against the source)
FILL_SIG = [('start', INT), ('end', INT), ('filler', tlist(INT))]


def trivial(k):
    return bool(getattr(k, 'trivial', False))


class MemFnTr(M.FnTr):
    def __init__(self, *a, **kw):
        M.FnTr.__init__(self, *a, **kw)
        self.njoin = self.ntry = self.ncomp = 0
        self.in_try = 0
        for n in self.pynames:
            if n.endswith('_args0') or n.endswith('_errno') or n.endswith('_strerror'):
                self.fail('local name %s collides with the translator\'s exception binders' % n, self.fd)

    # -- small helpers ---------------------------------------------------------------------
    def fuel_arg(self):
        return ['fuel'] if self.fuel_of[self.fname] else []

    def fuel_decl(self):
        return ['(fuel : Nat)'] if self.fuel_of[self.fname] else []

    def runtime_vars(self, env):
        return [n for n in env if env[n].lean is not None]

    def is_exc(self, node, env):
        if isinstance(node, ast.Name):
            b = env.get(node.id)
            if b is not None and isinstance(b.ty, tuple) and b.ty[0] == 'exc':
                return b
        return None

    def local_of(self, node, env, types):
        """the Bind of a Name bound to a run-time local of one of the given types"""
        if isinstance(node, ast.Name):
            b = env.get(node.id)
            if b is not None and b.lean is not None and \
                    (b.ty in types or (isinstance(b.ty, tuple) and b.ty[0] in types)):
                return b
        return None

    def mem_read(self, i, env, pre, ctl, node):
        """`self._mpu.memory[i]`: ObservableMemory item read = value + the memory object afterwards"""
        self.need_flow(node, 'a memory read')
        if ctl.phi:
            raise NeedCPS()
        t = self.temp()

        def w(lines):
            return ['let %s : Int × OM := ObsMem.get reply σ.memory %s' % (t, i.p()),
                    'let σ : MemSt := { σ with memory := %s.2 }' % t] + lines
        pre.append(w)
        return Val('%s.1' % t, INT, True)

    def static_test(self, test, env):
        """`isinstance(x, str)` is decided from the static type of x (None: not such a test)"""
        if isinstance(test, ast.Call) and isinstance(test.func, ast.Name) and test.func.id == 'isinstance' \
                and 'isinstance' not in env and len(test.args) == 2 and not test.keywords \
                and isinstance(test.args[0], ast.Name) and isinstance(test.args[1], ast.Name) \
                and test.args[1].id == 'str' and 'str' not in env:
            b = env.get(test.args[0].id)
            if b is None or b.lean is None:
                self.fail('isinstance() of an unknown or static-only name', test)
            if b.ty == STR:
                return True, 'a str'
            if b.ty in (tlist(INT), RFILE):
                return False, 'file contents are a list of ints (Python 3 bytes), never a str'
            self.fail('isinstance(x, str) of a value of type %s' % (b.ty,), test)
        return None

    # -- expressions -------------------------------------------------------------------------
    def ex(self, node, env, pre, ctl):
        if isinstance(node, ast.Attribute):
            b = self.is_exc(node.value, env)
            if b is not None:
                pl = b.static['payload']
                if node.attr not in pl or node.attr == 'args0':
                    self.fail('attribute %s of a caught %s' % (node.attr, b.ty[1]), node)
                return Val(pl[node.attr][0], pl[node.attr][1], True)
        if isinstance(node, ast.List) and not node.elts:
            return Val('([] : List Int)', tlist(INT), True)
        if isinstance(node, ast.ListComp):
            return self.listcomp(node, env, pre, ctl)
        return M.FnTr.ex(self, node, env, pre, ctl)

    def binop(self, node, env, pre, ctl):
        if isinstance(node.op, (ast.FloorDiv, ast.LShift, ast.RShift)):
            l = self.ex(node.left, env, pre, ctl)
            r = self.ex(node.right, env, pre, ctl)
            if l.ty != INT or r.ty != INT:
                self.fail('operator %s on %s and %s' % (type(node.op).__name__, l.ty, r.ty), node)
            const = node.right.value if isinstance(node.right, ast.Constant) and \
                isinstance(node.right.value, int) and not isinstance(node.right.value, bool) else None
            if isinstance(node.op, ast.FloorDiv):
                if const is not None and const != 0:
                    return Val('Int.fdiv %s %s' % (l.p(), r.p()), INT)
                return self.opt_bind('pyFloorDiv %s %s' % (l.p(), r.p()), 'ZeroDivisionError', INT, env, pre, ctl, node)
            h, g = ('Py.shl', 'pyShl') if isinstance(node.op, ast.LShift) else ('Py.shr', 'pyShr')
            if const is not None and const >= 0:
                return Val('%s %s %d' % (h, l.p(), const), INT)
            return self.opt_bind('%s %s %s' % (g, l.p(), r.p()), 'ValueError', INT, env, pre, ctl, node)
        return M.FnTr.binop(self, node, env, pre, ctl)

    def compare(self, node, env, pre, ctl):
        if len(node.ops) == 1 and isinstance(node.ops[0], (ast.In, ast.NotIn)):
            # substring test `sub in s`: decided by the type of the right operand (probed without effects)
            ntemp = self.ntemp
            try:
                probe = self.ex(node.comparators[0], env, [], ctl.with_(phi=False))
            except (Unsupported, NeedCPS):
                probe = None
            self.ntemp = ntemp
            if probe is not None and probe.ty == STR and probe.text is not None:
                l = self.ex(node.left, env, pre, ctl)
                rv = self.ex(node.comparators[0], env, pre, ctl)
                if l.ty != STR or l.text is None:
                    self.fail('`in` of a %s in a string' % (l.ty,), node)
                t = 'pyStrIn %s %s = true' % (l.p(), rv.p())
                return Val(t if isinstance(node.ops[0], ast.In) else '¬ (%s)' % t, PROP)
        return M.FnTr.compare(self, node, env, pre, ctl)

    def call_expr(self, node, env, pre, ctl):
        f = node.func
        if isinstance(f, ast.Name) and f.id not in env:
            if f.id == 'range':
                if node.keywords or len(node.args) not in (2, 3):
                    self.fail('range() takes two or three positional arguments here', node)
                a = self.ex(node.args[0], env, pre, ctl)
                b = self.ex(node.args[1], env, pre, ctl)
                if a.ty != INT or b.ty != INT:
                    self.fail('range() of non-integers', node)
                step = '1'
                if len(node.args) == 3:
                    c = node.args[2]
                    if isinstance(c, ast.UnaryOp) and isinstance(c.op, ast.USub) and isinstance(c.operand, ast.Constant) \
                            and isinstance(c.operand.value, int) and c.operand.value != 0:
                        step = '(-%d)' % c.operand.value
                    elif isinstance(c, ast.Constant) and isinstance(c.value, int) and not isinstance(c.value, bool) \
                            and c.value != 0:
                        step = str(c.value) if c.value > 0 else '(%d)' % c.value
                    else:
                        self.fail('range() step must be a non-zero integer constant', node)
                return Val('pyRange %s %s %s' % (a.p(), b.p(), step), tlist(INT))
            if f.id == 'list':
                self.args_plain(node, 1, 'list')
                a0 = node.args[0]
                if isinstance(a0, ast.Call) and isinstance(a0.func, ast.Name) and a0.func.id == 'map' and 'map' not in env:
                    if a0.keywords or len(a0.args) != 3 or not isinstance(a0.args[0], ast.Name):
                        self.fail('only list(map(<local function>, a, b)) is accepted', node)
                    g = env.get(a0.args[0].id)
                    if g is None or not (isinstance(g.ty, tuple) and g.ty[0] == 'fn' and len(g.ty[1]) == 2):
                        self.fail('map() of something that is not a local two-argument function', node)
                    x = self.ex(a0.args[1], env, pre, ctl)
                    y = self.ex(a0.args[2], env, pre, ctl)
                    if x.ty != tlist(g.ty[1][0]) or y.ty != tlist(g.ty[1][1]):
                        self.fail('map() arguments do not fit the function', node)
                    return Val('pyMap2 %s %s %s' % (g.lean, x.p(), y.p()), tlist(g.ty[2]))
                a = self.ex(a0, env, pre, ctl)
                if not (isinstance(a.ty, tuple) and a.ty[0] == 'list') or a.text is None:
                    self.fail('list() of a %s' % (a.ty,), node)
                return Val(a.text, a.ty, a.atom)
            if f.id == 'open':
                self.args_plain(node, 2, 'open')
                nm = self.ex(node.args[0], env, pre, ctl)
                md = node.args[1]
                if nm.ty != STR or nm.text is None or not (isinstance(md, ast.Constant) and md.value in ('rb', 'wb')):
                    self.fail('only open(<str>, \'rb\') and open(<str>, \'wb\') are accepted', node)
                if md.value == 'rb':
                    return self.except_bind('pyOpenR w %s' % nm.p(), RFILE, env, pre, ctl, node)
                return self.except_bind('pyOpenW w %s' % nm.p(), WFILE, env, pre, ctl, node)
            if f.id == 'urlopen':
                self.args_plain(node, 1, 'urlopen')
                nm = self.ex(node.args[0], env, pre, ctl)
                if nm.ty != STR or nm.text is None:
                    self.fail('urlopen of a %s' % (nm.ty,), node)
                return self.except_bind('pyUrlopen w %s' % nm.p(), RFILE, env, pre, ctl, node)
            if f.id == 'bytearray':
                self.args_plain(node, 1, 'bytearray')
                a = self.ex(node.args[0], env, pre, ctl)
                if a.ty != tlist(INT):
                    self.fail('bytearray() of a %s' % (a.ty,), node)
                return self.opt_bind('pyByteArray %s' % a.p(), 'ValueError', tlist(INT), env, pre, ctl, node)
            if f.id == 'str':
                self.args_plain(node, 1, 'str')
                b = self.is_exc(node.args[0], env)
                if b is None or 'whole' not in b.static:
                    self.fail('str() is accepted only of an exception caught by `except Exception as e`', node)
                return Val('PExc.str %s' % b.static['whole'], STR)
        if isinstance(f, ast.Attribute):
            p = self.resolve_path(f, env)
            if p is not None:
                owner = self.unit['attrs'].get(p[:-1])
                if owner is not None and owner[0] == 'obj' and owner[1] == 'parser' and p[-1] in ('number', 'range'):
                    self.args_plain(node, 1, p[-1])
                    a = self.ex(node.args[0], env, pre, ctl)
                    if a.ty != STR or a.text is None:
                        self.fail('%s() of a %s' % (p[-1], a.ty), node)
                    if p[-1] == 'number':
                        return self.except_bind('parseNumberX w P %s' % a.p(), INT, env, pre, ctl, node)
                    return self.except_bind('parseRangeX w P %s' % a.p(), ttuple([INT, INT]), env, pre, ctl, node)
            b = self.local_of(f.value, env, (RFILE,))
            if b is not None and f.attr == 'read':
                self.args_plain(node, 0, 'read')
                return Val(b.lean, tlist(INT), True)
        return M.FnTr.call_expr(self, node, env, pre, ctl)

    def subscript(self, node, env, pre, ctl):
        sl = node.slice
        # exc.args[0]
        if isinstance(node.value, ast.Attribute) and node.value.attr == 'args':
            b = self.is_exc(node.value.value, env)
            if b is not None:
                pl = b.static['payload']
                if not (isinstance(sl, ast.Constant) and sl.value == 0 and 'args0' in pl):
                    self.fail('only exc.args[0] of a caught KeyError / OverflowError is accepted', node)
                return Val(pl['args0'][0], pl['args0'][1], True)
        p = self.resolve_path(node.value, env)
        if p is not None:
            a = self.unit['attrs'].get(p)
            if a is not None and a[0] == 'obj' and a[1] == 'omem':
                if isinstance(sl, ast.Slice):
                    self.fail('a slice read of the ObservableMemory is not in the subset', node)
                i = self.ex(sl, env, pre, ctl)
                if i.ty != INT:
                    self.fail('memory index of type %s' % (i.ty,), node)
                return self.mem_read(i, env, pre, ctl, node)
        if isinstance(sl, ast.Slice) and sl.step is not None:
            base = self.ex(node.value, env, pre, ctl)
            if not (isinstance(base.ty, tuple) and base.ty[0] == 'list') or base.text is None:
                self.fail('stepped slice of a %s' % (base.ty,), node)
            if sl.upper is not None or sl.lower is None:
                self.fail('only the stepped slice l[i::c] is accepted', node)
            st = sl.step
            if not (isinstance(st, ast.Constant) and isinstance(st.value, int) and not isinstance(st.value, bool)
                    and st.value >= 1):
                self.fail('slice step must be a positive integer constant', node)
            lo = self.ex(sl.lower, env, pre, ctl)
            if lo.ty != INT:
                self.fail('slice bound of type %s' % (lo.ty,), node)
            return Val('pySliceFromStep %s %s %d' % (base.p(), lo.p(), st.value), base.ty)
        return M.FnTr.subscript(self, node, env, pre, ctl)

    def listcomp(self, node, env, pre, ctl):
        if len(node.generators) != 1:
            self.fail('list comprehension with more than one generator', node)
        g = node.generators[0]
        if g.ifs or g.is_async or not isinstance(g.target, ast.Name):
            self.fail('list comprehension with a condition / a target that is not a name', node)
        tn = g.target.id
        if tn in env:
            self.fail('comprehension target %s shadows an existing variable' % tn, node)
        it = self.ex(g.iter, env, pre, ctl)
        if not (isinstance(it.ty, tuple) and it.ty[0] == 'list') or it.text is None:
            self.fail('comprehension over a %s' % (it.ty,), node)
        env_in = dict(env)
        env_in[tn] = Bind(self.mangle(tn), it.ty[1])
        # pure element: List.map
        probe = []
        ntemp = self.ntemp
        try:
            e = self.ex(node.elt, env_in, probe, ctl.with_(phi=True))
            pure = not probe
        except NeedCPS:
            pure, e = False, None
        if pure:
            if e.text is None:
                self.fail('comprehension element is static-only', node)
            return Val('List.map (fun (%s : %s) => %s) %s' % (self.mangle(tn), lean_type(it.ty[1]), e.text, it.p()),
                       tlist(e.ty))
        # element with effects (memory reads): an auxiliary function
        self.ntemp = ntemp
        self.need_flow(node, 'a comprehension with memory reads')
        if ctl.phi:
            raise NeedCPS()
        self.ncomp += 1
        name = '%s_comp%d' % (self.fname, self.ncomp)
        free = [n for n in self.loaded([node.elt]) if n in env and env[n].lean is not None]
        fixed = ' '.join(x for x in [name, self.pnames()] + [env[n].lean for n in free] if x)
        epre = []
        lctl = Ctl((), None, False)
        save_try, self.in_try = self.in_try, self.in_try + 1     # no return / join inside
        try:
            e = self.ex(node.elt, env_in, epre, lctl)
        finally:
            self.in_try = save_try
        if e.text is None:
            self.fail('comprehension element is static-only', node)
        ety = lean_type(e.ty, False)
        body = self.wrap(epre, ['%s rest_ (acc_ ++ [%s]) σ' % (fixed, e.text)])
        decl = ' '.join([self.pdecl()] + ['(%s : %s)' % (env[n].lean, lean_type(env[n].ty)) for n in free]).strip()
        st = self.unit['state']
        d = ['/-- `%s` of `%s` (comprehension %d): the items in order, `acc_` = those computed so far. -/'
             % (unparse1(node), self.fname, self.ncomp),
             'def %s %s :' % (name, decl),
             '    List %s → List %s → %s → Flow %s (List %s)' % (lean_type(it.ty[1], False), ety, st, st, ety),
             '  | [], acc_, σ => .ok acc_ σ',
             '  | %s :: rest_, acc_, σ =>' % self.mangle(tn)] + ind(body, 4)
        self.aux.append('\n'.join(d))
        t = self.temp()

        def w(lines):
            return ['(%s %s [] σ).bind fun %s σ =>' % (fixed, it.p(), t)] + lines
        pre.append(w)
        return Val(t, tlist(e.ty), True)

    # -- statements ----------------------------------------------------------------------------
    def bind_name(self, env, name, v, node):
        if v.ty == PROP and v.text is not None:
            v = Val('decide (%s)' % v.text, BOOL)
        return M.FnTr.bind_name(self, env, name, v, node)

    def assigned(self, stmts):
        out = M.FnTr.assigned(self, stmts)
        for s in stmts:
            for n in self.dfs(s):
                if isinstance(n, ast.Expr) and isinstance(n.value, ast.Call) and isinstance(n.value.func, ast.Attribute) \
                        and isinstance(n.value.func.value, ast.Name) and n.value.func.attr in ('append', 'write') \
                        and n.value.func.value.id not in out:
                    out.append(n.value.func.value.id)
        return out

    def touches_state(self, stmts):
        if M.FnTr.touches_state(self, stmts):
            return True
        for s in stmts:
            for n in self.dfs(s):
                if isinstance(n, ast.Subscript) and path_of(n.value) and path_of(n.value)[-1] == 'memory':
                    return True
        return False

    def block(self, stmts, env, k, ctl):
        if not stmts:
            return k(env)
        s, rest = stmts[0], stmts[1:]

        def restk(e):
            return self.block(rest, e, k, ctl)
        restk.trivial = (not rest) and trivial(k)
        if isinstance(s, ast.Raise):
            return self.st_raise(s, env, ctl)
        if isinstance(s, ast.FunctionDef):
            return self.st_funcdef(s, env, restk, ctl)
        if isinstance(s, ast.If):
            return self.st_if(s, env, restk, ctl)
        if isinstance(s, ast.Try):
            return self.st_try(s, env, restk, ctl)
        if isinstance(s, ast.Expr) and isinstance(s.value, ast.Call):
            r = self.st_call_local(s.value, env, restk, ctl, s)
            if r is not None:
                return r
        return M.FnTr.block(self, [s], env, restk, ctl)

    def st_raise(self, s, env, ctl):
        self.need_flow(s, 'raise')
        if ctl.phi:
            raise NeedCPS()
        c = s.exc
        if s.cause is not None or not (isinstance(c, ast.Call) and isinstance(c.func, ast.Name)
                                       and c.func.id in EXC_TABLE and c.func.id not in env and not c.keywords):
            self.fail('only `raise <Class>(args)` for the exception classes of the table is accepted', s)
        con, fields = EXC_TABLE[c.func.id]
        if c.func.id in ('OSError', 'IOError') or len(c.args) != len(fields):
            self.fail('raise %s with %d argument(s)' % (c.func.id, len(c.args)), s)
        pre = []
        args = []
        for a, (_, ty) in zip(c.args, fields):
            v = self.ex(a, env, pre, ctl)
            if v.ty != ty or v.text is None:
                self.fail('argument of raise %s has type %s' % (c.func.id, v.ty), s)
            args.append(v.p())
        e = '.%s' % con if not args else '(.%s %s)' % (con, ' '.join(args))
        return ['-- %s' % unparse1(s)] + self.wrap(pre, ['.raise %s σ' % e])

    def st_return(self, s, env, ctl):
        if self.in_try:
            self.fail('return inside a try body / comprehension', s)
        return M.FnTr.st_return(self, s, env, ctl)

    def st_funcdef(self, s, env, k, ctl):
        """def g(a, b): [if isinstance(x, str): return e1 else:] return e2   -> a local function on ints"""
        a = s.args
        if s.decorator_list or a.vararg or a.kwarg or a.kwonlyargs or a.posonlyargs or a.defaults or s.returns:
            self.fail('nested function with decorators / defaults / star arguments', s)
        if s.name in env:
            self.fail('nested function %s shadows a variable' % s.name, s)
        names = [x.arg for x in a.args]
        env_f = dict(env)
        for n in names:
            if n in env:
                self.fail('parameter %s of a nested function shadows a variable' % n, s)
            env_f[n] = Bind(self.mangle(n), INT)
        lines = []
        body = [x for x in s.body if not (isinstance(x, ast.Expr) and isinstance(x.value, ast.Constant))]
        while True:
            if len(body) == 1 and isinstance(body[0], ast.Return) and body[0].value is not None:
                pre = []
                v = self.ex(body[0].value, env_f, pre, ctl.with_(phi=True, lc=None))
                if pre or v.text is None or v.ty != INT:
                    self.fail('a nested function must return a total integer expression', s)
                lines += ['-- %s' % unparse1(body[0]), v.text]
                break
            if len(body) == 1 and isinstance(body[0], ast.If):
                r = self.static_test(body[0].test, env_f)
                if r is None:
                    self.fail('a nested function may only branch on a statically decided isinstance()', s)
                lines.append('-- if %s:  (statically %s: %s)' % (unparse1(body[0].test), r[0], r[1]))
                body = body[0].body if r[0] else body[0].orelse
                continue
            self.fail('unsupported body of a nested function', s)
        ty = ('fn', tuple(INT for _ in names), INT)
        env2 = dict(env)
        env2[s.name] = Bind(self.mangle(s.name), ty)
        hd = ['-- def %s(%s):' % (s.name, ', '.join(names)),
              'let %s : %s := fun %s =>' % (self.mangle(s.name), lean_type(ty), ' '.join(self.mangle(n) for n in names))]
        return hd + ind(lines) + k(env2)

    def st_call_local(self, node, env, k, ctl, s):
        """calls that mutate a local object: list.append, file.write, file.close; and self._fill"""
        f = node.func
        head = ['-- %s' % unparse1(s)]
        if isinstance(f, ast.Attribute) and isinstance(f.value, ast.Name):
            b = env.get(f.value.id)
            if b is not None and b.lean is not None:
                pre = []
                if isinstance(b.ty, tuple) and b.ty[0] == 'list' and f.attr == 'append':
                    self.args_plain(node, 1, 'append')
                    v = self.coerce(self.ex(node.args[0], env, pre, ctl), b.ty[1], s)
                    env2, lines = self.bind_name(env, f.value.id, Val('%s ++ [%s]' % (b.lean, v.text), b.ty), s)
                    return head + self.wrap(pre, lines + k(env2))
                if b.ty == WFILE and f.attr == 'write':
                    self.args_plain(node, 1, 'write')
                    v = self.ex(node.args[0], env, pre, ctl)
                    if v.ty != tlist(INT) or not (isinstance(node.args[0], ast.Call) and
                                                  isinstance(node.args[0].func, ast.Name) and
                                                  node.args[0].func.id == 'bytearray'):
                        self.fail('f.write() takes a bytearray(...) here', s)
                    env2, lines = self.bind_name(env, f.value.id, Val('pyFileWrite %s %s' % (b.lean, v.p()), WFILE), s)
                    return head + self.wrap(pre, lines + k(env2))
                if b.ty == WFILE and f.attr == 'close':
                    self.args_plain(node, 0, 'close')
                    self.need_flow(s, 'closing a file')
                    if ctl.phi:
                        raise NeedCPS()
                    upd = self.state_upd(('files',), 'σ.files ++ [%s]' % b.lean)
                    return head + ['let σ : %s := %s' % (self.unit['state'], upd)] + k(env)
                if b.ty == RFILE and f.attr == 'close':
                    self.args_plain(node, 0, 'close')
                    return ['-- %s  (closing a file that was read: no effect on the modelled state)' % unparse1(s)] + k(env)
        p = self.resolve_path(f, env)
        if p == ('self', '_fill'):
            if ctl.phi:
                raise NeedCPS()
            if self.in_try:
                self.fail('call of _fill inside a try body', s)
            given = {}
            if len(node.args) > len(FILL_SIG):
                self.fail('too many arguments for _fill', s)
            for (pn, _), a in zip(FILL_SIG, node.args):
                given[pn] = a
            for kw in node.keywords:
                if kw.arg is None or kw.arg in given or kw.arg not in [x for x, _ in FILL_SIG]:
                    self.fail('bad keyword argument for _fill', s)
                given[kw.arg] = kw.value
            pre, args = [], []
            for pn, pt in FILL_SIG:
                if pn not in given:
                    self.fail('missing argument %s for _fill' % pn, s)
                v = self.ex(given[pn], env, pre, ctl)
                if v.ty == RFILE:
                    v = Val(v.text, tlist(INT), v.atom)
                v = self.coerce(v, pt, s)
                args.append(v.p())
            call = 'liftFill (MonFillGen._fill reply d fuel %s) σ' % ' '.join(args)
            return head + self.wrap(pre, ['(%s).bind fun _ σ =>' % call] + k(env))
        return None

    # -- joins -----------------------------------------------------------------------------------
    def falls(self, stmts):
        """can control reach the end of this statement list?"""
        for s in stmts:
            if isinstance(s, (ast.Return, ast.Raise, ast.Break, ast.Continue)):
                return False
            if isinstance(s, ast.If) and not self.falls(s.body) and not self.falls(s.orelse):
                return False
            if isinstance(s, ast.Try):
                arms = [s.body + s.orelse] + [h.body for h in s.handlers]
                if not any(self.falls(a) for a in arms):
                    return False
        return True

    def make_join(self, k, env, arms, node):
        """a continuation that calls ONE auxiliary function holding the rest of the method"""
        falling = [a for a in arms if self.falls(a)]
        common = None
        for a in falling:
            sa = set(self.assigned(a))
            common = sa if common is None else (common & sa)
        cands = set(n for n in env if env[n].lean is not None) | (common or set())
        st = {}

        def kj(e):
            if 'name' not in st:
                ps = [n for n in e if n in cands and e[n].lean is not None]
                self.njoin += 1
                jn = self.njoin
                name = '%s_join%d' % (self.fname, jn)
                env_j = {}
                for n in e:
                    if e[n].lean is None:
                        if not (isinstance(e[n].ty, tuple) and e[n].ty[0] == 'exc'):
                            env_j[n] = e[n]
                    elif n in ps:
                        env_j[n] = Bind(e[n].lean, e[n].ty)
                body = k(env_j)
                decl = ' '.join([self.pdecl()] + self.fuel_decl() +
                                ['(%s : %s)' % (e[n].lean, lean_type(e[n].ty)) for n in ps] +
                                ['(σ : %s)' % self.unit['state']])
                d = ['/-- the rest of `%s` after `%s` (join %d; all paths through that statement continue here). -/'
                     % (self.fname, unparse1(node), jn),
                     'def %s %s : Flow %s Unit :=' % (name, decl, self.unit['state'])] + ind(body)
                self.aux.append('\n'.join(d))
                st['name'], st['ps'] = name, [(n, e[n].lean, e[n].ty) for n in ps]
            for n, ln, ty in st['ps']:
                if n not in e or e[n].lean != ln or e[n].ty != ty:
                    self.fail('variable %s has different types / is missing on the paths that meet after `%s`'
                              % (n, unparse1(node)), node)
            return [' '.join([st['name'], self.pnames()] + self.fuel_arg() + [ln for _, ln, _ in st['ps']] + ['σ'])]
        kj.trivial = True
        return kj

    def want_join(self, k, ctl, arms):
        return (not trivial(k)) and ctl.lc is None and not ctl.phi and not self.in_try and \
            sum(1 for a in arms if self.falls(a)) >= 2

    def st_if(self, s, env, k, ctl):
        r = self.static_test(s.test, env)
        if r is not None:
            return ['-- if %s:  (statically %s: %s; the other branch is dead and not translated)'
                    % (unparse1(s.test), r[0], r[1])] + self.block(s.body if r[0] else s.orelse, env, k, ctl)
        head = ['-- if %s:' % unparse1(s.test)]
        if self.narrowing(s.test, env):
            return M.FnTr.st_if(self, s, env, k, ctl)
        try:
            return self.if_phi(s, env, k, ctl, head)
        except NeedCPS:
            if ctl.phi:
                raise
        arms = [s.body, s.orelse]
        if self.want_join(k, ctl, arms):
            k = self.make_join(k, env, arms, s.test)
        pre = []
        c = self.cond(s.test, env, pre, ctl)
        lines = ['if %s then' % c] + ind(self.block(s.body, env, k, ctl)) + ['else'] + \
            ind(self.block(s.orelse, env, k, ctl))
        return head + self.wrap(pre, lines)

    # -- try / except --------------------------------------------------------------------------
    def st_try(self, s, env, k, ctl):
        self.need_flow(s, 'try')
        if ctl.phi:
            raise NeedCPS()
        if ctl.lc is not None or self.in_try:
            self.fail('try inside a loop / a try body', s)
        if s.finalbody:
            self.fail('try with finally', s)
        st = self.unit['state']
        # handlers
        arms, seen, catch_all = [], set(), False
        for h in s.handlers:
            if catch_all:
                self.fail('an except clause after `except Exception`', s)
            if h.type is None:
                self.fail('bare except', s)
            names = [h.type.id] if isinstance(h.type, ast.Name) else \
                [e.id for e in h.type.elts] if isinstance(h.type, ast.Tuple) and \
                all(isinstance(e, ast.Name) for e in h.type.elts) else None
            if not names or any(n in env for n in names):
                self.fail('unsupported exception specification', s)
            if names == ['Exception']:
                catch_all = True
                arms.append((h, None, names))
                continue
            cons = set()
            for n in names:
                if n not in EXC_TABLE:
                    self.fail('exception class %s is not in the translator\'s table' % n, s)
                cons.add(EXC_TABLE[n][0])
            if len(cons) != 1:
                self.fail('an except clause naming different exception classes', s)
            con = cons.pop()
            if con in seen:
                self.fail('exception class %s is handled twice' % con, s)
            seen.add(con)
            arms.append((h, con, names))
        # the body: an auxiliary function over the current variables
        self.ntry += 1
        name = '%s_try%d' % (self.fname, self.ntry)
        ps = self.runtime_vars(env)
        env_b = dict((n, (Bind(b.lean, b.ty) if b.lean is not None else b)) for n, b in env.items())
        asg = self.assigned(s.body)
        outs = {}

        def endk(e):
            cur = [(n, e[n].lean, e[n].ty) for n in asg if n in e and e[n].lean is not None]
            if 'v' not in outs:
                outs['v'] = cur
            elif outs['v'] != cur:
                self.fail('the paths through the try body assign different variables', s)
            if not cur:
                return ['.ok () σ']
            return ['.ok %s σ' % (cur[0][1] if len(cur) == 1 else '(%s)' % ', '.join(c[1] for c in cur))]
        endk.trivial = True
        self.in_try += 1
        try:
            body = self.block(s.body, env_b, endk, Ctl())
        finally:
            self.in_try -= 1
        ov = outs.get('v')
        if ov is None:
            self.fail('the try body never completes normally', s)
        rty = 'Unit' if not ov else ' × '.join(lean_type(t, False) for _, _, t in ov)
        decl = ' '.join([self.pdecl()] + self.fuel_decl() +
                        ['(%s : %s)' % (env[n].lean, lean_type(env[n].ty)) for n in ps] + ['(σ : %s)' % st])
        d = ['/-- the body of `try:` number %d of `%s`; the value = the variables it assigns (%s). -/'
             % (self.ntry, self.fname, ', '.join(n for n, _, _ in ov) or 'none'),
             'def %s %s : Flow %s %s :=' % (name, decl, st, rty if len(ov) <= 1 else '(%s)' % rty)] + ind(body)
        self.aux.append('\n'.join(d))
        call = ' '.join([name, self.pnames()] + self.fuel_arg() + [env[n].lean for n in ps] + ['σ'])
        # the continuation after the statement
        allarms = [s.body + s.orelse] + [h.body for h in s.handlers]
        if self.want_join(k, ctl, allarms):
            k = self.make_join(k, env, allarms, s)
        lines = ['-- try:  (body: %s)' % name, 'match %s with' % call]
        env_ok = dict(env)
        oklets = []
        for i, (n, ln, ty) in enumerate(ov):
            env_ok[n] = Bind(ln, ty)
            oklets.append(self.let(ln, ty, 'r_%s' % proj(len(ov), i)))
        lines.append('| .ok %s σ =>' % ('r_' if ov else '_'))
        lines += ind(oklets + (['-- else:'] if s.orelse else []) + self.block(s.orelse, env_ok, k, ctl))
        for h, con, names in arms:
            env_h = dict(env)
            hn = h.name

            def kh(e, hn=hn):
                return k(dict((n, b) for n, b in e.items() if n != hn))
            kh.trivial = trivial(k)
            spec = '(%s)' % ', '.join(names) if len(names) > 1 else names[0]
            cm = '-- except %s%s:' % (spec, ' as %s' % hn if hn else '')
            if con is None:
                bn = self.mangle(hn) if hn else '_'
                if hn:
                    if hn in env:
                        self.fail('exception name %s shadows a variable' % hn, s)
                    env_h[hn] = Bind(None, ('exc', 'Exception'), {'payload': {}, 'whole': bn})
                lines.append('| .raise %s σ =>' % bn)
            else:
                fields = EXC_TABLE[names[0]][1]
                if hn:
                    if hn in env:
                        self.fail('exception name %s shadows a variable' % hn, s)
                    binders = ['%s_%s' % (hn, fn) for fn, _ in fields]
                    env_h[hn] = Bind(None, ('exc', con),
                                     {'payload': dict((fn, (bd, ty)) for (fn, ty), bd in zip(fields, binders))})
                else:
                    binders = ['_' for _ in fields]
                pat = '.%s' % con if not fields else '(.%s %s)' % (con, ' '.join(binders))
                lines.append('| .raise %s σ =>' % pat)
            lines += ind([cm] + self.block(h.body, env_h, kh, ctl))
        if not catch_all:
            lines.append('| .raise e_ σ => .raise e_ σ')
        lines.append('| .nofuel => .nofuel')
        return lines

    # -- the function --------------------------------------------------------------------------
    def translate(self):
        fd = self.fd
        sig = self.unit['sigs'][self.fname]
        a = fd.args
        if a.vararg or a.kwarg or a.kwonlyargs or a.posonlyargs or a.defaults or \
                [x.arg for x in a.args] != ['self'] + [n for n, _ in sig]:
            self.fail('signature differs from (self, %s)' % ', '.join(n for n, _ in sig), fd)
        if fd.decorator_list:
            self.fail('decorated method', fd)
        env = {}
        for n, t in sig:
            env[n] = Bind(self.mangle(n), t)
        st = self.unit['state']

        def endk(e):
            return ['.ok () σ']
        endk.trivial = True
        lines = self.block(fd.body, env, endk, Ctl())
        params = [self.pdecl()] + self.fuel_decl()
        params += ['(%s : %s)' % (self.mangle(n), lean_type(t)) for n, t in sig]
        params.append('(σ : %s)' % st)
        head = ['/-- `Monitor.%s` (py65/monitor.py), statement by statement. -/' % self.fname,
                'def %s %s : Flow %s Unit :=' % (self.fname, ' '.join(p for p in params if p), st)]
        return '\n\n'.join(self.aux + ['\n'.join(head + ind(lines))])


# ---------------------------------------------------------------------------------------
# the file
# ---------------------------------------------------------------------------------------

HEADER = '''/-
GENERATED by harness/py2lean_monmem.py from py65/monitor.py (class Monitor) -- do not edit.
Unit `memcmd`: %s.
Shallow embedding, statement by statement (the Python statement is quoted above its translation);
loops, comprehensions with memory reads, `try` bodies and join points are auxiliary functions
`<method>_for<n> / _comp<n> / _try<n> / _join<n>`; `self._fill(...)` is the GENERATED method of unit
`fill` (Py65/Gen/MonFillGen.lean).  Library / OS behaviour is the named helpers of
Py65/Model/MonMemRt.lean and MonGenRt.lean and of the hand models.
-/
import Py65.Model.MonMemRt
import Py65.Gen.MonFillGen

set_option linter.unusedVariables false

namespace Py65.Gen.MonMemGen
open Py65 Py65.Model Py65.Model.PyStr Py65.Model.ObsMem Py65.Model.AddrParser Py65.Model.MonMem Py65.Model.MonGenRt
open Py65.Model.MonMemRt
'''


def check_fill_sig(methods):
    fd = methods.get('_fill')
    if fd is None:
        raise Unsupported('method _fill is missing')
    a = fd.args
    if a.vararg or a.kwarg or a.kwonlyargs or a.posonlyargs or a.defaults or \
            [x.arg for x in a.args] != ['self'] + [n for n, _ in FILL_SIG]:
        raise Unsupported('_fill no longer has the signature (self, %s)' % ', '.join(n for n, _ in FILL_SIG),
                          fd, '_fill')


def translate_unit(methods):
    unit = UNIT
    M.check_facts('memcmd', unit, methods)
    check_fill_sig(methods)
    for f in unit['funcs']:
        if f not in methods:
            raise Unsupported('method %s is missing' % f)
    # a function needs fuel iff it calls _fill (whose while loop is fuel-bounded) or a function that does
    def calls(fd, name):
        return any(isinstance(n, ast.Call) and path_of(n.func) == ('self', name) for n in ast.walk(fd))
    fuel = dict((f, calls(methods[f], '_fill')) for f in unit['funcs'])
    for f in unit['funcs']:
        if any(isinstance(n, ast.While) for n in ast.walk(methods[f])):
            raise Unsupported('while loop in %s (unit memcmd has none on the pinned tree)' % f, methods[f], f)
    changed = True
    while changed:
        changed = False
        for f in unit['funcs']:
            if not fuel[f] and any(calls(methods[f], g) for g in unit['funcs'] if fuel[g]):
                fuel[f] = True
                changed = True
    chunks = []
    for f in unit['funcs']:
        text = MemFnTr('memcmd', unit, methods, f, fuel, {}).translate()
        chunks.append(re.sub(r'\bFlow MemSt\b', 'MFlow MemSt', text))
    what = ', '.join('Monitor.' + f for f in unit['funcs'])
    return HEADER % what + '\n' + '\n\n'.join(chunks) + '\n\nend %s\n' % unit['ns']


def main():
    ap = argparse.ArgumentParser()
    ap.add_argument('--out', required=True)
    ap.add_argument('--report', default=None)
    ap.add_argument('--source', default=None, help='monitor.py (default: $PY65_REPO/py65/monitor.py)')
    args = ap.parse_args()
    src = args.source or os.path.join(os.environ.get('PY65_REPO', '/repo'), 'py65', 'monitor.py')
    r = {'ok': False, 'file': UNIT['file'], 'functions': UNIT['funcs']}
    report = {'ok': False, 'source': src, 'units': {'memcmd': r}, 'written': []}
    rc = 0
    try:
        data = open(src, 'rb').read()
        report['source_sha256'] = hashlib.sha256(data).hexdigest()
        tree = ast.parse(data.decode('utf-8'), filename=src)
        _, methods = M.class_methods(tree, src)
        text = translate_unit(methods)
        r['ok'] = True
        os.makedirs(args.out, exist_ok=True)
        p = os.path.join(args.out, UNIT['file'])
        old = open(p).read() if os.path.exists(p) else None
        if old != text:
            with open(p, 'w') as f:
                f.write(text)
            report['written'].append(UNIT['file'])
    except Unsupported as ex:
        rc = 3
        r['error'] = report['error'] = ex.msg
        if ex.func:
            r['function'] = report['function'] = ex.func
        r['where'] = report['where'] = ('%s:%d' % (src, ex.node.lineno)) if ex.node is not None and \
            hasattr(ex.node, 'lineno') else src
        sys.stderr.write('py2lean_monmem: unit memcmd unsupported: %s\n' % ex.msg)
    except (SyntaxError, OSError, UnicodeDecodeError) as ex:
        rc = 3
        r['error'] = report['error'] = str(ex)
        r['where'] = report['where'] = src
    report['ok'] = rc == 0
    if args.report:
        with open(args.report, 'w') as f:
            json.dump(report, f, indent=1)
    sys.exit(rc)


if __name__ == '__main__':
    main()
