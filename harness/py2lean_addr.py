#!/usr/bin/env python3
"""py2lean_addr -- translate `py65/utils/addressing.py` (class AddressParser) to Lean 4.

    py2lean_addr.py --out <dir> --report <json>      (PY65_REPO or --repo names the source tree)

Emits `<dir>/AddrParserGen.lean` (namespace `Py65.Gen.AddrParserGen`): a shallow embedding that
follows the Python statement by statement.  The source is parsed with `ast`, so comments,
docstrings, blank lines and formatting never matter; the output is deterministic (no timestamp, no
source hash inside the file) and local variables keep their Python names (Lean binders are named
from the Python names, `end` becomes `«end»`).

Scheme
  * the object is a structure `Self` with one field per attribute assigned anywhere in the class
    (types from ATTR_TYPES; an attribute not in that table is a refusal: extra state);
  * `__init__` and property setters are state transformers (`Self → … → Self`); every other method
    must not assign to `self` (else refusal) and becomes a function of `self` and its parameters;
  * a method that can raise returns `M α = Except Exc α` (`PyRt.raise`, `PyRt.tryExcept`,
    `>>=` in CPython evaluation order: a raising sub-expression is hoisted into a bind, left to
    right); a method that cannot raise returns its value directly;
  * a directly self-recursive method gets a fuel parameter (`numberF`) and a wrapper that supplies
    `PyRt.recursionLimit`;
  * `if` is an `if` expression; when both arms fall through, the variables they assign are joined
    in a tuple (`phi`); when exactly one arm falls through, the rest of the block goes into it;
  * `if m:` on the result of `re.match` is a `match m with | some m => … | none => …`;
  * library calls are mapped to the named helpers of `lean/Py65/Model/PyRt.lean` / `PyStr.lean`; a
    regular expression is mapped only when its exact pattern string is in REGEXES.

Anything outside the enumerated subset raises Refuse -> exit code 3 and
`{"ok": false, "error": …, "where": "file:line", "function": …}` in the report.
"""
import argparse
import ast
import hashlib
import json
import os
import sys

SRC_REL = os.path.join('py65', 'utils', 'addressing.py')
CLASS = 'AddressParser'
OUT_NAME = 'AddrParserGen.lean'
NS = 'Py65.Gen.AddrParserGen'

# --- tables: what is accepted by name -----------------------------------------------------------

REGEXES = {   # exact pattern string -> (Lean scanner, number of groups; all groups always participate)
    r'^([^\s+-]+)\s*([+\-])\s*([$+%]?[0-9a-fA-F]+)$': ('PyRt.reMatchLabelOffset', 3),
    r'^([^:,]+)\s*[:,]+\s*([^:,]+)$': ('PyRt.reMatchRange', 2),
}
EXCS = {'ValueError': 'Exc.valueError', 'KeyError': 'Exc.keyError', 'OverflowError': 'Exc.overflowError'}
ATTR_TYPES = {'radix': 'nat', '_maxwidth': 'nat', '_maxaddr': 'int', 'labels': 'labels'}
SIGS = {      # method -> (types of the positional parameters after self, return type)
    '__init__': (['nat', 'nat', 'labels'], 'self'),
    '_get_maxwidth': ([], 'nat'),
    '_set_maxwidth': (['nat'], 'self'),
    'address_for': (['str', 'optint'], 'optint'),
    'label_for': (['int', 'optstr'], 'optstr'),
    'number': (['str'], 'int'),
    'range': (['str'], ('tuple', ('int', 'int'))),
    '_constrain': (['int'], 'int'),
}
LEAN_KEYWORDS = {
    'end', 'from', 'at', 'match', 'fun', 'let', 'in', 'do', 'then', 'else', 'if', 'have', 'show', 'by',
    'open', 'local', 'prefix', 'infix', 'notation', 'def', 'theorem', 'where', 'with', 'namespace',
    'section', 'structure', 'inductive', 'instance', 'class', 'deriving', 'import', 'export', 'mutual',
    'macro', 'syntax', 'using', 'calc', 'return', 'for', 'unless', 'try', 'catch', 'finally', 'Type',
    'Prop', 'Sort', 'forall', 'exists', 'private', 'protected', 'noncomputable', 'partial', 'unsafe',
    'attribute', 'universe', 'variable', 'example', 'axiom', 'abbrev', 'opaque', 'set_option', 'omit',
    'include', 'suffices', 'obtain', 'nomatch', 'nofun', 'termination_by', 'decreasing_by', 'extends',
    'break', 'continue', 'mut', 'this', 'matches', 'is', 'hiding', 'renaming', 'instance', 'fun', 'λ',
}
RESERVED_BINDERS = {'fuel', 'item', 'phi', 'r'}


class Refuse(Exception):
    def __init__(self, msg, node=None, func=None):
        Exception.__init__(self, msg)
        self.msg, self.node, self.func = msg, node, func


def lean_type(t):
    if isinstance(t, tuple) and t[0] == 'tuple':
        return '(' + ' × '.join(lean_type(x) for x in t[1]) + ')'
    return {'nat': 'Nat', 'int': 'Int', 'str': 'Str', 'labels': 'Labels', 'optint': 'Option Int',
            'optstr': 'Option Str', 'self': 'Self'}[t]


def blank_of(t):
    return {'nat': '0', 'int': '0', 'labels': '[]', 'str': '[]'}[t]


def lean_char(c):
    o = ord(c)
    if c == "'":
        return "'\\''"
    if c == '\\':
        return "'\\\\'"
    if 32 <= o < 127:
        return "'%s'" % c
    return '(Char.ofNat %d)' % o


def lean_str(s):
    if not s:
        return '([] : Str)'
    return '[' + ', '.join(lean_char(c) for c in s) + ']'


def ident(name):
    if name in LEAN_KEYWORDS:
        return '«%s»' % name
    return name


def indent(text, n=2):
    pad = ' ' * n
    return '\n'.join(pad + l if l else l for l in text.split('\n'))


def is_self(node):
    return isinstance(node, ast.Name) and node.id == 'self'


def is_self_attr(node):
    return isinstance(node, ast.Attribute) and is_self(node.value)


def terminates(stmts):
    """Every path through the statement list ends in return / raise."""
    if not stmts:
        return False
    s = stmts[-1]
    if isinstance(s, (ast.Return, ast.Raise)):
        return True
    if isinstance(s, ast.If):
        return terminates(s.body) and terminates(s.orelse)
    if isinstance(s, ast.Try):
        return terminates(s.body) and all(terminates(h.body) for h in s.handlers) and not s.orelse \
            and not s.finalbody
    return False


# --- class level ---------------------------------------------------------------------------------

class Method(object):
    def __init__(self, cls, fd):
        self.cls, self.fd, self.name = cls, fd, fd.name
        a = fd.args
        if a.vararg or a.kwarg or a.kwonlyargs or a.posonlyargs or fd.decorator_list or fd.returns:
            raise Refuse('unsupported signature / decorator', fd, self)
        names = [x.arg for x in a.args]
        if not names or names[0] != 'self':
            raise Refuse('first parameter must be self', fd, self)
        if fd.name not in SIGS:
            raise Refuse('no signature is declared for method %s (new method: not in the accepted set)'
                         % fd.name, fd, self)
        ptypes, self.rtype = SIGS[fd.name]
        self.params = names[1:]
        if len(self.params) != len(ptypes):
            raise Refuse('method %s takes %d parameters, declared signature has %d'
                         % (fd.name, len(self.params), len(ptypes)), fd, self)
        for p in self.params:
            if p in RESERVED_BINDERS or p == 'self':
                raise Refuse('parameter name %s is reserved by the translator' % p, fd, self)
        self.ptypes = list(ptypes)
        nd = len(a.defaults)
        if nd > len(self.params):
            raise Refuse('self has a default value', fd, self)
        self.defaults = [None] * (len(self.params) - nd) + list(a.defaults)
        # filled by the analysis
        self.calls = set()        # method names called (incl. through map and property access)
        self.reads, self.writes = set(), set()
        self.raises = False
        self.recursive = False
        self.mutator = False

    @property
    def lean(self):
        return '%s.%s' % (NS, self.name)


class ClassTr(object):
    def __init__(self, tree, path):
        self.path = path
        self.props = {}       # property name -> (getter, setter)
        self.methods = {}
        self.order = []
        cd = None
        for i, st in enumerate(tree.body):
            if isinstance(st, ast.Expr) and isinstance(st.value, ast.Constant) and isinstance(st.value.value, str):
                continue
            if isinstance(st, ast.Import) and [(n.name, n.asname) for n in st.names] == [('re', None)]:
                continue
            if isinstance(st, ast.ClassDef) and st.name == CLASS and cd is None:
                cd = st
                continue
            raise Refuse('unsupported module-level statement: %s' % type(st).__name__, st)
        if cd is None:
            raise Refuse('class %s not found' % CLASS)
        if cd.decorator_list or cd.keywords or not (
                len(cd.bases) == 1 and isinstance(cd.bases[0], ast.Name) and cd.bases[0].id == 'object'):
            raise Refuse('class %s must derive from object only, no decorators / metaclass' % CLASS, cd)
        prop_nodes = []
        for st in cd.body:
            if isinstance(st, ast.Expr) and isinstance(st.value, ast.Constant) and isinstance(st.value.value, str):
                continue
            if isinstance(st, ast.FunctionDef):
                if st.name in self.methods:
                    raise Refuse('method %s defined twice' % st.name, st)
                self.methods[st.name] = Method(self, st)
                continue
            if isinstance(st, ast.Assign) and len(st.targets) == 1 and isinstance(st.targets[0], ast.Name) \
                    and isinstance(st.value, ast.Call) and isinstance(st.value.func, ast.Name) \
                    and st.value.func.id == 'property' and len(st.value.args) == 2 and not st.value.keywords \
                    and all(isinstance(x, ast.Name) for x in st.value.args):
                prop_nodes.append(st)
                continue
            raise Refuse('unsupported class-level statement: %s' % type(st).__name__, st)
        for st in prop_nodes:
            g, s = st.value.args[0].id, st.value.args[1].id
            for x in (g, s):
                if x not in self.methods:
                    raise Refuse('property accessor %s is not a method of the class' % x, st)
            if self.methods[g].params or len(self.methods[s].params) != 1:
                raise Refuse('property accessors have the wrong arity', st)
            name = st.targets[0].id
            if name in self.methods or name in self.props:
                raise Refuse('property %s shadows another class attribute' % name, st)
            self.props[name] = (g, s)
        self.setters = set(s for _, s in self.props.values())
        # attributes = fields of Self
        fields = {}
        for m in self.methods.values():
            for n in ast.walk(m.fd):
                if is_self_attr(n) and isinstance(n.ctx, (ast.Store, ast.Del)):
                    if isinstance(n.ctx, ast.Del):
                        raise Refuse('del self.%s' % n.attr, n, m)
                    if n.attr in self.props:
                        continue
                    if n.attr in self.methods:
                        raise Refuse('assignment to self.%s shadows a method' % n.attr, n, m)
                    if n.attr not in ATTR_TYPES:
                        raise Refuse('unknown instance attribute self.%s (extra state is not modelled)'
                                     % n.attr, n, m)
                    fields[n.attr] = ATTR_TYPES[n.attr]
        self.fields = dict(sorted(fields.items()))
        self.analyse()

    # -- static analysis: calls, reads/writes, raises, recursion, mutators ---------------------

    def analyse(self):
        for m in self.methods.values():
            for n in ast.walk(m.fd):
                if is_self_attr(n):
                    a = n.attr
                    if isinstance(n.ctx, ast.Store):
                        if a in self.props:
                            m.calls.add(self.props[a][1])
                            m.mutator = True
                        else:
                            m.writes.add(a)
                            m.mutator = True
                    elif a in self.props:
                        m.calls.add(self.props[a][0])
                    elif a in self.methods:
                        m.calls.add(a)
                    elif a in self.fields:
                        m.reads.add(a)
                    else:
                        raise Refuse('unknown attribute self.%s' % a, n, m)
                if isinstance(n, ast.Subscript) and isinstance(n.ctx, ast.Store):
                    if is_self_attr(n.value) and n.value.attr in self.fields:
                        m.writes.add(n.value.attr)
                        m.mutator = True
                    else:
                        raise Refuse('item assignment to something that is not an attribute of self', n, m)
                if isinstance(n, ast.Raise):
                    m.raises = True
                if isinstance(n, ast.Call) and isinstance(n.func, ast.Name) and n.func.id == 'int':
                    m.raises = True
                if isinstance(n, ast.Subscript) and isinstance(n.ctx, ast.Load) and not isinstance(n.slice, ast.Slice):
                    m.raises = True
            if m.name in m.calls:
                m.recursive = True
                m.raises = True
        changed = True
        while changed:
            changed = False
            for m in self.methods.values():
                for c in m.calls:
                    cm = self.methods[c]
                    if cm.raises and not m.raises:
                        m.raises = changed = True
                    if cm.mutator and not m.mutator:
                        m.mutator = changed = True
                    for attr, src in (('reads', cm.reads), ('writes', cm.writes)):
                        s = getattr(m, attr)
                        if not src <= s:
                            s |= src
                            changed = True
        for m in self.methods.values():
            if m.mutator and m.name != '__init__' and m.name not in self.setters:
                raise Refuse('method %s changes the state of the parser (writes %s); only __init__ and property '
                             'setters are modelled as state changes' % (m.name, ', '.join(sorted(m.writes)) or '?'),
                             m.fd, m)
            if m.mutator and m.rtype != 'self':
                raise Refuse('state-changing method %s must be declared to return self' % m.name, m.fd, m)
            if not m.mutator and m.rtype == 'self':
                raise Refuse('method %s no longer assigns any attribute' % m.name, m.fd, m)
        if '__init__' not in self.methods:
            raise Refuse('class has no __init__')
        # emission order: callees first; cycles other than direct self-recursion are refused
        state = {}

        def visit(name, stack):
            if state.get(name) == 2:
                return
            if state.get(name) == 1:
                raise Refuse('mutually recursive methods: %s' % ' -> '.join(stack + [name]),
                             self.methods[name].fd, self.methods[name])
            state[name] = 1
            for c in sorted(self.methods[name].calls, key=lambda x: self.methods[x].fd.lineno):
                if c != name:
                    visit(c, stack + [name])
            state[name] = 2
            self.order.append(name)
        for name in sorted(self.methods, key=lambda x: self.methods[x].fd.lineno):
            visit(name, [])

    # -- emission ------------------------------------------------------------------------------

    def emit(self):
        out = [HEADER, 'import Py65.Model.PyRt', '', 'set_option linter.unusedVariables false', '',
               'namespace %s' % NS, 'open Py65.Model Py65.Model.PyStr Py65.Model.AddrParser Py65.Model.PyRt', '']
        out.append('/-- The instance attributes of an `AddressParser` (every `self.<name> = …` of the class). -/')
        out.append('structure Self where')
        for f, t in self.fields.items():
            out.append('  %s : %s' % (f, lean_type(t)))
        out.append('  deriving DecidableEq, Repr')
        out.append('')
        out.append('/-- The object before `__init__` has run (the translator checks that `__init__` assigns every '
                   'field before it is read). -/')
        out.append('def Self.blank : Self := { %s }' % ', '.join('%s := %s' % (f, blank_of(t))
                                                                 for f, t in self.fields.items()))
        out.append('')
        for name in self.order:
            out.append(FuncTr(self, self.methods[name]).emit())
            out.append('')
        out.append('end %s' % NS)
        return '\n'.join(out) + '\n'


HEADER = '''/-
GENERATED by harness/py2lean_addr.py from py65/utils/addressing.py -- DO NOT EDIT.
Regenerated from the current source tree by every `bin/check C15` run; the committed copy is the
translation of the pinned tree.  Tied to the hand model by Py65/Proofs/AddrParserGenEq.lean.
Library behaviour (int(), re.match, dict, str methods, exceptions) = the named helpers of
Py65/Model/PyRt.lean; everything else below is computed from the Python AST.
-/'''


# --- one function --------------------------------------------------------------------------------

class FuncTr(object):
    def __init__(self, cls, m):
        self.cls, self.m = cls, m
        self.ntmp = 0
        self.monadic = m.raises

    def refuse(self, msg, node=None):
        raise Refuse(msg, node if node is not None else self.m.fd, self.m)

    def tmp(self):
        self.ntmp += 1
        return 't%d' % self.ntmp

    # -- helpers -----------------------------------------------------------------------------

    def ret(self, text):
        return 'pure %s' % text if self.monadic else text

    def coerce(self, text, t, want, node):
        if t == want:
            return text
        if t == 'nat' and want == 'int':
            return '((%s : Nat) : Int)' % text
        if (t, want) in (('str', 'optstr'), ('int', 'optint')):
            return '(some %s)' % text
        if t == 'none' and want in ('optint', 'optstr'):
            return 'none'
        self.refuse('type mismatch: have %s, need %s' % (t, want), node)

    def wrap_pre(self, pre, body):
        """pre = [(binder, monadic term)] in evaluation order."""
        for b, term in reversed(pre):
            body = '%s >>= fun %s =>\n%s' % (term, b, body)
        return body

    def comment(self, node, head_only=False):
        try:
            txt = ast.unparse(node)
        except Exception:
            return ''
        if head_only:
            txt = txt.split('\n')[0]
        return ''.join('-- py: %s\n' % l for l in txt.split('\n'))

    # -- expressions -------------------------------------------------------------------------

    def need(self, pre, node, what):
        if pre is None:
            self.refuse('%s in a position where a raising call is not supported (short-circuit / loop test)'
                        % what, node)
        if not self.monadic:
            self.refuse('%s in a method analysed as non-raising' % what, node)

    def expr(self, node, env, pre, expect=None):
        """-> (atomic Lean text, type).  Raising sub-expressions are hoisted into `pre`."""
        if isinstance(node, ast.Constant):
            v = node.value
            if v is None:
                if expect in ('optint', 'optstr'):
                    return 'none', expect
                return 'none', 'none'
            if isinstance(v, bool):
                self.refuse('boolean constant', node)
            if isinstance(v, int):
                if expect == 'nat':
                    if v < 0:
                        self.refuse('negative constant where a natural number is needed', node)
                    return '%d' % v, 'nat'
                return '(%d : Int)' % v, 'int'
            if isinstance(v, str):
                return lean_str(v), 'str'
            self.refuse('constant of type %s' % type(v).__name__, node)
        if isinstance(node, ast.Name):
            if node.id not in env:
                self.refuse('unknown name %s' % node.id, node)
            return env[node.id]
        if isinstance(node, ast.Attribute):
            if is_self(node.value):
                a = node.attr
                if a in self.cls.props:
                    g = self.cls.methods[self.cls.props[a][0]]
                    self.check_assigned(g.reads, env, node)
                    return '(%s self)' % g.name, g.rtype
                if a in self.cls.fields:
                    self.check_assigned({a}, env, node)
                    return 'self.%s' % a, self.cls.fields[a]
                self.refuse('self.%s used as a value' % a, node)
            self.refuse('attribute access .%s' % node.attr, node)
        if isinstance(node, ast.Subscript):
            base, bt = self.expr(node.value, env, pre)
            if isinstance(node.slice, ast.Slice):
                sl = node.slice
                if bt != 'str' or sl.upper is not None or sl.step is not None or not (
                        isinstance(sl.lower, ast.Constant) and isinstance(sl.lower.value, int)
                        and not isinstance(sl.lower.value, bool) and sl.lower.value >= 0):
                    self.refuse('only s[<non-negative literal>:] slices of strings are supported', node)
                return '(PyRt.sliceFrom %s %d)' % (base, sl.lower.value), 'str'
            if bt != 'labels':
                self.refuse('subscript of a %s' % bt, node)
            k, kt = self.expr(node.slice, env, pre)
            if kt != 'str':
                self.refuse('dictionary key of type %s' % kt, node)
            self.need(pre, node, 'd[k]')
            t = self.tmp()
            pre.append((t, 'PyRt.dictGetItem %s %s' % (base, k)))
            return t, 'int'
        if isinstance(node, ast.BinOp):
            if isinstance(node.op, (ast.Add, ast.Sub)):
                l, lt = self.expr(node.left, env, pre)
                r, rt = self.expr(node.right, env, pre)
                l = self.coerce(l, lt, 'int', node.left)
                r = self.coerce(r, rt, 'int', node.right)
                return '(%s %s %s)' % (l, '+' if isinstance(node.op, ast.Add) else '-', r), 'int'
            self.refuse('binary operator %s' % type(node.op).__name__, node)
        if isinstance(node, ast.UnaryOp):
            if isinstance(node.op, ast.Not):
                return '(¬ %s)' % self.cond(node.operand, env), 'prop'
            if isinstance(node.op, ast.USub) and isinstance(node.operand, ast.Constant) \
                    and isinstance(node.operand.value, int) and not isinstance(node.operand.value, bool):
                return '(%d : Int)' % -node.operand.value, 'int'
            self.refuse('unary operator %s' % type(node.op).__name__, node)
        if isinstance(node, ast.BoolOp):
            parts = [self.cond(v, env) for v in node.values]    # no raising calls under short-circuit
            return '(' + (' ∨ ' if isinstance(node.op, ast.Or) else ' ∧ ').join(parts) + ')', 'prop'
        if isinstance(node, ast.Compare):
            return self.compare(node, env, pre)
        if isinstance(node, ast.Tuple):
            parts = [self.expr(e, env, pre) for e in node.elts]
            if len(parts) < 2:
                self.refuse('tuple of fewer than two elements', node)
            return '(' + ', '.join(p[0] for p in parts) + ')', ('tuple', tuple(p[1] for p in parts))
        if isinstance(node, ast.Call):
            return self.call(node, env, pre, expect)
        if isinstance(node, ast.Dict) and not node.keys:
            return '([] : Labels)', 'labels'
        self.refuse('unsupported expression: %s' % type(node).__name__, node)

    def cond(self, node, env):
        """A test as a decidable Prop.  No raising call inside."""
        t, ty = self.expr(node, env, None)
        if ty == 'prop':
            return t
        if ty == 'bool':
            return '(%s = true)' % t
        self.refuse('truth value of a %s' % (ty,), node)

    def compare(self, node, env, pre):
        if len(node.ops) != 1:
            self.refuse('chained comparison', node)
        op, a, b = node.ops[0], node.left, node.comparators[0]
        if isinstance(op, (ast.In, ast.NotIn)):
            k, kt = self.expr(a, env, pre)
            d, dt = self.expr(b, env, pre)
            if kt != 'str' or dt != 'labels':
                self.refuse('`in` is supported for a string key and the label dictionary only', node)
            t = '(PyRt.dictIn %s %s = true)' % (k, d)
            return (t if isinstance(op, ast.In) else '(¬ %s)' % t), 'prop'
        ops = {ast.Lt: '<', ast.Gt: '>', ast.LtE: '≤', ast.GtE: '≥', ast.Eq: '=', ast.NotEq: '≠'}
        if type(op) not in ops:
            self.refuse('comparison operator %s' % type(op).__name__, node)
        l, lt = self.expr(a, env, pre)
        r, rt = self.expr(b, env, pre)
        if lt == 'str' and rt == 'str':
            if not isinstance(op, (ast.Eq, ast.NotEq)):
                self.refuse('ordering comparison of strings', node)
        else:
            l = self.coerce(l, lt, 'int', a)
            r = self.coerce(r, rt, 'int', b)
        return '(%s %s %s)' % (l, ops[type(op)], r), 'prop'

    def method_args(self, cm, args, keywords, env, pre, node):
        if keywords:
            self.refuse('keyword arguments', node)
        if len(args) > len(cm.params):
            self.refuse('too many arguments for %s' % cm.name, node)
        out = []
        for i, p in enumerate(cm.params):
            if i < len(args):
                t, ty = self.expr(args[i], env, pre, cm.ptypes[i])
            elif cm.defaults[i] is not None:
                t, ty = '%s.default_%s' % (cm.name, p), cm.ptypes[i]
            else:
                self.refuse('missing argument %s of %s' % (p, cm.name), node)
            out.append(self.coerce(t, ty, cm.ptypes[i], node))
        return out

    def method_call(self, name, args, keywords, env, pre, node):
        """self.<name>(args) for a non-mutating method -> (text, type)."""
        cm = self.cls.methods[name]
        if cm.mutator:
            self.refuse('state-changing method %s called in an expression' % name, node)
        self.check_assigned(cm.reads, env, node)
        a = self.method_args(cm, args, keywords, env, pre, node)
        if name == self.m.name:
            head = '%sF fuel self' % name
        else:
            head = '%s self' % name
        text = ' '.join([head] + a)
        if cm.raises:
            self.need(pre, node, 'call of the raising method %s' % name)
            t = self.tmp()
            pre.append((t, text))
            return t, cm.rtype
        return '(%s)' % text, cm.rtype

    def call(self, node, env, pre, expect):
        f = node.func
        if isinstance(f, ast.Attribute) and is_self(f.value):
            if f.attr not in self.cls.methods:
                self.refuse('call of unknown method self.%s' % f.attr, node)
            return self.method_call(f.attr, node.args, node.keywords, env, pre, node)
        if node.keywords:
            self.refuse('keyword arguments', node)
        if isinstance(f, ast.Name):
            if f.id in env or f.id == 'self':
                self.refuse('call of a local name', node)
            if f.id == 'int' and len(node.args) == 2:
                s, st = self.expr(node.args[0], env, pre)
                b, bt = self.expr(node.args[1], env, pre, 'nat')
                if st != 'str' or bt != 'nat':
                    self.refuse('int(x, base) needs a string and a natural-number base', node)
                self.need(pre, node, 'int()')
                t = self.tmp()
                pre.append((t, 'PyRt.int %s %s' % (s, b)))
                return t, 'int'
            if f.id == 'pow' and len(node.args) == 2:
                a, at = self.expr(node.args[0], env, pre)
                b, bt = self.expr(node.args[1], env, pre, 'nat')
                if bt != 'nat':
                    self.refuse('pow(a, b) needs a natural-number exponent', node)
                a = self.coerce(a, at, 'int', node)
                return '(%s ^ %s)' % (a, b), 'int'
            self.refuse('call of %s with %d arguments is not in the accepted set' % (f.id, len(node.args)), node)
        if isinstance(f, ast.Attribute):
            if isinstance(f.value, ast.Name) and f.value.id == 're' and 're' not in env:
                if f.attr != 'match' or len(node.args) != 2:
                    self.refuse('re.%s' % f.attr, node)
                p = node.args[0]
                if not (isinstance(p, ast.Constant) and isinstance(p.value, str)):
                    self.refuse('the pattern of re.match must be a string literal', node)
                if p.value not in REGEXES:
                    self.refuse('regular expression %r is not in the translator\'s table' % p.value, node)
                fn, n = REGEXES[p.value]
                s, st = self.expr(node.args[1], env, pre)
                if st != 'str':
                    self.refuse('re.match on a %s' % (st,), node)
                return '(%s %s)' % (fn, s), ('optmatch', n)
            o, ot = self.expr(f.value, env, pre)
            if f.attr == 'startswith' and ot == 'str' and len(node.args) == 1:
                a, at = self.expr(node.args[0], env, pre)
                if at != 'str':
                    self.refuse('startswith needs a string', node)
                return '(PyStr.startsWith %s %s)' % (o, a), 'bool'
            if f.attr == 'groups' and isinstance(ot, tuple) and ot[0] == 'match':
                if len(node.args) > 1 or (node.args and not isinstance(node.args[0], ast.Constant)):
                    self.refuse('groups() takes at most a literal default', node)
                return o, ('tuple', ('str',) * ot[1])
            if f.attr == 'groups' and isinstance(ot, tuple) and ot[0] == 'optmatch':
                self.refuse('.groups() on a match result that was not tested (may be None)', node)
            if f.attr == 'get' and ot == 'labels' and len(node.args) == 2:
                k, kt = self.expr(node.args[0], env, pre)
                d, dt = self.expr(node.args[1], env, pre, 'optint')
                if kt != 'str':
                    self.refuse('dictionary key of type %s' % kt, node)
                d = self.coerce(d, dt, 'optint', node)
                return '(PyRt.dictGet %s %s %s)' % (o, k, d), 'optint'
            self.refuse('method .%s on a %s is not in the accepted set' % (f.attr, ot), node)
        self.refuse('unsupported call', node)

    def check_assigned(self, attrs, env, node):
        asg = env.get('#assigned')
        if asg is not None:
            missing = sorted(set(attrs) - asg)
            if missing:
                self.refuse('self.%s is read before __init__ has assigned it' % missing[0], node)

    # -- statements --------------------------------------------------------------------------

    def bind_name(self, env, name, text_ty, node):
        if name == 'self' or name in RESERVED_BINDERS or name.startswith('t') and name[1:].isdigit():
            self.refuse('local name %s is reserved by the translator' % name, node)
        env[name] = (ident(name), text_ty)

    def assign_self(self, env, attr, text, ty, node):
        """-> line(s) updating self."""
        if not self.m.mutator:
            self.refuse('assignment to self.%s outside a state-changing method' % attr, node)
        if attr in self.cls.props:
            sm = self.cls.methods[self.cls.props[attr][1]]
            if sm.raises:
                self.refuse('raising property setter', node)
            if sm.name == self.m.name:
                self.refuse('property setter assigns its own property', node)
            self.check_assigned(sm.reads, env, node)
            v = self.coerce(text, ty, sm.ptypes[0], node)
            line = 'let self := %s self %s' % (sm.name, v)
            written = sm.writes
        else:
            v = self.coerce(text, ty, self.cls.fields[attr], node)
            line = 'let self := { self with %s := %s }' % (attr, v)
            written = {attr}
        if env.get('#assigned') is not None:
            if env.get('#depth', 0) == 0:
                env['#assigned'] = env['#assigned'] | set(written)
        return line

    def assigned_names(self, stmts):
        names = []
        for s in stmts:
            for n in ast.walk(s):
                if isinstance(n, ast.Name) and isinstance(n.ctx, ast.Store) and n.id not in names:
                    names.append(n.id)
        return names

    def mutates_self(self, stmts):
        for s in stmts:
            for n in ast.walk(s):
                if is_self_attr(n) and isinstance(n.ctx, ast.Store):
                    return True
                if isinstance(n, ast.Subscript) and isinstance(n.ctx, ast.Store):
                    return True
                if isinstance(n, ast.Call) and isinstance(n.func, ast.Attribute) and is_self(n.func.value) \
                        and n.func.attr in self.cls.methods and self.cls.methods[n.func.attr].mutator:
                    return True
        return False

    def can_raise(self, stmts):
        for s in stmts:
            for n in ast.walk(s):
                if isinstance(n, (ast.Raise, ast.Try)):
                    return True
                if isinstance(n, ast.Call) and isinstance(n.func, ast.Name) and n.func.id == 'int':
                    return True
                if isinstance(n, ast.Subscript) and isinstance(n.ctx, ast.Load) and not isinstance(n.slice, ast.Slice):
                    return True
                if isinstance(n, ast.Attribute) and is_self(n.value) and n.attr in self.cls.methods \
                        and self.cls.methods[n.attr].raises:
                    return True
        return False

    def block(self, stmts, env, after):
        """Translate a statement list followed by `after(env)` (None = end of the function body).
        Returns the text of a term of the function's result type."""
        if not stmts:
            if after is not None:
                return after(env)
            if self.m.mutator:
                return self.ret('self')
            self.refuse('control can fall off the end of the method (it would return None)')
        s, rest = stmts[0], stmts[1:]

        def cont(env2):
            return self.block(rest, env2, after)

        def no_rest(what):
            if rest:
                self.refuse('unreachable statement after %s' % what, rest[0])

        if isinstance(s, ast.Pass):
            return cont(env)
        if isinstance(s, ast.Expr):
            if isinstance(s.value, ast.Constant) and isinstance(s.value.value, str):
                return cont(env)
            v = s.value
            if isinstance(v, ast.Call) and isinstance(v.func, ast.Attribute) and is_self(v.func.value) \
                    and v.func.attr in self.cls.methods:
                cm = self.cls.methods[v.func.attr]
                pre = []
                if cm.mutator:
                    if cm.raises or not self.m.mutator or cm.name == '__init__':
                        self.refuse('call of the state-changing method %s here' % cm.name, s)
                    self.check_assigned(cm.reads, env, s)
                    a = self.method_args(cm, v.args, v.keywords, env, pre, s)
                    line = 'let self := ' + ' '.join(['%s self' % cm.name] + a)
                    if env.get('#assigned') is not None and env.get('#depth', 0) == 0:
                        env['#assigned'] = env['#assigned'] | cm.writes
                else:
                    self.method_call(cm.name, v.args, v.keywords, env, pre, s)
                    line = None
                body = cont(env)
                if line:
                    body = line + '\n' + body
                return self.comment(s) + self.wrap_pre(pre, body)
            self.refuse('expression statement that is not a method call', s)
        if isinstance(s, ast.Return):
            no_rest('return')
            if self.m.mutator:
                if s.value is not None:
                    self.refuse('a state-changing method returns a value', s)
                return self.comment(s) + self.ret('self')
            if s.value is None:
                self.refuse('bare return (None)', s)
            pre = []
            t, ty = self.expr(s.value, env, pre, self.m.rtype)
            t = self.coerce(t, ty, self.m.rtype, s)
            if pre and pre[-1][0] == t:
                # `return <raising call>`: the call itself is the result
                last = pre.pop()
                return self.comment(s) + self.wrap_pre(pre, last[1])
            return self.comment(s) + self.wrap_pre(pre, self.ret(t))
        if isinstance(s, ast.Raise):
            no_rest('raise')
            return self.comment(s) + self.raise_(s, env)
        if isinstance(s, ast.Assign):
            return self.comment(s) + self.assign(s, env, cont)
        if isinstance(s, ast.If):
            return self.if_(s, env, rest, after, cont)
        if isinstance(s, ast.For):
            return self.for_(s, env, cont)
        if isinstance(s, ast.Try):
            return self.try_(s, env, rest)
        self.refuse('unsupported statement: %s' % type(s).__name__, s)

    def raise_(self, s, env):
        if s.cause is not None or s.exc is None:
            self.refuse('raise … from / bare raise', s)
        if not self.monadic:
            self.refuse('raise in a method analysed as non-raising', s)
        e = s.exc
        args = []
        if isinstance(e, ast.Call) and isinstance(e.func, ast.Name) and not e.keywords:
            name, args = e.func.id, e.args
        elif isinstance(e, ast.Name):
            name = e.id
        else:
            self.refuse('raise of something that is not an exception class', s)
        if name not in EXCS or name in env:
            self.refuse('exception class %s is not in the accepted set' % name, s)
        for a in args:       # the message is not modelled, but it must be harmless to evaluate
            self.message(a, env)
        return 'PyRt.raise %s' % EXCS[name]

    def message(self, a, env):
        if isinstance(a, ast.Constant) and isinstance(a.value, (str, int)):
            return
        if isinstance(a, ast.Name) and a.id in env:
            return
        if isinstance(a, ast.BinOp) and isinstance(a.op, ast.Mod) and isinstance(a.left, ast.Constant) \
                and isinstance(a.left.value, str) and a.left.value.count('%') == 1 \
                and ('%s' in a.left.value or '%r' in a.left.value) and isinstance(a.right, ast.Name) \
                and a.right.id in env:
            return
        self.refuse('exception argument is not a literal, a local name or "…%s…" % name', a)

    def assign(self, s, env, cont):
        pre = []
        lines = []
        v = s.value
        tgt0 = s.targets[0]
        # a, b = map(self.m, <tuple>)
        if isinstance(v, ast.Call) and isinstance(v.func, ast.Name) and v.func.id == 'map' and 'map' not in env:
            if len(s.targets) != 1 or not isinstance(tgt0, ast.Tuple) or len(v.args) != 2 or v.keywords \
                    or not all(isinstance(e, ast.Name) for e in tgt0.elts):
                self.refuse('map(...) is supported only as `a, b = map(self.method, <tuple>)`', s)
            fn = v.args[0]
            if not (isinstance(fn, ast.Attribute) and is_self(fn.value) and fn.attr in self.cls.methods):
                self.refuse('map over something that is not a method of self', s)
            tup, tt = self.expr(v.args[1], env, pre)
            if not (isinstance(tt, tuple) and tt[0] == 'tuple') or len(tt[1]) != len(tgt0.elts):
                self.refuse('cannot unpack: map over %s into %d names' % (tt, len(tgt0.elts)), s)
            cm = self.cls.methods[fn.attr]
            if len(cm.params) != 1 or cm.mutator:
                self.refuse('map needs a one-parameter, non-state-changing method', s)
            n = len(tgt0.elts)
            results = []
            for i in range(n):      # the iterator is consumed left to right by the unpacking
                proj = self.proj(tup, i, n)
                arg = ast.Name(id='#proj', ctx=ast.Load())
                env2 = dict(env)
                env2['#proj'] = (proj, tt[1][i])
                results.append(self.method_call(cm.name, [arg], [], env2, pre, s))
            for e, (t, ty) in zip(tgt0.elts, results):
                lines.append('let %s := %s' % (ident(e.id), t))
                self.bind_name(env, e.id, ty, s)
            return self.wrap_pre(pre, '\n'.join(lines + [cont(env)]))
        t, ty = self.expr(v, env, pre, None)
        direct = None
        if pre and pre[-1][0] == t and len(s.targets) == 1 and isinstance(tgt0, ast.Name):
            direct = tgt0.id     # `x = <raising call>`: bind the result under the Python name
        for tgt in s.targets:
            if isinstance(tgt, ast.Name):
                if ty in ('prop', 'bool', 'none', 'self') or (isinstance(ty, tuple) and ty[0] == 'match'):
                    self.refuse('assignment of a %s to a local name' % (ty,), s)
                if direct:
                    self.bind_name(env, tgt.id, ty, s)
                    pre[-1] = (ident(tgt.id), pre[-1][1])
                else:
                    self.bind_name(env, tgt.id, ty, s)
                    lines.append('let %s := %s' % (ident(tgt.id), t))
            elif isinstance(tgt, ast.Tuple):
                if not all(isinstance(e, ast.Name) for e in tgt.elts):
                    self.refuse('nested unpacking', s)
                if not (isinstance(ty, tuple) and ty[0] == 'tuple') or len(ty[1]) != len(tgt.elts):
                    self.refuse('cannot unpack a %s into %d names' % (ty, len(tgt.elts)), s)
                n = len(tgt.elts)
                src = t
                if not t.isidentifier():
                    src = self.tmp()
                    lines.append('let %s := %s' % (src, t))
                for i, e in enumerate(tgt.elts):
                    self.bind_name(env, e.id, ty[1][i], s)
                for i, e in enumerate(tgt.elts):
                    lines.append('let %s := %s' % (ident(e.id), self.proj(src, i, n)))
                    if i + 1 < n and ident(e.id) == src:
                        self.refuse('unpacking a name into itself', s)
            elif is_self_attr(tgt):
                lines.append(self.assign_self(env, tgt.attr, t, ty, s))
            elif isinstance(tgt, ast.Subscript) and is_self_attr(tgt.value) and tgt.value.attr in self.cls.fields \
                    and self.cls.fields[tgt.value.attr] == 'labels' and not isinstance(tgt.slice, ast.Slice):
                if not self.m.mutator:
                    self.refuse('item assignment outside a state-changing method', s)
                a = tgt.value.attr
                self.check_assigned({a}, env, s)
                k, kt = self.expr(tgt.slice, env, None)
                if kt != 'str':
                    self.refuse('dictionary key of type %s' % kt, s)
                val = self.coerce(t, ty, 'int', s)
                lines.append('let self := { self with %s := PyRt.dictSetItem self.%s %s %s }' % (a, a, k, val))
            else:
                self.refuse('unsupported assignment target', s)
        return self.wrap_pre(pre, '\n'.join(lines + [cont(env)]))

    def proj(self, t, i, n):
        if n == 1:
            return t
        return '%s%s' % (t, '.2' * i + ('.1' if i < n - 1 else ''))

    def if_(self, s, env, rest, after, cont):
        body, orelse = s.body, s.orelse
        tb, te = terminates(body), terminates(orelse)
        # the test
        mt = None
        if isinstance(s.test, ast.Name) and s.test.id in env and isinstance(env[s.test.id][1], tuple) \
                and env[s.test.id][1][0] == 'optmatch':
            mt = s.test.id
            mname, mty = env[mt]
            env_b = dict(env)
            env_b[mt] = (mname, ('match', mty[1]))
            env_e = dict(env)
            env_e.pop(mt)      # it is None there

            def mk(b, e):
                return '(match %s with\n| some %s =>\n%s\n| none =>\n%s)' % (mname, mname, indent(b), indent(e))
        else:
            c = self.cond(s.test, env)
            env_b, env_e = dict(env), dict(env)

            def mk(b, e):
                return '(if %s then\n%s\nelse\n%s)' % (c, indent(b), indent(e))
        head = '-- py: if %s:\n' % ast.unparse(s.test)
        for e_ in (env_b, env_e):
            e_['#depth'] = env.get('#depth', 0) + 1
        depth = env.get('#depth', 0)

        def restore(e_):
            e_ = dict(e_)
            e_['#depth'] = depth
            return e_
        if tb and te:
            if rest:
                self.refuse('unreachable statement after an if whose arms both return/raise', rest[0])
            return head + mk(self.block(body, env_b, None), self.block(orelse, env_e, None))
        if tb != te:
            # exactly one arm falls through: the rest of the block continues inside it
            if tb:
                b = self.block(body, env_b, None)
                e = self.block(orelse, env_e, lambda e2: cont(restore(e2)))
            else:
                b = self.block(body, env_b, lambda e2: cont(restore(e2)))
                e = self.block(orelse, env_e, None)
            return head + mk(b, e)
        # both arms fall through: join the assigned variables
        names = []
        for n in self.assigned_names(body) + self.assigned_names(orelse):
            if n not in names:
                names.append(n)
        mut = self.mutates_self(body) or self.mutates_self(orelse)
        if mut and env.get('#assigned') is not None:
            pass    # conditional writes do not count as definite assignments (depth > 0)
        monadic = self.can_raise(body) or self.can_raise(orelse)
        joined = {}

        def arm_end(which):
            def k(e2):
                vals = []
                for n in names:
                    if n not in e2:
                        self.refuse('%s is assigned in only one arm of the if and has no value before it' % n, s)
                    if n in joined and joined[n] != e2[n][1]:
                        self.refuse('%s has different types in the two arms of the if' % n, s)
                    joined[n] = e2[n][1]
                    vals.append(e2[n][0])
                if mut:
                    vals.append('self')
                if not vals:
                    self.refuse('an if whose arms have no effect', s)
                t = vals[0] if len(vals) == 1 else '(' + ', '.join(vals) + ')'
                return ('pure %s' % t) if monadic else t
            return k
        sub = self
        save = self.monadic
        if not monadic:
            self.monadic = False     # no raising call may appear in the arms
        try:
            b = sub.block(body, env_b, arm_end('body'))
            e = sub.block(orelse, env_e, arm_end('else'))
        finally:
            self.monadic = save
        for n in names:
            if isinstance(joined[n], tuple) and joined[n][0] in ('match', 'optmatch'):
                self.refuse('a match object flows out of an if', s)
        allv = [ident(n) for n in names] + (['self'] if mut else [])
        env2 = dict(env)
        for n in names:
            self.bind_name(env2, n, joined[n], s)
        lines = []
        if len(allv) == 1:
            binder = allv[0]
        else:
            binder = 'phi'
            for i, n in enumerate(allv):
                lines.append('let %s := %s' % (n, self.proj('phi', i, len(allv))))
        tail = '\n'.join(lines + [cont(env2)])
        if monadic:
            if not self.monadic:
                self.refuse('raising statement in a method analysed as non-raising', s)
            return head + '%s >>= fun %s =>\n%s' % (mk(b, e), binder, tail)
        return head + 'let %s := %s\n%s' % (binder, mk(b, e), tail)

    def for_(self, s, env, cont):
        if s.orelse:
            self.refuse('for … else', s)
        it = s.iter
        if not (isinstance(it, ast.Call) and isinstance(it.func, ast.Attribute) and it.func.attr == 'items'
                and not it.args and not it.keywords):
            self.refuse('only `for k, v in <labels>.items()` loops are supported', s)
        d, dt = self.expr(it.func.value, env, None)
        if dt != 'labels':
            self.refuse('.items() of a %s' % (dt,), s)
        tg = s.target
        if not (isinstance(tg, ast.Tuple) and len(tg.elts) == 2 and all(isinstance(e, ast.Name) for e in tg.elts)):
            self.refuse('loop target must be two names', s)
        kname, vname = tg.elts[0].id, tg.elts[1].id
        if kname == vname:
            self.refuse('loop target repeats a name', s)
        env_l = dict(env)
        env_l['#depth'] = env.get('#depth', 0) + 1
        self.bind_name(env_l, kname, 'str', s)
        self.bind_name(env_l, vname, 'int', s)
        binds = 'let %s := item.1\nlet %s := item.2\n' % (ident(kname), ident(vname))
        head = '-- py: for %s in %s:\n' % (ast.unparse(tg), ast.unparse(it))
        # form A: search loop   for k, v in d.items(): if c: return e
        if len(s.body) == 1 and isinstance(s.body[0], ast.If) and not s.body[0].orelse \
                and len(s.body[0].body) == 1 and isinstance(s.body[0].body[0], ast.Return) \
                and s.body[0].body[0].value is not None and not self.m.mutator:
            i = s.body[0]
            c = self.cond(i.test, env_l)
            t, ty = self.expr(i.body[0].value, env_l, None, self.m.rtype)
            t = self.coerce(t, ty, self.m.rtype, i)
            f = '(fun item =>\n%s)' % indent(binds + '-- py: if %s: %s\n(if %s then some %s else none)'
                                            % (ast.unparse(i.test), ast.unparse(i.body[0]), c, t))
            return head + '(match List.findSome? %s %s with\n| some r =>\n%s\n| none =>\n%s)' % (
                f, d, indent(self.ret('r')), indent(cont(env)))
        # form B: the loop updates self
        if not self.m.mutator:
            self.refuse('a loop in a method that does not change the state must be a search loop '
                        '(`for … : if c: return e`)', s)
        for n in ast.walk(s):
            if isinstance(n, (ast.Return, ast.Break, ast.Continue)):
                self.refuse('return / break / continue inside a state-updating loop', n)
        if self.can_raise(s.body):
            if not self.monadic:
                self.refuse('raising loop body in a method analysed as non-raising', s)
            body = self.block(s.body, env_l, lambda e2: 'pure self')
            return head + 'List.foldlM (fun self item =>\n%s) self %s >>= fun self =>\n%s' % (
                indent(binds + body), d, cont(env))
        save = self.monadic
        self.monadic = False
        try:
            body = self.block(s.body, env_l, lambda e2: 'self')
        finally:
            self.monadic = save
        return head + 'let self := List.foldl (fun self item =>\n%s) self %s\n%s' % (indent(binds + body), d, cont(env))

    def try_(self, s, env, rest):
        if s.orelse or s.finalbody or len(s.handlers) != 1:
            self.refuse('try with else / finally / several handlers', s)
        h = s.handlers[0]
        if h.name is not None or not isinstance(h.type, ast.Name) or h.type.id not in EXCS or h.type.id in env:
            self.refuse('only `except <ValueError|KeyError|OverflowError>:` without `as` is supported', h)
        if not (terminates(s.body) and terminates(h.body)):
            self.refuse('try: both the body and the handler must end in return / raise on every path', s)
        if rest:
            self.refuse('unreachable statement after try', rest[0])
        if self.m.mutator:
            self.refuse('try inside a state-changing method', s)
        if not self.monadic:
            self.refuse('try in a method analysed as non-raising', s)
        body = self.block(s.body, dict(env), None)
        handler = self.block(h.body, dict(env), None)
        return '-- py: try:\n(PyRt.tryExcept (\n%s)\n  -- py: except %s:\n  %s (\n%s))' % (
            indent(body), h.type.id, EXCS[h.type.id], indent(handler))

    # -- the whole function ------------------------------------------------------------------

    def emit(self):
        m = self.m
        env = {'self': ('self', 'self')}
        for p, t in zip(m.params, m.ptypes):
            env[p] = (ident(p), t)
        if m.name == '__init__':
            env['#assigned'] = set()
        env['#depth'] = 0
        rt = lean_type(m.rtype)
        if self.monadic:
            rt = 'M %s' % (rt if ' ' not in rt or rt.startswith('(') else '(%s)' % rt)
        out = []
        for p, t, d in zip(m.params, m.ptypes, m.defaults):
            if d is None:
                continue
            dv = self.default_value(d, t)
            out.append('/-- default of the parameter `%s` of `%s` -/' % (p, m.name))
            out.append('def %s.default_%s : %s := %s' % (m.name, p, lean_type(t), dv))
        doc = '/-- `%s.%s(%s)`%s -/' % (CLASS, m.name, ', '.join(['self'] + m.params),
                                       ' -- state transformer' if m.mutator else '')
        body = self.block(m.fd.body, env, None)
        if m.name == '__init__':
            missing = sorted(set(self.cls.fields) - env['#assigned'])
            # `env` is shared along the straight-line path, so this is what the top level assigned
            if missing:
                self.refuse('__init__ does not assign self.%s unconditionally' % missing[0])
        params = ' '.join('(%s : %s)' % (ident(p), lean_type(t)) for p, t in zip(m.params, m.ptypes))
        if m.name == '__init__':
            out.append(doc)
            out.append('def %s %s : %s :=' % (m.name, params, rt))
            out.append('  let self := Self.blank')
            out.append(indent(body))
        elif m.recursive:
            pats = ', '.join([ident(p) for p in m.params])
            tys = ' → '.join(lean_type(t) for t in m.ptypes)
            out.append('/-- `%s` with an explicit bound on the depth of its self-recursion. -/' % m.name)
            out.append('def %sF : Nat → Self → %s → %s' % (m.name, tys, rt))
            out.append('  | 0, _, %s => PyRt.raise Exc.recursionError' % ', '.join('_' for _ in m.params))
            out.append('  | fuel + 1, self, %s =>' % pats)
            out.append(indent(body, 4))
            out.append(doc)
            out.append('def %s (self : Self) %s : %s := %sF PyRt.recursionLimit self %s'
                       % (m.name, params, rt, m.name, ' '.join(ident(p) for p in m.params)))
        else:
            out.append(doc)
            out.append('def %s (self : Self)%s : %s :=' % (m.name, (' ' + params) if params else '', rt))
            out.append(indent(body))
        return '\n'.join(out)

    def default_value(self, d, t):
        if isinstance(d, ast.Constant) and d.value is None and t in ('optint', 'optstr'):
            return 'none'
        if isinstance(d, ast.Constant) and isinstance(d.value, int) and not isinstance(d.value, bool) \
                and t in ('nat', 'int') and (d.value >= 0 or t == 'int'):
            return '%d' % d.value
        if isinstance(d, ast.Dict) and not d.keys and t == 'labels':
            return '[]'
        self.refuse('unsupported default value', d)


# --- driver --------------------------------------------------------------------------------------

def translate(path):
    src = open(path, 'rb').read()
    tree = ast.parse(src.decode('utf-8'), filename=path)
    cls = ClassTr(tree, path)
    return cls, cls.emit(), hashlib.sha256(src).hexdigest()


def main():
    ap = argparse.ArgumentParser()
    ap.add_argument('--out', required=True)
    ap.add_argument('--report', default=None)
    ap.add_argument('--repo', default=os.environ.get('PY65_REPO', '/repo'))
    ap.add_argument('--stdout', action='store_true', help='print the translation instead of writing it')
    args = ap.parse_args()
    path = os.path.join(args.repo, SRC_REL)
    report = {'ok': False, 'source': path}
    rc = 0
    try:
        cls, text, sha = translate(path)
        report['source_sha256'] = sha
        report['functions'] = len(cls.methods)
        report['methods'] = cls.order
        report['fields'] = list(cls.fields)
        report['files'] = [OUT_NAME]
        if args.stdout:
            sys.stdout.write(text)
        else:
            os.makedirs(args.out, exist_ok=True)
            p = os.path.join(args.out, OUT_NAME)
            old = open(p).read() if os.path.exists(p) else None
            report['written'] = []
            if old != text:
                with open(p, 'w') as f:
                    f.write(text)
                report['written'] = [OUT_NAME]
        report['ok'] = True
    except Refuse as ex:
        report['error'] = ex.msg
        if ex.func is not None:
            report['function'] = ex.func.lean
        if ex.node is not None and hasattr(ex.node, 'lineno'):
            report['where'] = '%s:%d' % (path, ex.node.lineno)
        sys.stderr.write('py2lean_addr: unsupported: %s%s\n' % (ex.msg, (' (%s)' % report.get('where'))
                                                                 if report.get('where') else ''))
        rc = 3
    except (SyntaxError, OSError, UnicodeDecodeError) as ex:
        report['error'] = 'cannot read/parse the source: %s' % ex
        report['where'] = '%s:%s' % (path, getattr(ex, 'lineno', 0) or 0)
        sys.stderr.write('py2lean_addr: %s\n' % report['error'])
        rc = 3
    if rc != 0 and not args.stdout:
        # do not leave a stale translation of some other source behind: the generated module is
        # replaced by a stub that does not build, so the GenEq / C15g obligations are reported
        # as not established for the current source
        try:
            os.makedirs(args.out, exist_ok=True)
            msg = (report.get('error') or '?').replace('-/', '- /').replace('"', "'")
            with open(os.path.join(args.out, OUT_NAME), 'w') as f:
                f.write(STUB % (msg, report.get('where') or '?'))
        except OSError:
            pass
    if args.report:
        with open(args.report, 'w') as f:
            json.dump(report, f, indent=1)
    sys.exit(rc)


STUB = '''/-
GENERATED by harness/py2lean_addr.py -- the translator REFUSED the current py65/utils/addressing.py:
  %s
  at %s
This stub deliberately does not build (the tie to the current source is broken).
-/
import Py65.Model.PyRt

py2lean_addr_refused_the_current_source
'''


if __name__ == '__main__':
    main()
