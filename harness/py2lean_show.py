#!/usr/bin/env python3
"""py2lean_show.py -- translator (tie 1) for the DISPLAY functions of py65 (C19).

    py2lean_show.py --out lean/Py65/Gen --report r.json [--units repr,show] [--repo <dir>]

Parses the source with `ast` only (comments, docstrings, blank lines and layout never matter; the code
is never imported) and emits one Lean file per UNIT, a shallow embedding that follows the Python
statement by statement (machinery of harness/py2lean_mon.py, class `FnTr`, extended here):

    repr  Py65/Gen/ReprGen.lean     py65/devices/mpu6502.py, mpu65c02.py, mpu65org16.py:
                                    `MPU.reprformat` of every class that defines one and `MPU.__repr__`
                                    as every one of the three device classes inherits it (the method
                                    resolution along the class statements is done here: which
                                    `__repr__`, which `reprformat`, the value of `self.name` after the
                                    chain of `__init__`s, the class constant `BYTE_WIDTH`)
    show  Py65/Gen/MonShowGen.lean  py65/monitor.py: Monitor._output_mpu_status, do_cycles, do_tilde,
                                    do_disassemble (range parsing and the walk) and the help texts
                                    help_tilde / help_disassemble they return

The units are independent.  Deterministic; no timestamps, no hashes in the Lean text.
Other TRANSLATED code is not re-translated here but enters as a parameter of the generated functions
(`itoa`, `mpurepr` = the device's `__repr__`, `iat` = `Disassembler.instruction_at`, `fmtdis` =
`Monitor._format_disassembly`); `Py65/Proofs/ReprGenEq.lean` instantiates the parameters with the
generated functions of Gen/DisasmGen.lean and Gen/ReprGen.lean.

Accepted subset = that of py2lean_mon.py (see there) plus:
  expressions  `|` `*`(str * int) and `2 ** <width attribute>` ; `%u` and `%0No` conversions;
               `str(int)`, `repr(self._mpu)`, `itoa(n[, base])`; `s.rjust(w, 'c')`, `s.zfill(w)`,
               `s.split('c')`; `self.reprformat()` (resolved statically to the constant the method
               returns); `self._disassembler.instruction_at(a)`, `self._format_disassembly(a, n, s)`;
               a comparison assigned to a name (a bool)
  statements   `return <value>` in a method with a declared result (`__repr__`, `reprformat`);
               `try` whose body calls functions raising a class known only at run time: the handlers are
               tried in order on the run-time class; an `if` whose arms assign and may raise (but do
               not return / break / continue) is joined again (`Flow.bind`) instead of duplicating the
               rest of the function.
Anything else -> exit 3 and {"ok": false, "error", "where", "function"} (a broken tie, never an
approximation).  Library behaviour = the named helpers of lean/Py65/Model/ShowRt.lean / MonGenRt.lean.
"""
import argparse
import ast
import hashlib
import json
import os
import re
import sys

HERE = os.path.dirname(os.path.abspath(__file__))
if HERE not in sys.path:
    sys.path.insert(0, HERE)
import py2lean_mon as M  # noqa: E402
from py2lean_mon import (Unsupported, NeedCPS, INT, BOOL, PROP, STR, CHAR, NONE, tlist, ttuple,  # noqa: E402
                         Val, Bind, Ctl, FnTr, lean_type, lean_strlist, ind, proj, unparse1, path_of)

EXC_CLASSES = ['IndexError', 'TypeError', 'ValueError', 'KeyError', 'OverflowError']   # MonGenRt.Exc (+ Other)
TEMPLATE_SPEC = re.compile(r'%(?:(%)|(0?)(\d*)([dsxXuo]))')

# attribute stores the facts of unit `show` rely on (additive to py2lean_mon's table; this process only)
M.STORE_SITES.update({'byteFmt': '_reset', '_disassembler': '_reset'})


# ---------------------------------------------------------------------------------------
# the extended function translator
# ---------------------------------------------------------------------------------------

class ShowTr(FnTr):
    """FnTr + the constructs of the display functions.  `leanname` / `doc` name the emitted definition;
    `unit['rets'][fname]` (optional) is the type of the value the method returns."""

    def __init__(self, unitname, unit, methods, fname, fuel_of, consts, leanname=None, doc=None):
        FnTr.__init__(self, unitname, unit, methods, fname, fuel_of, consts)
        self.leanname = leanname or fname
        self.doc = doc or '`Monitor.%s` (py65/monitor.py), statement by statement.' % fname

    def ret_type(self):
        return (self.unit.get('rets') or {}).get(self.fname)

    # -- expressions -----------------------------------------------------------------------
    def attr_val(self, p, node, env):
        a = self.unit['attrs'].get(p)
        if a is not None and a[0] == 'cfgnat':
            return Val('(%s : Int)' % a[1], INT, True, nat=a[1])
        return FnTr.attr_val(self, p, node, env)

    def binop(self, node, env, pre, ctl):
        if isinstance(node.op, (ast.Mult, ast.BitOr, ast.Pow)):
            l = self.ex(node.left, env, pre, ctl)
            r = self.ex(node.right, env, pre, ctl)
            if isinstance(node.op, ast.BitOr) and l.ty == INT and r.ty == INT:
                return Val('Py.lor %s %s' % (l.p(), r.p()), INT)
            if isinstance(node.op, ast.Mult) and l.ty == STR and r.ty == INT and l.text is not None:
                return Val('pyStrMul %s %s' % (l.p(), r.p()), STR)
            if isinstance(node.op, ast.Mult) and l.ty == INT and r.ty == INT:
                return Val('%s * %s' % (l.p(), r.p()), INT)
            if isinstance(node.op, ast.Pow) and l.ty == INT and r.ty == INT and 'nat' in r.static:
                # the exponent is a width constant of the device (a natural number)
                return Val('%s ^ %s' % (('(%s : Int)' % l.text) if l.atom else l.p(), r.static['nat']), INT)
            self.fail('operator %s on %s and %s' % (type(node.op).__name__, l.ty, r.ty), node)
        return FnTr.binop(self, node, env, pre, ctl)

    def percent(self, node, env, pre, ctl):
        """`template % args` with a template known statically: as py2lean_mon, plus %u and %0No"""
        l = self.ex(node.left, env, pre, ctl)
        if 'template' not in l.static:
            self.fail('% with a template that is not built from constants', node)
        r = self.ex(node.right, env, pre, ctl)
        if isinstance(r.ty, tuple) and r.ty[0] == 'tuple':
            n = len(r.ty[1])
            if 'items' in r.static:
                args = r.static['items']
            else:
                args = [Val('%s%s' % (r.text, proj(n, i)), r.ty[1][i], True) for i in range(n)]
        else:
            args = [r]
        parts, ai = [], 0
        for kind, x in l.static['template']:
            if kind == 'hexw':
                if ai >= len(args) or args[ai].ty != INT:
                    self.fail('format argument mismatch', node)
                parts.append('pyFmtX %s %s' % (x, args[ai].p()))
                ai += 1
                continue
            pos = 0
            for m in TEMPLATE_SPEC.finditer(x):
                if '%' in x[pos:m.start()]:
                    self.fail('unsupported conversion in the template %r' % x, node)
                if m.start() > pos:
                    parts.append(lean_strlist(x[pos:m.start()]))
                pos = m.end()
                if m.group(1):
                    parts.append(lean_strlist('%'))
                    continue
                zero, width, conv = m.group(2), m.group(3), m.group(4)
                if ai >= len(args):
                    self.fail('not enough arguments for the format template', node)
                a = args[ai]
                ai += 1
                if conv == 's' and not zero and not width and a.ty == STR and a.text is not None:
                    parts.append(a.p())
                elif conv == 's' and not zero and not width and a.ty == INT:
                    parts.append('pyFmtD %s' % a.p())
                elif conv in 'du' and not zero and not width and a.ty == INT:
                    parts.append('pyFmtD %s' % a.p())
                elif conv in 'xX' and a.ty == INT and (zero or not width):
                    parts.append('%s %d %s' % ('pyFmtX' if conv == 'x' else 'pyFmtUX', int(width or 0), a.p()))
                elif conv == 'o' and a.ty == INT and (zero or not width):
                    parts.append('pyFmtO %d %s' % (int(width or 0), a.p()))
                else:
                    self.fail('conversion %s applied to a %s' % (m.group(0), a.ty), node)
            if '%' in x[pos:]:
                self.fail('unsupported conversion in the template %r' % x, node)
            if pos < len(x):
                parts.append(lean_strlist(x[pos:]))
        if ai != len(args):
            self.fail('too many arguments for the format template', node)
        if not parts:
            return Val('([] : Str)', STR, True)
        return Val(' ++ '.join(parts), STR, len(parts) == 1 and parts[0].endswith('.toList'))

    def except_bind(self, call_text, ty, env, pre, ctl, node):
        """a call that raises an exception whose class is known only at run time: outside `try` it
        leaves the method; inside, the enclosing handlers are tried innermost first, in order"""
        self.need_flow(node, 'a call that can raise')
        if ctl.phi:
            raise NeedCPS()
        t = self.temp()
        if not ctl.hs:
            err = ['| .error e_ => .raise e_ σ']
        else:
            arms = []
            for h in ctl.hs:
                if None in h.names or 'Exception' in h.names or 'BaseException' in h.names:
                    arms.append((None, h))
                    break
                for n in h.names:
                    if n not in EXC_CLASSES:
                        self.fail('handler for an exception class outside the modelled ones (%s)' % n, node)
                arms.append((' ∨ '.join('e_ = .%s' % n for n in h.names), h))
            lines = None
            for cond, h in reversed(arms):
                body = ['-- except %s:' % ('/'.join(str(n) for n in h.names))] + \
                    self.block(h.body, env, h.after, h.ctl)
                if cond is None:
                    lines = body
                else:
                    lines = ['if %s then' % cond] + ind(body) + ['else'] + \
                        ind(lines if lines is not None else ['.raise e_ σ'])
            err = ['| .error e_ =>'] + ind(lines)

        def w(lines):
            return ['match %s with' % call_text] + err + ['| .ok %s =>' % t] + ind(lines)
        pre.append(w)
        return Val(t, ty, True)

    def param_call(self, pname, args, tys, rty, node, env, pre, ctl):
        self.args_plain(node, len(tys), pname)
        vs = []
        for a, t in zip(node.args, tys):
            v = self.ex(a, env, pre, ctl)
            if v.ty != t or v.text is None:
                self.fail('argument of type %s where %s is needed' % (v.ty, t), node)
            vs.append(v.p())
        return self.except_bind(' '.join([pname] + args + vs), rty, env, pre, ctl, node)

    def call_expr(self, node, env, pre, ctl):
        f = node.func
        pnames = [p for p, _ in self.unit['params']]
        if isinstance(f, ast.Name) and f.id not in env:
            if f.id == 'itoa' and 'itoa' in pnames:
                if node.keywords or not (1 <= len(node.args) <= 2):
                    self.fail('itoa takes (num[, base]) positionally', node)
                a = self.ex(node.args[0], env, pre, ctl)
                b = self.ex(node.args[1], env, pre, ctl) if len(node.args) == 2 else Val('10', INT, True)
                if a.ty != INT or b.ty != INT:
                    self.fail('itoa of %s, %s' % (a.ty, b.ty), node)
                return self.except_bind('itoa %s %s' % (a.p(), b.p()), STR, env, pre, ctl, node)
            if f.id == 'str':
                self.args_plain(node, 1, 'str')
                a = self.ex(node.args[0], env, pre, ctl)
                if a.ty != INT:
                    self.fail('str() of a %s' % (a.ty,), node)
                return Val('pyFmtD %s' % a.p(), STR)
            if f.id == 'repr' and 'mpurepr' in pnames:
                self.args_plain(node, 1, 'repr')
                p = self.resolve_path(node.args[0], env)
                a = self.unit['attrs'].get(p) if p else None
                if a is None or a[:2] != ('obj', 'mpu'):
                    self.fail('repr() of something other than the device', node)
                return self.except_bind('mpurepr σ.mpu', STR, env, pre, ctl, node)
        if isinstance(f, ast.Attribute):
            p = self.resolve_path(f, env)
            if p is not None:
                if p == ('self', 'reprformat') and 'reprformat' in self.consts:
                    self.args_plain(node, 0, 'reprformat')
                    lean, const = self.consts['reprformat']
                    return Val(lean, STR, True, const=const, template=[('lit', const)])
                if p == ('self', '_format_disassembly') and 'fmtdis' in pnames:
                    return self.param_call('fmtdis', ['σ.mpu'], [INT, INT, STR], STR, node, env, pre, ctl)
                owner = self.unit['attrs'].get(p[:-1])
                if owner is not None and owner[:2] == ('obj', 'disassembler') and p[-1] == 'instruction_at' \
                        and 'iat' in pnames:
                    return self.param_call('iat', ['σ.mpu'], [INT], ttuple([INT, STR]), node, env, pre, ctl)
            else:
                recv_node, m = f.value, f.attr
                if m in ('rjust', 'zfill', 'split'):
                    recv = self.ex(recv_node, env, pre, ctl)
                    if recv.ty != STR or recv.text is None:
                        self.fail('str.%s on a %s' % (m, recv.ty), node)
                    if m == 'rjust':
                        self.args_plain(node, 2, 'str.rjust')
                        w = self.ex(node.args[0], env, pre, ctl)
                        c = self.coerce(self.ex(node.args[1], env, pre, ctl), CHAR, node)
                        if w.ty != INT:
                            self.fail('str.rjust with a width of type %s' % (w.ty,), node)
                        return Val('pyRjust %s %s %s' % (recv.p(), w.p(), c.p()), STR)
                    if m == 'zfill':
                        self.args_plain(node, 1, 'str.zfill')
                        w = self.ex(node.args[0], env, pre, ctl)
                        if w.ty != INT:
                            self.fail('str.zfill with a width of type %s' % (w.ty,), node)
                        return Val('pyZfill %s %s' % (recv.p(), w.p()), STR)
                    self.args_plain(node, 1, 'str.split')
                    c = self.coerce(self.ex(node.args[0], env, pre, ctl), CHAR, node)
                    return Val('pySplitChar %s %s' % (c.p(), recv.p()), tlist(STR))
        return FnTr.call_expr(self, node, env, pre, ctl)

    # -- statements ------------------------------------------------------------------------
    def bind_name(self, env, name, v, node):
        if v.ty == PROP and v.text is not None:
            v = Val('decide (%s)' % v.text, BOOL)          # a comparison stored in a variable
        return FnTr.bind_name(self, env, name, v, node)

    def st_return(self, s, env, ctl):
        rt = self.ret_type()
        if rt is None or self.mode == 'pure':
            return FnTr.st_return(self, s, env, ctl)
        if ctl.phi:
            raise NeedCPS()
        if ctl.lc is not None:
            self.fail('return inside a loop', s)
        if s.value is None:
            self.fail('bare return in a value method', s)
        pre = []
        v = self.coerce(self.ex(s.value, env, pre, ctl), rt, s)
        if v.text is None:
            self.fail('return of a static-only value', s)
        return ['-- %s' % unparse1(s)] + self.wrap(pre, ['.ok (%s) σ' % v.text])

    @staticmethod
    def has_exit(stmts):
        for s in stmts:
            for n in FnTr.dfs(s):
                if isinstance(n, (ast.Return, ast.Break, ast.Continue, ast.Raise)):
                    return True
        return False

    def st_if(self, s, env, k, ctl):
        head = ['-- if %s:' % unparse1(s.test)]
        if self.narrowing(s.test, env):
            return FnTr.st_if(self, s, env, k, ctl)
        try:
            return self.if_phi(s, env, k, ctl, head)
        except NeedCPS:
            if ctl.phi:
                raise
        if self.mode == 'flow' and not ctl.hs and not self.has_exit(s.body + s.orelse):
            return self.if_join(s, env, k, ctl, head)
        pre = []
        c = self.cond(s.test, env, pre, ctl)
        lines = ['if %s then' % c] + ind(self.block(s.body, env, k, ctl)) + ['else'] + \
            ind(self.block(s.orelse, env, k, ctl))
        return head + self.wrap(pre, lines)

    def st_while(self, s, env, k, ctl):
        n, before = self.nloop + 1, len(self.aux)
        lines = FnTr.st_while(self, s, env, k, ctl)
        if self.nloop != n and len(self.aux) > before:
            # a nested loop was numbered in between: the doc comment of THIS loop must carry its own number
            self.aux[-1] = self.aux[-1].replace('(loop %d)' % self.nloop, '(loop %d)' % n, 1)
        return lines

    def st_try(self, s, env, k, ctl):
        lines = FnTr.st_try(self, s, env, k, ctl)
        lines[0] = lines[0].replace('every raise below is resolved statically',
                                    'a raise of a statically known class is resolved here, a class known only at '
                                    'run time is tested against the handlers in order')
        return lines

    def if_join(self, s, env, k, ctl, head):
        """both arms fall through (they may raise): the `if` is a Flow that yields the variables the arms
        assign; the rest of the function follows once, after `Flow.bind`"""
        def top_assigned(stmts):
            out = []
            for x in stmts:
                if isinstance(x, ast.Assign) and len(x.targets) == 1 and isinstance(x.targets[0], ast.Name):
                    out.append(x.targets[0].id)
            return out
        asg = self.assigned(s.body + s.orelse)
        names = [n for n in asg if n in env and env[n].lean is not None]
        new = [n for n in asg if n not in env and n in top_assigned(s.body) and n in top_assigned(s.orelse)]
        for n in asg:
            if n in env and env[n].lean is None:
                self.fail('a static-only variable (%s) is assigned under an if that can raise' % n, s)
        allv = names + new
        tys = {}

        def endk(e):
            for n in allv:
                if n not in e or e[n].lean is None:
                    self.fail('variable %s is not assigned on every path of the if' % n, s)
                if n in env and e[n].ty != env[n].ty:
                    self.fail('variable %s changes its type under the if' % n, s)
                if tys.setdefault(n, e[n].ty) != e[n].ty:
                    self.fail('variable %s gets different types in the two arms' % n, s)
            if not allv:
                return ['.ok () σ']
            if len(allv) == 1:
                return ['.ok %s σ' % e[allv[0]].lean]
            return ['.ok (%s) σ' % ', '.join(e[n].lean for n in allv)]
        pre = []
        c = self.cond(s.test, env, pre, ctl)
        a1 = self.block(s.body, env, endk, ctl)
        a2 = self.block(s.orelse, env, endk, ctl)
        st = self.unit['state']
        rty = 'Unit' if not allv else ' × '.join(lean_type(tys[n], False) for n in allv)
        lines = ['Flow.bind (show Flow %s (%s) from' % (st, rty), '  if %s then' % c] + ind(a1, 4) + ['  else'] + ind(a2, 4)
        lines[-1] = lines[-1] + ') fun %s σ =>' % ('phi_' if allv else '_')
        env2 = dict(env)
        for i, n in enumerate(allv):
            lean = env[n].lean if n in env else self.mangle(n)
            env2[n] = Bind(lean, tys[n])
            lines.append(self.let(lean, tys[n], 'phi_%s' % proj(len(allv), i)))
        return head + self.wrap(pre, lines + k(env2))

    # -- the function ----------------------------------------------------------------------
    def translate(self):
        fd = self.fd
        sig = self.unit['sigs'][self.fname]
        a = fd.args
        if a.vararg or a.kwarg or a.kwonlyargs or a.posonlyargs or a.defaults or \
                [x.arg for x in a.args] != ['self'] + [n for n, _ in sig]:
            self.fail('signature differs from (self%s)' % ''.join(', ' + n for n, _ in sig), fd)
        if fd.decorator_list:
            self.fail('decorated method', fd)
        env = {}
        for n, t in sig:
            env[n] = Bind(self.mangle(n), t)
        flow = self.mode == 'flow'
        st = self.unit['state']
        rt = self.ret_type()

        def endk(e):
            if flow and rt is None:
                return ['.ok () σ']
            self.fail('the function may fall off its end without a value', fd)
        lines = self.block(fd.body, env, endk, Ctl())
        params = [self.pdecl()]
        if flow and self.fuel_of[self.fname]:
            params.append('(fuel : Nat)')
        params += ['(%s : %s)' % (self.mangle(n), lean_type(t)) for n, t in sig]
        if flow:
            params.append('(σ : %s)' % st)
            res = 'Flow %s %s' % (st, 'Unit' if rt is None else lean_type(rt, False))
        else:
            res = lean_type(rt)
        head = ['/-- %s -/' % self.doc,
                'def %s %s: %s :=' % (self.leanname, ''.join(p + ' ' for p in params if p), res)]
        return '\n\n'.join(self.aux + ['\n'.join(head + ind(lines))])


# ---------------------------------------------------------------------------------------
# unit `show`: py65/monitor.py
# ---------------------------------------------------------------------------------------

SHOW_UNIT = dict(
    file='MonShowGen.lean', ns='Py65.Gen.MonShowGen', mode='flow', state='ShowSt',
    params=[('itoa', 'Int → Int → Except Exc Str'), ('mpurepr', 'St → Except Exc Str'),
            ('iat', 'St → Int → Except Exc (Int × Str)'), ('fmtdis', 'St → Int → Int → Str → Except Exc Str'),
            ('d', 'Dev'), ('P', 'Parser')],
    funcs=['help_tilde', 'help_disassemble', '_output_mpu_status', 'do_cycles', 'do_tilde', 'do_disassemble'],
    sigs={'help_tilde': [], 'help_disassemble': [], '_output_mpu_status': [], 'do_cycles': [('args', STR)],
          'do_tilde': [('args', STR)], 'do_disassemble': [('args', STR)]},
    attrs={
        ('self', 'byteFmt'): ('hexfmt', 'd.byteFmtW'),
        ('self', 'addrFmt'): ('hexfmt', 'd.addrFmtW'),
        ('self', '_mpu'): ('obj', 'mpu'),
        ('self', '_mpu', 'processorCycles'): ('field', ('mpu', 'cycles'), INT),
        ('self', '_mpu', 'ADDR_WIDTH'): ('cfgnat', 'd.AW'),
        ('self', '_address_parser'): ('obj', 'parser'),
        ('self', '_disassembler'): ('obj', 'disassembler'),
    },
    reset_facts=['self.byteFmt = self._mpu.BYTE_FORMAT', 'self.addrFmt = self._mpu.ADDR_FORMAT',
                 'self._address_parser = AddressParser(maxwidth=self.addrWidth)',
                 'self._disassembler = Disassembler(self._mpu, self._address_parser)'],
    init_facts=[],
    uses_output=True,
)
M.UNITS['show'] = SHOW_UNIT        # (this process only: check_facts / FnTr look the unit up by name)

SHOW_HEADER = '''/-
GENERATED by harness/py2lean_show.py from py65/monitor.py (class Monitor) -- do not edit.
Unit `show`: %s.
Shallow embedding, statement by statement (the Python statement is quoted above its translation);
library behaviour is the named helpers of Py65/Model/ShowRt.lean, MonGenRt.lean and of the hand models;
other translated code (`itoa`, the device's `__repr__`, `Disassembler.instruction_at`,
`Monitor._format_disassembly`) enters as the parameters `itoa`, `mpurepr`, `iat`, `fmtdis`.
Imported only by Py65/Proofs/ReprGenEq.lean and Py65/Props/C19g.lean.
-/
import Py65.Model.ShowRt

set_option linter.unusedVariables false

namespace Py65.Gen.MonShowGen
open Py65 Py65.Model Py65.Model.PyStr Py65.Model.AddrParser Py65.Model.MonMem Py65.Model.MonGenRt Py65.Model.ShowRt
'''


def itoa_import_fact(tree, fname):
    """`itoa` must be exactly the name imported by `from py65.utils.conversions import itoa`"""
    ok = False
    for n in tree.body:
        if isinstance(n, ast.ImportFrom) and n.module == 'py65.utils.conversions' and n.level == 0:
            for al in n.names:
                if al.name == 'itoa' and al.asname is None:
                    ok = True
    for n in ast.walk(tree):
        if isinstance(n, ast.Name) and n.id == 'itoa' and isinstance(n.ctx, (ast.Store, ast.Del)):
            ok = False
        if isinstance(n, (ast.FunctionDef, ast.ClassDef)) and n.name == 'itoa':
            ok = False
        if isinstance(n, (ast.Import, ast.ImportFrom)):
            for al in n.names:
                if (al.asname or al.name) == 'itoa' and not (isinstance(n, ast.ImportFrom) and
                                                             n.module == 'py65.utils.conversions' and al.name == 'itoa'):
                    ok = False
        if isinstance(n, ast.arg) and n.arg == 'itoa':
            ok = False
    if not ok:
        raise Unsupported('%s: `itoa` is not (only) `from py65.utils.conversions import itoa`' % fname)


def translate_show(repo):
    src = os.path.join(repo, 'py65', 'monitor.py')
    data = open(src, 'rb').read()
    tree = ast.parse(data.decode('utf-8'), filename=src)
    _, methods = M.class_methods(tree, src)
    unit = SHOW_UNIT
    M.check_facts('show', unit, methods)
    itoa_import_fact(tree, 'py65/monitor.py')
    for f in unit['funcs']:
        if f not in methods:
            raise Unsupported('method %s is missing' % f)
    # repr(self._mpu) is the builtin, str the builtin: no method / global of that name in the module
    for n in ast.walk(tree):
        if isinstance(n, (ast.FunctionDef, ast.ClassDef)) and n.name in ('repr', 'str', 'len', 'int') and \
                n not in methods.values():
            raise Unsupported('the module rebinds the builtin %s' % n.name, n)
        if isinstance(n, ast.Name) and n.id in ('repr', 'str') and isinstance(n.ctx, (ast.Store, ast.Del)):
            raise Unsupported('the module rebinds the builtin %s' % n.id, n)
    fuel = dict((f, any(isinstance(n, ast.While) for n in ast.walk(methods[f]))) for f in unit['funcs'])
    changed = True
    while changed:
        changed = False
        for f in unit['funcs']:
            if fuel[f]:
                continue
            for n in ast.walk(methods[f]):
                if isinstance(n, ast.Call) and path_of(n.func) and path_of(n.func)[0] == 'self' \
                        and len(path_of(n.func)) == 2 and fuel.get(path_of(n.func)[1]):
                    fuel[f] = True
                    changed = True
    chunks = [ShowTr('show', unit, methods, f, fuel, {}).translate() for f in unit['funcs']]
    what = ', '.join('Monitor.' + f for f in unit['funcs'])
    text = SHOW_HEADER % what + '\n' + '\n\n'.join(chunks) + '\n\nend Py65.Gen.MonShowGen\n'
    return text, {'monitor.py': hashlib.sha256(data).hexdigest()}, ['Monitor.' + f for f in unit['funcs']]


# ---------------------------------------------------------------------------------------
# unit `repr`: the device classes
# ---------------------------------------------------------------------------------------

DEVICES = [('dev6502', 'mpu6502', 'Mpu6502'), ('dev65c02', 'mpu65c02', 'Mpu65c02'),
           ('dev65org16', 'mpu65org16', 'Mpu65org16')]
REG_FIELDS = ['pc', 'a', 'x', 'y', 'sp', 'p']
WATCHED_ATTRS = ('name', 'BYTE_WIDTH', '__repr__', 'reprformat', '__str__', '__class__', '__dict__')
HOOKS = ('__getattr__', '__getattribute__', '__setattr__', '__init_subclass__', '__new__', '__format__')

REPR_HEADER = '''/-
GENERATED by harness/py2lean_show.py from py65/devices/mpu6502.py, mpu65c02.py, mpu65org16.py -- do not edit.
Unit `repr`: %s.
`MPU.reprformat` of every class that defines it, and `MPU.__repr__` as each of the three device classes
inherits it: the translator resolves, along the class statements, which `__repr__` and `reprformat` an
instance of the class uses, the value `__init__` leaves in `self.name`, and the class constant
`BYTE_WIDTH`.  Shallow embedding, statement by statement; the `%%`-template is split at its conversion
specifiers by the translator; library behaviour is the named helpers of Py65/Model/ShowRt.lean and
MonGenRt.lean; `itoa` (py65/utils/conversions.py, generated in Gen/DisasmGen.lean) is a parameter.
`σ : St` is the device instance (`self`).  Imported only by Py65/Proofs/ReprGenEq.lean and Py65/Props/C19g.lean.
-/
import Py65.Model.ShowRt

set_option linter.unusedVariables false

namespace Py65.Gen.ReprGen
open Py65 Py65.Model Py65.Model.PyStr Py65.Model.MonGenRt Py65.Model.ShowRt
'''


class DevClass(object):
    def __init__(self, modname, leanmod, path, tree, cls):
        self.modname, self.leanmod, self.path, self.tree, self.cls = modname, leanmod, path, tree, cls
        self.base = None
        self.methods = {}
        self.consts = {}


def load_device_classes(repo):
    classes, hashes = {}, {}
    for _, modname, leanmod in DEVICES:
        rel = 'py65/devices/%s.py' % modname
        try:
            load_device_class(repo, modname, leanmod, rel, classes, hashes)
        except Unsupported as ex:
            if not getattr(ex, 'file', None):
                ex.file = rel
            raise
    return classes, hashes


def load_device_class(repo, modname, leanmod, rel, classes, hashes):
    path = os.path.join(repo, rel)
    data = open(path, 'rb').read()
    hashes[rel] = hashlib.sha256(data).hexdigest()
    tree = ast.parse(data.decode('utf-8'), filename=path)
    cls = [n for n in tree.body if isinstance(n, ast.ClassDef)]
    if len(cls) != 1 or cls[0].name != 'MPU':
        raise Unsupported('%s: expected exactly one top-level class, MPU' % rel)
    c = cls[0]
    if c.decorator_list or c.keywords:
        raise Unsupported('%s: decorated class / metaclass' % rel, c)
    dc = DevClass(modname, leanmod, rel, tree, c)
    if modname == 'mpu6502':
        if [ast.unparse(b) for b in c.bases] not in ([], ['object']):
            raise Unsupported('%s: class MPU has unexpected bases' % rel, c)
    else:
        if [ast.unparse(b) for b in c.bases] != ['mpu6502.MPU']:
            raise Unsupported('%s: class MPU is not derived from exactly mpu6502.MPU' % rel, c)
        imp = [n for n in tree.body if isinstance(n, ast.ImportFrom) and n.module == 'py65.devices'
               and any(al.name == 'mpu6502' and al.asname is None for al in n.names)]
        if not imp:
            raise Unsupported('%s: `from py65.devices import mpu6502` is missing' % rel, c)
        for n in ast.walk(tree):
            if isinstance(n, ast.Name) and n.id == 'mpu6502' and isinstance(n.ctx, (ast.Store, ast.Del)):
                raise Unsupported('%s: the name mpu6502 is rebound' % rel, n)
        dc.base = 'mpu6502'
    for n in c.body:
        if isinstance(n, (ast.FunctionDef, ast.AsyncFunctionDef)):
            if n.name in dc.methods:
                raise Unsupported('%s: method %s is defined twice' % (rel, n.name), n, n.name)
            if n.name in HOOKS:
                raise Unsupported('%s: class MPU defines the hook %s' % (rel, n.name), n, n.name)
            dc.methods[n.name] = n
        elif isinstance(n, ast.Assign):
            for t in n.targets:
                for x in ast.walk(t):
                    if isinstance(x, ast.Name) and x.id in WATCHED_ATTRS:
                        if x.id == 'BYTE_WIDTH' and len(n.targets) == 1 and isinstance(t, ast.Name) and \
                                isinstance(n.value, ast.Constant) and isinstance(n.value.value, int) and \
                                not isinstance(n.value.value, bool) and 'BYTE_WIDTH' not in dc.consts:
                            dc.consts['BYTE_WIDTH'] = (n.value.value, n.lineno)
                        else:
                            raise Unsupported('%s: class-level (re)binding of %s' % (rel, x.id), n)
        elif isinstance(n, ast.ClassDef) or isinstance(n, (ast.AugAssign, ast.AnnAssign, ast.Delete)):
            for x in ast.walk(n):
                if isinstance(x, ast.Name) and x.id in WATCHED_ATTRS:
                    raise Unsupported('%s: class-level (re)binding of %s' % (rel, x.id), n)
    # nothing in the module stores to the attributes the translation resolves statically,
    # except `self.name = <const>` at the top level of __init__
    init = dc.methods.get('__init__')
    allowed = set()
    if init is not None:
        for s in init.body:
            if isinstance(s, ast.Assign) and len(s.targets) == 1 and path_of(s.targets[0]) == ('self', 'name'):
                allowed.add(id(s.targets[0]))
    for n in ast.walk(tree):
        if isinstance(n, ast.Attribute) and isinstance(n.ctx, (ast.Store, ast.Del)) and n.attr in WATCHED_ATTRS \
                and id(n) not in allowed:
            raise Unsupported('%s: store to the attribute .%s (resolved statically by the translation)'
                              % (rel, n.attr), n)
        if isinstance(n, ast.Call) and isinstance(n.func, ast.Name) and n.func.id in ('setattr', 'delattr', 'vars'):
            raise Unsupported('%s: %s() call (attributes are resolved statically)' % (rel, n.func.id), n)
        if isinstance(n, (ast.Global, ast.Nonlocal)):
            raise Unsupported('%s: global / nonlocal statement' % rel, n)
    # nothing after the class statement patches the class
    for n in tree.body:
        if n is c or isinstance(n, (ast.Import, ast.ImportFrom)):
            continue
        if isinstance(n, ast.Expr) and isinstance(n.value, ast.Constant):
            continue
        raise Unsupported('%s: module-level statement besides imports and class MPU' % rel, n)
    classes[modname] = dc


def mro(classes, modname):
    out = [classes[modname]]
    while out[-1].base:
        out.append(classes[out[-1].base])
    return out


def resolve_name(classes, modname):
    """the str constant `__init__` leaves in self.name for an instance of the class; (value, where)"""
    try:
        return resolve_name_(classes, modname)
    except Unsupported as ex:
        if not getattr(ex, 'file', None):
            ex.file = classes[modname].path
        raise


def resolve_name_(classes, modname):
    dc = classes[modname]
    init = dc.methods.get('__init__')
    if init is None:
        if not dc.base:
            raise Unsupported('%s: no __init__ sets self.name' % dc.path)
        return resolve_name(classes, dc.base)
    val = None
    for s in init.body:
        if isinstance(s, ast.Expr) and isinstance(s.value, ast.Call) and path_of(s.value.func) and \
                path_of(s.value.func)[-1] == '__init__':
            if dc.base and path_of(s.value.func) == (dc.base, 'MPU', '__init__') and \
                    ast.unparse(s.value) == '%s.MPU.__init__(self, *args, **kwargs)' % dc.base:
                val = resolve_name(classes, dc.base)
            else:
                raise Unsupported('%s: unexpected base-class __init__ call' % dc.path, s, '__init__')
        elif isinstance(s, ast.Assign) and len(s.targets) == 1 and path_of(s.targets[0]) == ('self', 'name'):
            if not (isinstance(s.value, ast.Constant) and isinstance(s.value.value, str)):
                raise Unsupported('%s: self.name is not assigned a str constant' % dc.path, s, '__init__')
            val = (s.value.value, '%s:%d' % (dc.path, s.lineno))
    if val is None:
        raise Unsupported('%s: __init__ does not set self.name' % dc.path, init, '__init__')
    return val


def translate_repr(repo):
    classes, hashes = load_device_classes(repo)
    itoa_import_fact(classes['mpu6502'].tree, 'py65/devices/mpu6502.py')
    chunks, funcs = [], []
    # (1) every class's own reprformat
    fmtconst = {}
    for _, modname, leanmod in DEVICES:
        dc = classes[modname]
        fd = dc.methods.get('reprformat')
        if fd is None:
            continue
        unit = dict(mode='pure', state=None, params=[], funcs=['reprformat'], sigs={'reprformat': []},
                    rets={'reprformat': STR}, attrs={}, uses_output=False)
        body = [s for s in fd.body if not (isinstance(s, ast.Expr) and isinstance(s.value, ast.Constant))]
        if len(body) != 1 or not isinstance(body[0], ast.Return) or body[0].value is None:
            raise Unsupported('%s: reprformat is not a single `return <str constant expression>`' % dc.path,
                              fd, 'reprformat')
        tr = ShowTr('repr', unit, dc.methods, 'reprformat', {'reprformat': False}, {},
                    leanname='%s.reprformat' % leanmod,
                    doc='`MPU.reprformat` (%s:%d), statement by statement.' % (dc.path, fd.lineno))
        v = tr.ex(body[0].value, {}, [], Ctl())
        if v.ty != STR or 'const' not in v.static:
            raise Unsupported('%s: reprformat does not return a str constant expression' % dc.path, fd, 'reprformat')
        fmtconst[modname] = ('%s.reprformat' % leanmod, v.static['const'])
        chunks.append(tr.translate())
        funcs.append('%s.MPU.reprformat' % modname)
    # (2) per device class: resolution + __repr__
    for dev, modname, leanmod in DEVICES:
        chain = mro(classes, modname)
        rdef = next((c for c in chain if '__repr__' in c.methods), None)
        fdef = next((c for c in chain if 'reprformat' in c.methods), None)
        bdef = next((c for c in chain if 'BYTE_WIDTH' in c.consts), None)
        if rdef is None or fdef is None or bdef is None:
            raise Unsupported('py65/devices/%s.py: __repr__ / reprformat / BYTE_WIDTH not found along the class '
                              'hierarchy' % modname)
        name, name_where = resolve_name(classes, modname)
        bw, bw_line = bdef.consts['BYTE_WIDTH']
        chunks.append(
            '/-- `self.name` of an instance of `py65.devices.%s.MPU`: the last `self.name = ...` its chain of\n'
            '`__init__`s executes (%s) -/\ndef %s.name : Str := %s\n\n'
            '/-- `self.BYTE_WIDTH` of an instance of `py65.devices.%s.MPU`: the class constant (%s:%d) -/\n'
            'def %s.BYTE_WIDTH : Int := %d'
            % (modname, name_where, dev, lean_strlist(name), modname, bdef.path, bw_line, dev, bw))
        unit = dict(mode='flow', state='St', params=[('itoa', 'Int → Int → Except Exc Str')],
                    funcs=['__repr__'], sigs={'__repr__': []}, rets={'__repr__': STR}, uses_output=False,
                    attrs=dict([(('self', r), ('field', (r,), INT)) for r in REG_FIELDS] +
                               [(('self', 'name'), ('cfg', '%s.name' % dev, STR)),
                                (('self', 'BYTE_WIDTH'), ('cfg', '%s.BYTE_WIDTH' % dev, INT))]))
        fd = rdef.methods['__repr__']
        tr = ShowTr('repr', unit, rdef.methods, '__repr__', {'__repr__': False},
                    {'reprformat': fmtconst[fdef.modname]}, leanname='%s.__repr__' % dev,
                    doc='`MPU.__repr__` (%s:%d) on an instance of `py65.devices.%s.MPU`, statement by statement;\n'
                        '`self.reprformat()` is `%s.reprformat` (%s:%d), split at its conversion specifiers.'
                        % (rdef.path, fd.lineno, modname, fdef.leanmod, fdef.path,
                           fdef.methods['reprformat'].lineno))
        try:
            chunks.append(tr.translate())
        except Unsupported as ex:
            ex.file = rdef.path
            raise
        funcs.append('%s.MPU.__repr__ [as %s]' % (rdef.modname, modname))
    what = ', '.join(funcs)
    text = REPR_HEADER % what + '\n' + '\n\n'.join(chunks) + '\n\nend Py65.Gen.ReprGen\n'
    return text, hashes, funcs


# ---------------------------------------------------------------------------------------

UNIT_FILES = {'repr': 'ReprGen.lean', 'show': 'MonShowGen.lean'}
UNIT_SRC = {'repr': 'py65/devices/mpu6502.py', 'show': 'py65/monitor.py'}
STUB = '''/- GENERATED by harness/py2lean_show.py -- the translator REFUSED the current source:
   %s
   (%s)
   This stub does not build on purpose: the tie by regeneration is broken. -/
#eval (show Nat from "py2lean_show refused the source")
'''


def main():
    ap = argparse.ArgumentParser()
    ap.add_argument('--out', required=True)
    ap.add_argument('--report', default=None)
    ap.add_argument('--units', default='repr,show')
    ap.add_argument('--repo', default=os.environ.get('PY65_REPO', '/repo'))
    args = ap.parse_args()
    report = {'ok': False, 'repo': args.repo, 'units': {}, 'written': [], 'source_sha256': {}}
    rc = 0
    for u in [x for x in args.units.split(',') if x]:
        if u not in UNIT_FILES:
            report['error'] = 'unknown unit %s' % u
            rc = 2
            continue
        r = {'ok': False, 'file': UNIT_FILES[u]}
        try:
            text, hashes, funcs = (translate_repr if u == 'repr' else translate_show)(args.repo)
            r['ok'] = True
            r['functions'] = funcs
            report['source_sha256'].update(hashes)
        except (Unsupported, SyntaxError, OSError, UnicodeDecodeError) as ex:
            msg = getattr(ex, 'msg', None) or str(ex)
            node = getattr(ex, 'node', None)
            src = getattr(ex, 'file', None) or (getattr(ex, 'filename', None) if isinstance(ex, SyntaxError) else None) \
                or UNIT_SRC[u]
            where = '%s:%d' % (src, node.lineno) if node is not None and hasattr(node, 'lineno') else \
                ('%s:%d' % (src, ex.lineno) if isinstance(ex, SyntaxError) and ex.lineno else src)
            r.update(error=msg, where=where)
            if getattr(ex, 'func', None):
                r['function'] = ex.func
            sys.stderr.write('py2lean_show: unit %s unsupported: %s (%s)\n' % (u, msg, where))
            text = STUB % (msg.replace('-/', '- /'), where)
            if rc == 0:
                rc = 3
                report['error'], report['where'] = msg, where
                if r.get('function'):
                    report['function'] = r['function']
        os.makedirs(args.out, exist_ok=True)
        p = os.path.join(args.out, UNIT_FILES[u])
        old = open(p).read() if os.path.exists(p) else None
        if old != text:
            with open(p, 'w') as f:
                f.write(text)
            report['written'].append(UNIT_FILES[u])
        report['units'][u] = r
    report['ok'] = rc == 0
    if args.report:
        with open(args.report, 'w') as f:
            json.dump(report, f, indent=1)
    sys.exit(rc)


if __name__ == '__main__':
    main()
