"""Which library helpers does a property's generated code call?  (used by harness/rtcheck.py)

The answer is derived from the Lean sources on every run, so it cannot go stale:

 1 the import closure of the property's LEAN_MODULES (files under lean/Py65 only);
 2 the START set: every definition of every `Py65/Gen/*.lean` file in that closure (the generated code) and of
   every hand-model file `Py65/Model/*.lean` in it that is not a vocabulary file;
 3 a definition-level call graph over the files `Py65/Gen/*`, `Py65/Model/*`, `Py65/PyInt.lean`,
   `Py65/Machine.lean`: a token of a definition body is resolved the way Lean resolves it (enclosing
   namespaces, `open`ed namespaces, `export`ed aliases, qualified suffixes); an unqualified token that the
   definition binds locally (`let x`, `fun x`, `(x : T)`, a pattern variable) is not a call;
 4 everything reachable from START.  Reached definitions that are in the registry of harness/rthelpers.py
   are the helpers to validate; reached definitions of a run-time vocabulary file (`*Rt*.lean`, `PyStr`,
   `PyData`, `PyInt`) that are neither registered nor listed as plumbing are reported as UNCLASSIFIED
   (evidence key `library_model_unclassified`) -- a new helper somebody added without a validation entry.
"""
import os
import re

HERE = os.path.dirname(os.path.abspath(__file__))
LEAN = os.path.join(os.path.dirname(HERE), 'lean')

IDENT = re.compile(r"[^\W\d][\w!?']*(?:\.[^\W\d][\w!?']*)*", re.U)
DECL = re.compile(r"^(?:@\[[^\]]*\]\s*)?((?:private\s+|protected\s+|partial\s+|noncomputable\s+)*)"
                  r"(def|abbrev|theorem|lemma|structure|inductive|instance|class|example)\b\s*([^\s:({\[]*)")
TOPLEVEL = re.compile(r"^(def|abbrev|theorem|lemma|structure|inductive|instance|class|example|namespace|end|section|"
                      r"open|export|variable|set_option|deriving|private|protected|partial|noncomputable|@\[|"
                      r"termination_by|decreasing_by|mutual|attribute|macro|syntax|elab|#)")


def strip_noise(src):
    """Remove comments, string and character literals; keep the line structure."""
    def blank(m):
        return re.sub(r'[^\n]', ' ', m.group(0))
    # nested block comments are not used in these files
    src = re.sub(r'/-.*?-/', blank, src, flags=re.S)
    out = []
    i, n = 0, len(src)
    while i < n:
        c = src[i]
        if c == '-' and src.startswith('--', i):
            j = src.find('\n', i)
            j = n if j < 0 else j
            i = j
            continue
        if c == '"':
            j = i + 1
            while j < n and src[j] != '"':
                j += 2 if src[j] == '\\' else 1
            out.append('""')
            i = j + 1
            continue
        if c == "'" and i + 2 < n and not (i > 0 and (src[i - 1].isalnum() or src[i - 1] in "_'!?")):
            # a character literal: 'x' or '\x..' ; an identifier's trailing prime was excluded above
            if src[i + 1] == '\\':
                j = src.find("'", i + 3)
                if 0 < j <= i + 8:
                    out.append(' ')
                    i = j + 1
                    continue
            elif src[i + 2] == "'":
                out.append(' ')
                i += 3
                continue
        out.append(c)
        i += 1
    return ''.join(out)


class Def(object):
    __slots__ = ('full', 'file', 'body', 'ctx', 'binders', 'kind')


class LeanFile(object):
    def __init__(self, rel):
        self.rel = rel
        self.module = rel[:-5].replace('/', '.')
        path = os.path.join(LEAN, rel)
        raw = open(path, encoding='utf-8').read()
        self.imports = re.findall(r'^import\s+(\S+)', raw, re.M)
        self.defs = []
        self.aliases = {}            # exported alias full name -> target full name
        self._parse(strip_noise(raw))

    def _parse(self, src):
        lines = src.split('\n')
        ns = []                       # stack of ('ns', name) / ('sec', name)
        opens = []                    # (depth at which opened, namespace)
        i = 0
        while i < len(lines):
            ln = lines[i]
            m = re.match(r'^namespace\s+(\S+)', ln)
            if m:
                ns.append(('ns', m.group(1)))
                i += 1
                continue
            m = re.match(r'^section\b\s*(\S*)', ln)
            if m:
                ns.append(('sec', m.group(1)))
                i += 1
                continue
            m = re.match(r'^end\b\s*(\S*)', ln)
            if m:
                if ns:
                    ns.pop()
                opens = [o for o in opens if o[0] <= len(ns)]
                i += 1
                continue
            m = re.match(r'^open\s+(.*)', ln)
            if m and ' in' not in ln:
                cur = '.'.join(x[1] for x in ns if x[0] == 'ns')
                for o in m.group(1).split():
                    if o in ('hiding', 'renaming', '('):
                        break
                    opens.append((len(ns), o))
                    # `open A.B` inside namespace P also tries P.A.B (and the parents of P)
                    parts = cur.split('.') if cur else []
                    for k in range(len(parts), 0, -1):
                        opens.append((len(ns), '.'.join(parts[:k]) + '.' + o))
                i += 1
                continue
            m = re.match(r'^export\s+(\S+)\s*\(([^)]*)\)', ln)
            if m:
                cur = '.'.join(x[1] for x in ns if x[0] == 'ns')
                for nm in m.group(2).split():
                    self.aliases[(cur + '.' if cur else '') + nm] = m.group(1) + '.' + nm
                i += 1
                continue
            m = DECL.match(ln)
            if m and m.group(2) in ('def', 'abbrev', 'instance', 'theorem', 'lemma', 'example', 'structure',
                                    'inductive', 'class'):
                j = i + 1
                while j < len(lines) and not (TOPLEVEL.match(lines[j])):
                    j += 1
                # `termination_by` / `decreasing_by` blocks belong to the definition but contain no calls of interest
                if m.group(2) in ('def', 'abbrev') and m.group(3):
                    d = Def()
                    cur = '.'.join(x[1] for x in ns if x[0] == 'ns')
                    name = m.group(3)
                    d.full = (cur + '.' if cur else '') + name
                    d.file = self.rel
                    d.kind = m.group(2)
                    d.body = '\n'.join(lines[i:j])
                    # resolution context: the definition's own namespace chain (incl. the name's prefix), then opens
                    chain = []
                    parts = d.full.split('.')[:-1]
                    for k in range(len(parts), 0, -1):
                        chain.append('.'.join(parts[:k]))
                    d.ctx = chain + [o[1] for o in opens] + ['']
                    d.binders = binders_of(d.body)
                    self.defs.append(d)
                i = j
                continue
            i += 1


def binders_of(body):
    b = set()
    for m in re.finditer(r'\blet\s+(?:rec\s+)?([^\W\d][\w\']*)', body, re.U):
        b.add(m.group(1))
    for m in re.finditer(r'\blet\s+[(⟨]([^)⟩]*)[)⟩]', body, re.U):
        b.update(IDENT.findall(m.group(1)))
    for m in re.finditer(r'\bfun\s+([^=]*?)=>', body, re.U | re.S):
        b.update(t for t in IDENT.findall(m.group(1)) if '.' not in t)
    for m in re.finditer(r'[({\[]\s*((?:[^\W\d][\w\']*\s+)*[^\W\d][\w\']*)\s*:', body, re.U):
        b.update(m.group(1).split())
    for m in re.finditer(r'^\s*\|(.*?)=>', body, re.U | re.M):
        b.update(t for t in IDENT.findall(m.group(1)) if '.' not in t)
    for m in re.finditer(r'\bfor\s+([^\W\d][\w\']*)\s+in\b', body, re.U):
        b.add(m.group(1))
    return b


_FILES = {}


def lean_file(rel):
    st = os.stat(os.path.join(LEAN, rel))
    key = (rel, st.st_mtime_ns, st.st_size)
    f = _FILES.get(rel)
    if f is None or f[0] != key:
        f = (key, LeanFile(rel))
        _FILES[rel] = f
    return f[1]


def module_rel(mod):
    rel = mod.replace('.', '/') + '.lean'
    return rel if os.path.exists(os.path.join(LEAN, rel)) else None


def import_closure(modules):
    seen, todo = [], [m for m in modules]
    done = set()
    while todo:
        m = todo.pop()
        if m in done or not m.startswith('Py65'):
            continue
        done.add(m)
        rel = module_rel(m)
        if rel is None:
            continue
        seen.append(rel)
        try:
            raw = open(os.path.join(LEAN, rel), encoding='utf-8').read()
        except OSError:
            continue
        todo.extend(re.findall(r'^import\s+(\S+)', raw, re.M))
    return sorted(seen)


def is_graph_file(rel):
    return rel.startswith('Py65/Gen/') or rel.startswith('Py65/Model/') or rel in ('Py65/PyInt.lean', 'Py65/Machine.lean')


def is_vocab_file(rel):
    base = os.path.basename(rel)
    return rel.startswith('Py65/Model/') and ('Rt' in base or base in ('PyStr.lean', 'PyData.lean')) \
        or rel == 'Py65/PyInt.lean'


def short(full):
    return full[len('Py65.Model.'):] if full.startswith('Py65.Model.') else full


class Graph(object):
    def __init__(self, rels):
        self.defs = {}
        self.aliases = {}
        for rel in rels:
            f = lean_file(rel)
            for d in f.defs:
                self.defs.setdefault(d.full, d)
            self.aliases.update(f.aliases)

    def resolve(self, d, tok):
        own = d.full
        for k, ns in enumerate(d.ctx):
            cand = (ns + '.' if ns else '') + tok
            cand = self.aliases.get(cand, cand)
            if cand in self.defs and cand != own:
                return cand
        return None

    def calls(self, d):
        out = set()
        for tok in set(IDENT.findall(d.body)):
            tok = tok.rstrip('.')
            if '.' not in tok and tok in d.binders:
                continue
            r = self.resolve(d, tok)
            if r is None and '.' in tok:
                # `x.f` on a term: generalised field notation cannot be resolved without types; try the
                # longest qualified suffix that names a definition (`Flow.bind`, `PExc.str`)
                parts = tok.split('.')
                for k in range(1, len(parts) - 1):
                    r = self.resolve(d, '.'.join(parts[k:]))
                    if r:
                        break
            if r:
                out.add(r)
        return out

    def reach(self, start):
        seen, todo = set(), list(start)
        while todo:
            n = todo.pop()
            if n in seen:
                continue
            seen.add(n)
            todo.extend(self.calls(self.defs[n]) - seen)
        return seen


def reached_defs(lean_modules):
    """-> (graph, {full name of every definition reachable from the generated code of these modules},
           [generated files])"""
    rels = [r for r in import_closure(lean_modules) if is_graph_file(r)]
    g = Graph(rels)
    gen = [r for r in rels if r.startswith('Py65/Gen/')]
    # the generated code, and the hand models the property theorems are about (where a hand model has no
    # regeneration tie -- cmd.Cmd dispatch, display texts -- its library parts are validated all the same);
    # NOT the vocabulary files themselves: a helper counts only if something calls it
    hand = [r for r in rels if r.startswith('Py65/Model/') and not is_vocab_file(r)]
    start = [d.full for d in g.defs.values() if d.file in gen or d.file in hand]
    return g, g.reach(start), gen
