#!/usr/bin/env python3
"""bin/check Cxx [--tier quick|thorough] [--replay file]   (DESIGN.md §2.7)

 1 regenerate the generated Lean model from /repo (translator, tie 1; plus the property module's
   own `pre_build(ctx)` translator hook, if any)
 2 build the property's theorem modules and the driver (lake; Lean kernel checks the proofs)
 3 audit: axioms of every theorem of the property's namespace; forbidden-token grep
 4 correspondence (tie 2): generated model / hand model vs the real code
 5 differential = failing-input search: executable Spec vs the real code
 6 decide; known findings; evidence; exit 0 / 1 (VIOLATION line) / 2 (internal error, timeout)
"""
import argparse
import fcntl
import hashlib
import importlib
import json
import os
import re
import shutil
import subprocess
import sys
import time
import traceback

HERE = os.path.dirname(os.path.abspath(__file__))
sys.path.insert(0, HERE)
from common import VERIF, LEAN, REPO, WORK, DRIVER  # noqa: E402

PY = sys.executable
STD_AXIOMS = {'propext', 'Classical.choice', 'Quot.sound'}
FORBIDDEN = re.compile(r'\bsorry\b|\badmit\b|^\s*axiom\s|native_decide|bv_decide|implemented_by|'
                       r'\bunsafe\s|maxHeartbeats\s+0\b', re.M)


class Ctx(object):
    def __init__(self, pid, tier, seed):
        self.pid, self.tier, self.seed = pid, tier, seed
        self.t0 = time.time()
        self.notes = []
        self.broken = []       # list of dict(kind=..., what=..., detail=...)
        self.findings = []     # list of dict(key=..., what=..., replay=...)
        self.stats = {}
        self.samples = []
        self.trusted = []
        self.work = os.path.join(WORK, '%s-%d' % (pid, os.getpid()))
        os.makedirs(self.work, exist_ok=True)

    def quick(self):
        return self.tier == 'quick'

    def note(self, s):
        self.notes.append(s)
        print('  [%s] %s' % (self.pid, s), flush=True)

    def wall(self):
        return round(time.time() - self.t0, 2)


# ---------------------------------------------------------------------------------------
# stage 1+2: regenerate and build (serialised by a file lock: lake is not re-entrant)
# ---------------------------------------------------------------------------------------

def lake(args, timeout=3000):
    env = dict(os.environ)
    p = subprocess.run(['lake'] + args, cwd=LEAN, stdout=subprocess.PIPE, stderr=subprocess.STDOUT,
                       timeout=timeout, env=env)
    return p.returncode, p.stdout.decode('utf-8', 'replace')


def regenerate(ctx):
    rep = os.path.join(ctx.work, 'py2lean.json')
    env = dict(os.environ, PYTHONPATH=REPO)
    p = subprocess.run([PY, os.path.join(HERE, 'py2lean.py'), '--out', os.path.join(LEAN, 'Py65', 'Gen'),
                        '--report', rep], stdout=subprocess.PIPE, stderr=subprocess.STDOUT, env=env,
                       timeout=300)
    out = p.stdout.decode('utf-8', 'replace')
    r = {}
    try:
        r = json.load(open(rep))
    except Exception:
        pass
    if p.returncode != 0 or not r.get('ok'):
        ctx.broken.append(dict(kind='translator', what='py2lean refused the device source',
                               detail=(r.get('error') or out)[-1500:], where=r.get('where'),
                               function=r.get('function')))
        return None
    ctx.stats['translator'] = dict(functions=r.get('functions'), rewritten=r.get('written'),
                                   source_sha256=r.get('source_sha256'))
    return r


def name_theorems(errs):
    """Append to each `error: <file>:<line>:<col>: ...` line the theorem/def the line lies in."""
    out = []
    for e in errs:
        m = re.match(r'error: (\S+?\.lean):(\d+):\d+:', e)
        if m:
            try:
                lines = open(os.path.join(LEAN, m.group(1)), encoding='utf-8').read().split('\n')
                for k in range(min(int(m.group(2)), len(lines)) - 1, -1, -1):
                    d = re.match(r'\s*(?:@\[[^\]]*\]\s*)?(?:private\s+|protected\s+)?(theorem|lemma|def|example|instance)\b\s*(\S*)', lines[k])
                    if d:
                        e = '%s  [in %s %s]' % (e, d.group(1), d.group(2))
                        break
            except Exception:
                pass
        out.append(e)
    return out


def build(ctx, modules, need_driver=True, gen_ok=True):
    """Build theorem modules one by one (so one broken module does not hide the others) and the
    driver.  Returns dict module -> (ok, log)."""
    res = {}
    targets = list(modules)
    all_ok = False
    if len(targets) > 1:
        # one lake invocation when everything checks (the common case); one per module otherwise,
        # so that one broken module does not hide the others
        rc, out = lake(['build'] + targets)
        all_ok = rc == 0
        if all_ok:
            for m in targets:
                res[m] = (True, out)
    for m in ([] if all_ok else targets):
        rc, out = lake(['build', m])
        res[m] = (rc == 0, out)
        if rc != 0:
            errs = name_theorems([l for l in out.split('\n') if l.startswith('error:')])
            ctx.broken.append(dict(kind='proof', what='Lean module %s no longer checks' % m,
                                   detail='\n'.join(errs[:12]) or out[-1500:], module=m))
    if need_driver:
        if not gen_ok:
            rc, out = 1, 'translator failed; generated model is stale'
        else:
            rc, out = lake(['build', 'driver'])
        res['driver'] = (rc == 0, out)
        if rc != 0 and not gen_ok:
            rc2, out2 = lake(['build', 'specdriver'])
            res['specdriver'] = (rc2 == 0, out2)
        elif rc != 0:
            errs = [l for l in out.split('\n') if l.startswith('error:')]
            ctx.broken.append(dict(kind='driver', what='the model driver no longer builds',
                                   detail='\n'.join(errs[:12]) or out[-1500:]))
            rc2, out2 = lake(['build', 'specdriver'])
            res['specdriver'] = (rc2 == 0, out2)
    return res


def strip_comments(src):
    src = re.sub(r'/-.*?-/', '', src, flags=re.S)
    src = re.sub(r'--.*', '', src)
    return src


def audit(ctx, namespaces, modules):
    """Axioms of every theorem in the given namespaces + forbidden-token grep over lean/Py65."""
    bad_tokens = []
    for root, _, files in os.walk(os.path.join(LEAN, 'Py65')):
        for f in files:
            if f.endswith('.lean'):
                src = strip_comments(open(os.path.join(root, f), encoding='utf-8').read())
                for m in FORBIDDEN.finditer(src):
                    bad_tokens.append('%s: %s' % (os.path.relpath(os.path.join(root, f), LEAN),
                                                  m.group(0).strip()))
    if bad_tokens:
        ctx.broken.append(dict(kind='audit', what='forbidden token in Lean sources',
                               detail='; '.join(bad_tokens[:10])))
    f = os.path.join(ctx.work, 'audit.lean')
    with open(f, 'w') as fh:
        fh.write('import Py65.Audit\n')
        for m in modules:
            fh.write('import %s\n' % m)
        for ns in namespaces:
            fh.write('#audit_ns %s\n' % ns)
    p = subprocess.run(['lake', 'env', 'lean', f], cwd=LEAN, stdout=subprocess.PIPE,
                       stderr=subprocess.STDOUT, timeout=1200)
    out = p.stdout.decode('utf-8', 'replace')
    thms = []
    for line in out.split('\n'):
        line = line.strip()
        if line.startswith('{"thm"'):
            try:
                thms.append(json.loads(line))
            except Exception:
                pass
    if p.returncode != 0 and not thms:
        ctx.broken.append(dict(kind='audit', what='axiom audit did not run', detail=out[-800:]))
    axioms = set()
    discharged = 0
    for t in thms:
        ax = set(t['axioms'])
        axioms |= ax
        if ax <= STD_AXIOMS:
            discharged += 1
        else:
            ctx.broken.append(dict(kind='audit', what='theorem %s depends on non-standard axioms' % t['thm'],
                                   detail=', '.join(sorted(ax - STD_AXIOMS))))
    ctx.stats['obligations'] = len(thms)
    ctx.stats['discharged'] = discharged
    ctx.stats['axioms'] = sorted(axioms)
    ctx.stats['theorems'] = [t['thm'] for t in thms]
    return thms


def leanchecker(ctx, modules):
    p = subprocess.run(['lake', 'env', 'leanchecker'] + modules, cwd=LEAN, stdout=subprocess.PIPE,
                       stderr=subprocess.STDOUT, timeout=3000)
    ok = p.returncode == 0
    ctx.stats['leanchecker'] = 'ok' if ok else 'FAILED'
    if not ok:
        ctx.broken.append(dict(kind='proof', what='leanchecker rejected compiled modules',
                               detail=p.stdout.decode('utf-8', 'replace')[-800:]))


# ---------------------------------------------------------------------------------------
# known findings
# ---------------------------------------------------------------------------------------

def load_known():
    p = os.path.join(VERIF, 'known_findings.json')
    if not os.path.exists(p):
        return []
    return json.load(open(p)).get('findings', [])


def match_known(pid, finding, known):
    for k in known:
        if k.get('property') != pid:
            continue
        m = k.get('match', {})
        if all(finding.get('key', {}).get(a) == b for a, b in m.items()):
            return k
    return None


# ---------------------------------------------------------------------------------------
# main
# ---------------------------------------------------------------------------------------

def write_replay(ctx, obj, suffix=''):
    d = os.path.join(VERIF, 'replays')
    os.makedirs(d, exist_ok=True)
    h = hashlib.sha1(json.dumps(obj, sort_keys=True, default=str).encode()).hexdigest()[:10]
    p = os.path.join(d, '%s-%s%s.json' % (ctx.pid, h, suffix))
    with open(p, 'w') as f:
        json.dump(obj, f, indent=1, default=str)
    return os.path.relpath(p, VERIF)


def write_evidence(ctx, mod, violations):
    level = getattr(mod, 'LEVEL', 'proof')
    cov = {
        'obligations': ctx.stats.get('obligations', 0),
        'discharged': ctx.stats.get('discharged', 0),
        'checker_cmd': 'cd lean && lake build %s && lake env lean <audit file: #audit_ns %s>%s' % (
            ' '.join(mod.LEAN_MODULES), ' '.join(mod.NAMESPACES),
            ' && lake env leanchecker ' + ' '.join(mod.LEAN_MODULES) if ctx.tier == 'thorough' else ''),
        'trusted_base': ['Lean 4 kernel (lake build)' + (' + leanchecker re-check' if ctx.tier == 'thorough' else ''),
                         'axioms used by the property theorems: %s' % (', '.join(ctx.stats.get('axioms', [])) or 'none'),
                         ] + list(getattr(mod, 'TRUSTED', [])) + ctx.trusted,
        'theorems': ctx.stats.get('theorems', []),
        'evaluations': ctx.stats.get('evaluations', 0),
        'distinct_nontrivial': ctx.stats.get('distinct_nontrivial', 0),
        'rule': getattr(mod, 'RULE', ''),
        'samples': ctx.samples[:6] or ['(no sample recorded)'],
        'traces_validated_against_impl': ctx.stats.get('traces_validated_against_impl', 0),
        'distribution': ctx.stats.get('distribution', {}),
        'translator': ctx.stats.get('translator', {}),
        'translator_dis': ctx.stats.get('translator_dis', {}),
        'library_model_validation': ctx.stats.get('library_model_validation', {}),
        'library_model_validation_detail': ctx.stats.get('library_model_validation_detail', {}),
        'leanchecker': ctx.stats.get('leanchecker', 'not run (quick tier)'),
        'broken': ctx.broken,
        'source_units_differing_from_pinned_tree': ctx.stats.get('source_units_changed', []),
        'extra_exploration_rounds': ctx.stats.get('extra_rounds', 0),
        'known_findings_seen': ctx.stats.get('known_seen', []),
        'notes': ctx.notes[-40:],
    }
    if cov['obligations'] < 1 or cov['discharged'] != cov['obligations']:
        # not a valid proof-level record: fall back to the generic keys (still present above)
        pass
    ev = {
        'property_id': ctx.pid, 'tier': ctx.tier, 'seed': ctx.seed, 'level': level,
        'coverage': cov,
        'assumptions': list(getattr(mod, 'ASSUMPTIONS', [])),
        'wall_s': ctx.wall(), 'violations': violations,
    }
    d = os.path.join(VERIF, 'evidence')
    os.makedirs(d, exist_ok=True)
    with open(os.path.join(d, '%s.json' % ctx.pid), 'w') as f:
        json.dump(ev, f, indent=1, default=str)


def main():
    ap = argparse.ArgumentParser()
    ap.add_argument('pid')
    ap.add_argument('--tier', default=os.environ.get('VERIF_TIER', 'quick'), choices=['quick', 'thorough'])
    ap.add_argument('--replay', default=None)
    a = ap.parse_args()
    seed = int(os.environ.get('VERIF_SEED', '0') or 0)
    pid = a.pid.upper()
    try:
        mod = importlib.import_module('props.%s' % pid.lower())
    except ImportError as ex:
        print('no such check: %s (%s)' % (pid, ex))
        sys.exit(2)
    ctx = Ctx(pid, a.tier, seed)
    rc = 2
    try:
        if a.replay:
            # a monitor scenario may have needed a session-history prologue (common.history_prologue):
            # try every variant, stop at the first that reproduces
            for k in range(20):
                os.environ['VERIF_FORCE_PROLOGUE'] = str(k)
                rc = mod.replay(ctx, a.replay)
                if rc != 0 or not getattr(mod, 'USES_PROLOGUE', False):
                    break
        else:
            rc = run_check(ctx, mod)
    except subprocess.TimeoutExpired as ex:
        print('TIMEOUT in %s' % ex.cmd)
        rc = 2
    except Exception:
        traceback.print_exc()
        rc = 2
    finally:
        shutil.rmtree(ctx.work, ignore_errors=True)
    sys.exit(rc)


def run_check(ctx, mod):
    os.makedirs(WORK, exist_ok=True)
    lockf = open(os.path.join(WORK, 'lock'), 'w')
    fcntl.flock(lockf, fcntl.LOCK_EX)
    try:
        gen = regenerate(ctx) if getattr(mod, 'USES_GEN', True) else True
        # optional per-property regeneration step (a module-specific translator): runs inside the
        # lock, before the build; a refusal is recorded by the hook in ctx.broken (broken tie)
        if hasattr(mod, 'pre_build'):
            mod.pre_build(ctx)
        b = build(ctx, mod.LEAN_MODULES, gen_ok=bool(gen))
        ok_mods = [m for m in mod.LEAN_MODULES if b.get(m, (False,))[0]]
        if ok_mods:
            audit(ctx, mod.NAMESPACES, ok_mods)
        else:
            ctx.stats['obligations'] = 0
            ctx.stats['discharged'] = 0
        expected = getattr(mod, 'EXPECTED_THEOREMS', [])
        have = set(ctx.stats.get('theorems', []))
        failed = [m for m in mod.LEAN_MODULES if m not in ok_mods]
        for t in expected:
            # (a theorem of a module that did not build is already reported through that module)
            if t not in have and not any(t.startswith(m + '.') for m in failed):
                ctx.broken.append(dict(kind='proof', what='property theorem %s is missing' % t, detail=''))
        if ctx.tier == 'thorough' and ok_mods:
            leanchecker(ctx, ok_mods)
        driver_ok = b.get('driver', (False,))[0]
        spec_ok = driver_ok or b.get('specdriver', (False,))[0]
    finally:
        fcntl.flock(lockf, fcntl.LOCK_UN)
        lockf.close()
    ctx.driver_ok, ctx.spec_ok = driver_ok, spec_ok
    if not spec_ok:
        print('internal error: neither driver builds')
        for br in ctx.broken:
            print(json.dumps(br)[:600])
        return 2
    if not driver_ok:
        os.environ['PY65_DRIVER'] = os.path.join(LEAN, '.lake', 'build', 'bin', 'specdriver')
    # source watch (never a verdict, only effort): on a tree that differs from the pinned one the
    # exploration is repeated with fresh seeds while nothing concrete has been found
    try:
        import srcwatch
        ctx.src_changed = srcwatch.changed(REPO)
    except Exception as ex:      # noqa
        ctx.src_changed = []
        ctx.note('source watch failed: %r' % (ex,))
    ctx.hint_ints = sorted(set(i for c in ctx.src_changed for i in c['new_ints']))
    ctx.hint_strs = sorted(set(x for c in ctx.src_changed for x in c['new_strs']))
    if ctx.src_changed:
        ctx.note('source differs from the pinned tree in %d unit(s): %s' % (
            len(ctx.src_changed), ', '.join('%s:%s' % (c['file'].split('/')[-1], c['unit']) for c in ctx.src_changed[:6])))
    ctx.stats['source_units_changed'] = ['%s:%s' % (c['file'], c['unit']) for c in ctx.src_changed[:40]]
    # stage 4+5 (property specific): fills ctx.findings / ctx.broken / ctx.stats
    try:
        import rtcheck
        rtcheck.run_for(ctx, mod)      # library helpers the generated code calls vs CPython (a difference = broken tie)
        mod.explore(ctx)
        base_seed, rounds = ctx.seed, 0
        extra = int(os.environ.get('VERIF_EXTRA_ROUNDS', '4'))
        while (ctx.src_changed or ctx.broken) and not ctx.findings and rounds < extra \
                and ctx.wall() < float(os.environ.get('VERIF_EXTRA_BUDGET_S', '600')):
            rounds += 1
            ctx.seed = base_seed + 7919 * rounds
            ctx.note('nothing concrete found yet: extra exploration round %d (seed %d)' % (rounds, ctx.seed))
            mod.explore(ctx)
        ctx.seed = base_seed
        ctx.stats['extra_rounds'] = rounds
    except subprocess.TimeoutExpired:
        raise
    except Exception as ex:
        # an exception escaping from the implementation under test while exploring is a behaviour
        # difference the exploration did not anticipate: report it (with whatever concrete findings
        # were collected before it); an exception with no frame in the implementation is ours.
        text = ''.join(traceback.format_exception(type(ex), ex, ex.__traceback__))
        repo = os.path.realpath(REPO)
        frames = re.findall(r'File "(%s/[^"]+)", line (\d+), in (\S+)' % re.escape(repo), text)
        if not frames:
            # no implementation frame.  On the pinned tree that is a bug of this harness (exit 2).  On a tree that
            # differs from the pinned one the usual cause is that the harness observes the code through a name the
            # change renamed or removed (a private attribute such as Monitor._assembler, Assembler._addressing,
            # ObservableMemory._subject): the code may be perfectly fine, but the tie cannot be established any more
            # -- a broken tie (reported as such, with the traceback), never a crash and never a failing input.
            if not getattr(ctx, 'src_changed', None):
                raise
            ctx.broken.append(dict(kind='tie', what='the harness could not observe the changed code (%s: %s)'
                                        % (type(ex).__name__, str(ex)[:200]), detail=text[-1500:]))
            ctx.note('harness observation failed on the changed tree: %s: %s' % (type(ex).__name__, str(ex)[:160]))
        else:
            fn, ln, name = frames[-1]
            ctx.broken.append(dict(kind='tie', what='the implementation raised %s during the exploration (%s:%s %s)'
                                        % (type(ex).__name__, os.path.relpath(fn, repo), ln, name),
                                   detail=text[-1500:]))
    # decide
    known = load_known()
    new, seen = [], []
    for f in ctx.findings:
        k = match_known(ctx.pid, f, known)
        if k:
            if k['id'] not in [s['id'] for s in seen]:
                seen.append(k)
        else:
            new.append(f)
    ctx.stats['known_seen'] = [k['id'] for k in seen]
    for k in seen:
        print('KNOWN-FINDING: property=%s %s' % (ctx.pid, k['what']))
    violations = 0
    rc = 0
    if new:
        violations = len(new)
        rp = write_replay(ctx, dict(property=ctx.pid, kind='failing-input', tier=ctx.tier, seed=ctx.seed,
                                    finding=new[0], more=[f['what'] for f in new[1:8]],
                                    broken=ctx.broken))
        print('  first failing input: %s' % new[0]['what'])
        print('VIOLATION property=%s replay=%s' % (ctx.pid, rp))
        rc = 1
    elif ctx.broken:
        violations = 1
        rp = write_replay(ctx, dict(property=ctx.pid, kind='tie-or-proof-broken', tier=ctx.tier,
                                    seed=ctx.seed, broken=ctx.broken,
                                    searched=ctx.stats.get('evaluations', 0)), '-nofail')
        for br in ctx.broken[:4]:
            print('  broken: %s -- %s' % (br['what'], (br.get('detail') or '')[:300].replace('\n', ' | ')))
        print('VIOLATION property=%s replay=%s no-failing-input-found' % (ctx.pid, rp))
        rc = 1
    write_evidence(ctx, mod, violations)
    print('%s %s tier=%s seed=%d obligations=%s discharged=%s evaluations=%s wall=%ss' % (
        ctx.pid, 'OK' if rc == 0 else 'FAIL', ctx.tier, ctx.seed, ctx.stats.get('obligations'),
        ctx.stats.get('discharged'), ctx.stats.get('evaluations'), ctx.wall()))
    return rc


if __name__ == '__main__':
    main()
