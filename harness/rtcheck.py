#!/usr/bin/env python3
"""Differential validation of the modelled CPython library helpers (DESIGN.md §0.8, notes/rt-validation.md).

The generated models (lean/Py65/Gen/*Gen.lean) call NAMED helper functions for CPython library behaviour
(`int(s, base)`, `%`-formatting, `str` methods, the regex scanners, `shlex.split`, slicing, dict / list
operations, `bytes.decode`, ...).  This module pins each of them DIRECTLY to the real CPython function:

  * harness/rtscan.py derives, from the Lean sources, which helpers a property's generated code calls
    (transitively; cannot go stale);
  * harness/rthelpers.py holds, per helper, a generator of structured + malformed inputs and the CPython
    reference expression (regex patterns are read from $PY65_REPO/py65 at run time);
  * here: all requests of all selected helpers go to the compiled Lean driver in ONE `run_driver` call
    (`rt <helper> <args>` lines, lean/Py65/Driver/Rt.lean), the replies are compared with the canonical
    encoding of what CPython returned / raised, a disagreement is shrunk to a small input.

A disagreement is a BROKEN TIE (`library model <helper> differs from CPython`), never by itself a property
violation.  One PRNG seed: VERIF_SEED (each helper draws its own stream from `<seed>/<helper name>`).

Stand-alone:  PYTHONPATH=/repo /venv/bin/python harness/rtcheck.py [--seed N] [--helpers a,b] [--props C07,C16]
              [--table]      (exit 0 = all agree)
"""
import os
import random
import sys
import time

HERE = os.path.dirname(os.path.abspath(__file__))
if HERE not in sys.path:
    sys.path.insert(0, HERE)
import common            # noqa: E402
import rtscan            # noqa: E402
import rthelpers as rh   # noqa: E402

# definitions of the run-time vocabulary files that are NOT library behaviour (and so have no entry in
# rthelpers.HELPERS): why each one is skipped.  Anything else reached from generated code that lives in a
# vocabulary file and is in neither table is reported as `unclassified`.
PLUMBING = {
    # types, monads, control flow of the embeddings (translator semantics, not CPython library behaviour)
    'PyStr.Str': 'type', 'PyRt.M': 'type', 'PyRt.raise': 'control flow', 'PyRt.tryExcept': 'control flow',
    'PyRt.recursionLimit': 'fuel of a self-recursive method (sys.getrecursionlimit() default)',
    'AsmRt.PyM': 'type', 'AsmRt.raise': 'control flow', 'AsmRt.continue_': 'control flow',
    'AsmRt.return_': 'control flow', 'AsmRt.tryExcept': 'control flow', 'AsmRt.forEach': 'control flow (for loop)',
    'AsmRt.listComp': 'control flow (list comprehension)', 'AsmRt.runFn': 'control flow', 'AsmRt.call': 'control flow',
    'AsmRt.Exc.isValueError': 'exception class test', 'AsmRt.Exc.isIndexError': 'exception class test',
    'AsmRt.nresOf': 'result conversion', 'AsmRt.aresOf': 'result conversion',
    'AsmRt.number': 'AddressParser.number = translated code (hand model, C15 AddrParserGenEq), not library',
    'GenRt.PyM': 'type', 'MonGenRt.Flow.bind': 'control flow',
    'MonGenRt.parseNumber': 'AddressParser.number = translated code (C15), not library',
    'MonMemRt.MFlow.bind': 'control flow', 'MonMemRt.MFlow.forget': 'state plumbing',
    'MonMemRt.PExc.strip': 'forgets the arguments of an exception (plumbing, not str.strip)',
    'MonMemRt.excOfFill': 'exception conversion', 'MonMemRt.liftFill': 'state plumbing',
    'MonMemRt.WFile': 'type',
    'MonMemRt.parseNumberX': 'AddressParser.number + World oracle for exc.args',
    'MonMemRt.parseRangeX': 'AddressParser.range + World oracle for exc.args',
    'MonMemRt.pyOpenR': 'World oracle (file system)', 'MonMemRt.pyOpenW': 'World oracle (file system)',
    'MonMemRt.pyUrlopen': 'World oracle (network)',
    'MonIORt.Flow.bind': 'control flow',
    'MonIORt.mpuNew': 'py65 constructor (records its arguments)', 'MonIORt.omNew': 'py65 constructor (ObsMem.init, C10)',
    'MonIORt.parserNew': 'py65 constructor (records its arguments)',
    'MonIORt.toolNew': 'py65 constructor (records its arguments)',
    'MonIORt.getchNoblock': 'console.getch_noblock = translated code (ConsoleGenEq), not library',
    'MonIORt.osSelect': 'OS oracle (select)', 'MonIORt.osRead': 'OS oracle (read)',
    'MonIORt.ConEnv.plain': 'constant of the OS oracle',
    'ObsMem.Subs.empty': 'covered with ObsMem.Subs.set',
    # internals of a registered helper (exercised through it)
    'PyStr.maxStrDigits': 'internal of PyStr.pyIntL', 'PyStr.isPow2Base': 'internal of PyStr.pyIntL',
    'PyStr.isPrefixLetter': 'internal of PyStr.pyIntL', 'PyStr.dropPrefix': 'internal of PyStr.pyIntL',
    'PyStr.scanDigits': 'internal of PyStr.pyIntL', 'Py.natDiff': 'internal of Py.land / Py.lor',
    'PyStr.mixCase': 'used by property statements only', 'PyStr.spelling': 'used by property statements only',
    'Py.bit': 'used by theorems only',
}
# a reached definition that implies further registry entries (calls the scanner cannot see: class attributes
# are read through field notation, `_mpu.cls.ADDR_FORMAT`)
ALSO = {'MonGenRt.pySliceFrom': ['MonGenRt.pySliceFrom/list'], 'MonGenRt.pySliceTo': ['MonGenRt.pySliceTo/list'],
        'MonIORt.mpuNew': ['MonIORt.MpuCls.name', 'MonIORt.MpuCls.ADDR_WIDTH', 'MonIORt.MpuCls.BYTE_WIDTH',
                           'MonIORt.MpuCls.ADDR_FORMAT', 'MonIORt.MpuCls.BYTE_FORMAT', 'MonIORt.MpuCls.addrMask',
                           'MonIORt.MpuCls.byteMask']}


def helpers_for(lean_modules):
    """The registered helpers reachable from the generated code of these Lean modules (sorted)."""
    return scan(lean_modules)[0]


def scan(lean_modules):
    """-> (helpers, unclassified, generated files)"""
    g, reached, gen = rtscan.reached_defs(list(lean_modules))
    names = set(rtscan.short(x) for x in reached)
    for k, more in ALSO.items():
        if k in names:
            names.update(more)
    helpers = sorted(n for n in names if n in rh.HELPERS)
    uncl = sorted(rtscan.short(x) for x in reached
                  if rtscan.is_vocab_file(g.defs[x].file) and rtscan.short(x) not in rh.HELPERS
                  and rtscan.short(x) not in PLUMBING)
    return helpers, uncl, [os.path.basename(f) for f in gen]


# ---------------------------------------------------------------------------------------
# one case = (helper, args); expected reply from CPython
# ---------------------------------------------------------------------------------------

def expected(h, args):
    try:
        v = h.ref(*args)
    except h.none_on:
        return 'N'
    except RecursionError:
        raise
    except Exception as ex:      # the reference raised: that is the behaviour
        return 'E:' + type(ex).__name__
    return rh.enc(h.res, v)


def kinds_of(h, args):
    return h.args_of(args) if getattr(h, 'args_of', None) else h.args


def line_of(h, args):
    toks = [rh.enc(k, a) for k, a in zip(kinds_of(h, args), args)]
    return ' '.join(['rt', h.wire] + list(h.pre) + toks)


def agree(h, exp, got):
    if got == exp:
        return True
    if h.refusal_ok and got.startswith('U:'):
        return True
    return False


def klass(exp):
    if exp.startswith('E:'):
        return 'raise'
    if exp == 'N':
        return 'none'
    if exp in ('_', '-', 'F', '0'):
        return 'empty/false/0'
    return 'value'


def cases_of(h, seed):
    rng = random.Random('%d/%s' % (seed, h.name))
    out, seen = [], set()
    for args in h.gen(rng):
        args = tuple(args)
        out.append(args)
    return out


# ---------------------------------------------------------------------------------------
# shrinking (generic, on the argument kinds)
# ---------------------------------------------------------------------------------------

def shrink_value(kind, v):
    """Smaller candidates for one argument."""
    if isinstance(kind, tuple) and kind[0] == 'O':
        if v is None:
            return
        yield None
        for x in shrink_value(kind[1], v):
            yield x
        return
    if isinstance(kind, tuple) and kind[0] == 'L':
        v = list(v)
        n = len(v)
        if n == 0:
            return
        yield []
        if n > 1:
            yield v[:n // 2]
            yield v[n // 2:]
        for i in range(min(n, 24)):
            yield v[:i] + v[i + 1:]
        for i in range(min(n, 12)):
            for x in shrink_value(kind[1], v[i]):
                yield v[:i] + [x] + v[i + 1:]
        return
    if kind in ('S',):
        n = len(v)
        if n == 0:
            return
        yield ''
        if n > 1:
            yield v[:n // 2]
            yield v[n // 2:]
        for i in range(min(n, 40)):
            yield v[:i] + v[i + 1:]
        for i in range(min(n, 40)):
            for c in ('a', '0', ' '):
                if v[i] != c and v[i] not in 'a0 ':
                    yield v[:i] + c + v[i + 1:]
        return
    if kind == 'C':
        for c in ('a', '0', ' '):
            if v != c:
                yield c
        return
    if kind == 'I':
        if v == 0:
            return
        yield 0
        if abs(v) > 1:
            yield v // 2 if v > 0 else -((-v) // 2)
            yield v - 1 if v > 0 else v + 1
        if v < 0:
            yield -v
        return
    if kind == 'D':
        items = list(v.items())
        for i in range(len(items)):
            yield dict(items[:i] + items[i + 1:])
        for i, (k, x) in enumerate(items):
            if x != 0:
                yield dict(items[:i] + [(k, 0)] + items[i + 1:])
            for k2 in shrink_value('S', k):
                if k2 not in v:
                    yield dict(items[:i] + [(k2, x)] + items[i + 1:])
        return
    if kind == 'P':
        for a in shrink_value('S', v[0]):
            yield (a, v[1])
        for b in shrink_value('S', v[1]):
            yield (v[0], b)
        return
    return


def size_of(args):
    def sz(v):
        if v is None:
            return 0
        if isinstance(v, str):
            return 1 + len(v)
        if isinstance(v, bool):
            return 1
        if isinstance(v, int):
            return 1 + abs(v).bit_length()
        if isinstance(v, dict):
            return 1 + sum(sz(k) + sz(x) for k, x in v.items())
        if isinstance(v, (list, tuple)):
            return 1 + sum(sz(x) for x in v)
        return 1
    return sum(sz(a) for a in args)


def shrink(h, args, rounds=40):
    """Greedy: per round, all one-step candidates in one driver call; keep the smallest that still disagrees
    (and that the helper's own domain filter `h.ok`, if any, accepts)."""
    cur = tuple(args)
    for _ in range(rounds):
        cands = []
        for i, k in enumerate(kinds_of(h, cur)):
            for v in shrink_value(k, cur[i]):
                c = cur[:i] + (v,) + cur[i + 1:]
                if getattr(h, 'ok', None) and not h.ok(*c):
                    continue
                cands.append(c)
        cands = [c for c in cands if size_of(c) < size_of(cur)][:400]
        if not cands:
            break
        try:
            exps = [expected(h, c) for c in cands]
            gots = common.run_driver([line_of(h, c) for c in cands], timeout=120)
        except Exception:
            break
        bad = [(size_of(c), n, c) for n, (c, e, g) in enumerate(zip(cands, exps, gots)) if not agree(h, e, g)]
        if not bad:
            break
        cur = min(bad)[2]
    return cur


# ---------------------------------------------------------------------------------------
# the run
# ---------------------------------------------------------------------------------------

def run(names, seed, tier='quick'):
    """-> dict(stats={helper: n}, detail={helper: {...}}, disagreements=[...], wall_s=...)"""
    t0 = time.time()
    mult = 1 if tier == 'quick' else 5
    lines, index = [], []
    detail = {}
    skipped = {}
    for nm in names:
        h = rh.HELPERS[nm]
        cs = []
        try:
            for r in range(mult):
                cs += cases_of(h, seed + 1000003 * r)
            if cs:
                expected(h, cs[0])
        except rh.SourcePattern as ex:
            # the regex call the reference is read from is no longer in the source (the translator refuses too)
            skipped[nm] = str(ex)
            detail[nm] = dict(cases=0, distinct=0, classes={}, refused=0, exhaustive=False, skipped=str(ex))
            continue
        d = dict(cases=len(cs), distinct=len(set(map(repr, cs))), classes={}, refused=0,
                 exhaustive=bool(h.exhaustive))
        detail[nm] = d
        for args in cs:
            exp = expected(h, args)
            d['classes'][klass(exp)] = d['classes'].get(klass(exp), 0) + 1
            lines.append(line_of(h, args))
            index.append((h, args, exp))
    t1 = time.time()
    gots = common.run_driver(lines, timeout=600) if lines else []
    t2 = time.time()
    dis = []
    firsts = {}
    for (h, args, exp), got in zip(index, gots):
        if got.startswith('U:'):
            detail[h.name]['refused'] += 1
        if not agree(h, exp, got):
            detail[h.name]['disagreements'] = detail[h.name].get('disagreements', 0) + 1
            firsts.setdefault(h.name, []).append((size_of(args), args, exp, got))
    for nm, lst in firsts.items():
        h = rh.HELPERS[nm]
        lst.sort(key=lambda x: x[0])
        args = lst[0][1]
        small = shrink(h, args)
        exp = expected(h, small)
        got = common.run_driver([line_of(h, small)])[0]
        if agree(h, exp, got):         # paranoia: never report a shrunk input that agrees
            small, exp, got = args, lst[0][2], lst[0][3]
        dis.append(dict(helper=nm, cpython=h.cpy, input=[repr(a) for a in small], request=line_of(h, small),
                        model=got, real=exp, failing_cases=len(lst), original_input=[repr(a)[:200] for a in args]))
    return dict(stats=dict((nm, detail[nm]['cases']) for nm in names), detail=detail, disagreements=dis, skipped=skipped,
                wall_s=round(time.time() - t0, 2), driver_s=round(t2 - t1, 2), requests=len(lines))


def run_for(ctx, mod):
    """Called by check.py in the correspondence stage."""
    if not getattr(ctx, 'driver_ok', True):
        ctx.note('library model validation skipped: the model driver does not build')
        return
    mods = getattr(mod, 'LEAN_MODULES', [])
    helpers, uncl, gen = scan(mods)
    declared = getattr(mod, 'RT_HELPERS', None)
    if declared is not None and sorted(declared) != helpers:
        # the generated files were rewritten by pre_build after the module was imported: use the fresh scan
        ctx.note('library helpers re-scanned after regeneration: %d (module import saw %d)' % (len(helpers), len(declared)))
    if not helpers:
        return
    r = run(helpers, ctx.seed, ctx.tier)
    ctx.stats['library_model_validation'] = r['stats']
    ctx.stats['library_model_validation_detail'] = dict(
        generated_files=gen, requests=r['requests'], wall_s=r['wall_s'], driver_s=r['driver_s'],
        per_helper=r['detail'], unclassified=uncl)
    if uncl:
        ctx.note('library helpers reached from generated code WITHOUT a validation entry: %s' % ', '.join(uncl))
    for nm, why in sorted(r['skipped'].items()):
        ctx.broken.append(dict(kind='tie', what='library model %s: its CPython reference cannot be read from the source' % nm,
                               detail=why, helper=nm))
    for d in r['disagreements']:
        ctx.broken.append(dict(kind='tie', what='library model %s differs from CPython' % d['helper'],
                               detail='input %s  model %s  real %s  (CPython: %s; request `%s`)'
                                      % (', '.join(d['input']), d['model'], d['real'], d['cpython'], d['request'][:300]),
                               helper=d['helper'], input=d['input'], model=d['model'], real=d['real']))
    ctx.note('library model validation: %d helpers, %d cases, %d disagreement(s), %.2fs'
             % (len(helpers), r['requests'], len(r['disagreements']), r['wall_s']))


def main():
    import argparse
    ap = argparse.ArgumentParser()
    ap.add_argument('--seed', type=int, default=int(os.environ.get('VERIF_SEED', '0') or 0))
    ap.add_argument('--helpers', default='')
    ap.add_argument('--props', default='')
    ap.add_argument('--tier', default='quick')
    ap.add_argument('--table', action='store_true', help='print the markdown table of notes/rt-validation.md')
    a = ap.parse_args()
    if a.helpers:
        names = a.helpers.split(',')
    elif a.props:
        import importlib
        names = set()
        for p in a.props.split(','):
            m = importlib.import_module('props.' + p.lower())
            hs, uncl, gen = scan(m.LEAN_MODULES)
            print('%s: %d helpers from %s%s' % (p, len(hs), ', '.join(gen),
                                                ('; UNCLASSIFIED: ' + ', '.join(uncl)) if uncl else ''))
            names.update(hs)
        names = sorted(names)
    else:
        names = list(rh.ORDER)
    r = run(names, a.seed, a.tier)
    if a.table:
        print('| helper | CPython reference | cases (distinct) | classes | domain restriction |')
        print('|---|---|---|---|---|')
        for nm in names:
            h, d = rh.HELPERS[nm], r['detail'][nm]
            print('| `%s` | `%s` | %d (%d)%s | %s | %s |' % (
                nm, h.cpy.replace('|', '\\|'), d['cases'], d['distinct'], ' exhaustive' if h.exhaustive else '',
                ', '.join('%s %d' % kv for kv in sorted(d['classes'].items()))
                + (', refused %d' % d['refused'] if d['refused'] else ''), h.domain.replace('|', '\\|')))
    few = [nm for nm in names if r['detail'][nm]['cases'] < 200 and not rh.HELPERS[nm].exhaustive]
    print('%d helpers, %d requests, %.2fs (driver %.2fs), %d disagreement(s)%s' % (
        len(names), r['requests'], r['wall_s'], r['driver_s'], len(r['disagreements']),
        ('; FEWER THAN 200 CASES: ' + ', '.join(few)) if few else ''))
    for nm, why in sorted(r['skipped'].items()):
        print('SKIPPED %s: %s' % (nm, why))
    for d in r['disagreements']:
        print('DISAGREE %s  input=%s  model=%s  real=%s  (%d failing cases)  [%s]' % (
            d['helper'], ', '.join(d['input']), d['model'], d['real'], d['failing_cases'], d['request'][:200]))
    sys.exit(1 if r['disagreements'] or r['skipped'] else 0)


if __name__ == '__main__':
    main()
