"""Generic exploration for the CPU properties (C01-C06, C12, C13): translator validation
(generated model vs real device, exact) + differential (executable Spec vs real device)."""
import json
import multiprocessing
import os
import random

import common
from common import DEVNAMES, Case, device_classes, gen_case, real_run, run_driver, widths
from cpu_diff import compare, real_observe, spec_line

ADC_SBC = {'ADC', 'SBC'}


def make_cases(rng, dev, modes, opcodes, per_opcode, mode, allow_decimal):
    """mode: 'step' single instruction; 'history' random interleavings of step/irq/nmi/reset."""
    cases = []
    for opc in opcodes:
        for _ in range(per_opcode):
            name = modes[opc][0]
            if name in ADC_SBC and dev != '65Org16':
                dec = allow_decimal and rng.random() < 0.5
            else:
                dec = None if dev != '65Org16' else None
                if dev != '65Org16' and rng.random() < 0.5:
                    dec = rng.random() < 0.5
            if mode == 'step':
                c = gen_case(rng, dev, opc, modes, ('step',), decimal=dec)
            else:
                n = rng.choice([1, 2, 3, 4, 6, 8])
                ops = [rng.choice(['step', 'step', 'step', 'irq', 'nmi', 'reset']) for _ in range(n)]
                c = gen_case(rng, dev, opc, modes, ops, decimal=dec)
                if rng.random() < 0.5:
                    c.startpc = rng.randrange(1 << (2 * widths(dev)[0]))
                if dev == '65C02' and rng.random() < 0.3:
                    c.waiting = True
                # keep ADC/SBC out of decimal mode along the way where possible: D clear at start
                if not allow_decimal:
                    c.p &= ~8
            cases.append(c)
    return cases


def foreign_warmup(classes, dev, seed, per_opcode=2):
    """Cross-device history: before the cases of `dev`, the OTHER devices execute instructions in the same
    process (a fresh instance per case and one long-lived instance each), in a seed-derived order.  Nothing a
    device of another kind did earlier may matter (C14: instances share no state), so the documented outcome
    of the cases that follow is unchanged; a table, memo or cache that one device fills and another reads
    (class attributes looked up through inheritance, module-level dicts) then shows up in the ordinary
    comparison, with the warm-up recorded in the replay.  -> description dict for the replay."""
    rng = random.Random('neighbours-%d' % seed)
    others = [d for d in DEVNAMES if d != dev]
    if (seed // 2) % 2:          # the two warmed jobs of a device use opposite orders
        others.reverse()
    n = 0
    for od in others:
        modes = classes[od].disassemble
        opcodes = [i for i in range(256) if modes[i][0] != '???']
        vet = None
        for c in make_cases(rng, od, modes, opcodes, per_opcode, 'step', True):
            try:
                real_observe(c, classes)
                if vet is None:
                    vet = classes[od]()
                real_observe(c, classes, mpu=vet)
            except Exception:
                vet = None
            n += 1
    return dict(seed=seed, order=others, cases=n, per_opcode=per_opcode)


def _load_spec(modname):
    import importlib
    mod, _, attr = modname.partition(':')
    return getattr(importlib.import_module(mod), attr or 'SPEC')


def _worker(args):
    (modname, dev, opcodes, per_opcode, seed, driver_ok) = args
    spec = _load_spec(modname)
    classes = device_classes()
    modes = classes[dev].disassemble
    warm = None
    if seed % 2 == 1 and not os.environ.get('VERIF_NO_NEIGHBOURS'):
        warm = foreign_warmup(classes, dev, seed)
    rng = random.Random(seed)
    cases = make_cases(rng, dev, modes, opcodes, per_opcode, spec['mode'], spec.get('decimal', False))
    r = evaluate(spec, cases, classes, driver_ok)
    r['warm'] = 1 if warm else 0
    if warm:
        for f in r['findings']:
            f['replay']['other_devices_first'] = warm
    return r


def _confirm_plain(args):
    """Does the finding's case also deviate in a process where no other device ran first?"""
    (modname, case_json, driver_ok) = args
    spec = _load_spec(modname)
    classes = device_classes()
    r = evaluate(dict(spec, tv=False), [Case.from_json(case_json)], classes, driver_ok)
    return bool(r['findings'])


def evaluate(spec, cases, classes, driver_ok):
    """Returns dict(tv_bad=[...], findings=[...], n=..., nontrivial=set(), dist={})"""
    out = dict(tv_bad=[], findings=[], n=len(cases), nontrivial=set(), dist={}, samples=[],
               excluded=0)
    # translator validation
    if driver_ok and spec.get('tv', True):
        replies = run_driver([c.line('cpu') for c in cases])
        for c, rp in zip(cases, replies):
            rr = real_run(c, classes)
            if rr != rp:
                out['tv_bad'].append(dict(case=c.to_json(), model=rp[:600], real=rr[:600]))
    # differential
    obs = [real_observe(c, classes) for c in cases]
    replies = run_driver([spec_line(c, o) for c, o in zip(cases, obs)])
    aspects = spec['aspects']
    # the same cases once more on one long-lived instance per device (hidden per-instance state)
    vets, vobs = {}, []
    for c in cases:
        try:
            if c.dev not in vets:
                vets[c.dev] = classes[c.dev]()
            vobs.append(real_observe(c, classes, mpu=vets[c.dev]))
        except Exception as ex:   # e.g. a veteran left unusable by an earlier raise
            vets.pop(c.dev, None)
            vobs.append(None)
    out['veteran_runs'] = sum(1 for v in vobs if v is not None)
    for idx, (c, o, rp) in enumerate(zip(cases, obs, replies)):
        d, info = compare(c, o, rp)
        vo = vobs[idx]
        hist = None
        if vo is not None and not d and _obs_sig(vo) != _obs_sig(o):
            # same state, same memory, different outcome on the veteran: judge the veteran's outcome
            touched = sorted(set(vo.touched) | set(o.touched))
            vo.touched = touched
            vrp = run_driver([spec_line(c, vo)])[0]
            d, info = compare(c, vo, vrp)
            hist = _shrink_history(cases, idx, c, classes, _obs_sig(o))
            d = [(asp, det + ' [only on an instance that executed earlier instructions; a fresh '
                  'instance behaves as specified]') for asp, det in d] or \
                [('sem', 'outcome differs between a fresh and a long-lived instance: fresh=%s veteran=%s'
                  % (_obs_sig(o)[:300], _obs_sig(vo)[:300]))]
            o, rp = vo, vrp
        W, AW = widths(c.dev)
        opc = c.ov.get(c.pc)
        name, mo = classes[c.dev].disassemble[opc] if opc is not None and 0 <= opc < 256 else ('?', '?')
        if info['self_overwrite']:
            out['excluded'] += 1
            continue
        key0 = '%s/%s/%s' % (c.dev, name, mo)
        out['dist'][key0] = out['dist'].get(key0, 0) + 1
        # non-trivial: execution changed a register/flag/cell/pc beyond the default, or raised
        if o.raised or any(isinstance(r, dict) for r in o.ops):
            sig = (c.dev, opc, c.a & 0x81, c.x & 1, c.y & 1, c.p & 0xC3, c.pc >> (AW - 2),
                   len(o.touched), tuple(c.ops))
            out['nontrivial'].add(sig)
        if len(out['samples']) < 3:
            out['samples'].append(dict(request=c.line('spec'), real=[r if r == 'oob' else {k: r[k] for k in ('a', 'x', 'y', 'sp', 'p', 'pc', 'dcyc')} for r in o.ops][:3]))
        for asp, det in d:
            if asp not in aspects:
                continue
            if spec.get('accept') and spec['accept'](c, asp, det, name, mo):
                continue
            key = dict(dev=c.dev, opcode=opc, mnemonic=name, mode=mo, aspect=asp)
            if asp == 'cyc':
                import re
                m = re.search(r'real=([+-]\d+) spec=([+-]\d+)', det)
                if m:
                    key['delta'] = int(m.group(1)) - int(m.group(2))
                m = re.search(r'executing mn=([^/\s]+)/(\S+)', det)
                if m:          # a later operation of a history: key on the instruction that was executing
                    tbl = classes[c.dev].disassemble
                    hit = [i_ for i_ in range(256) if tuple(tbl[i_]) == (m.group(1), m.group(2))]
                    if len(hit) == 1:
                        key.update(opcode=hit[0], mnemonic=m.group(1), mode=m.group(2))
            if asp == 'raise':
                key['exc'] = det.split(':')[0]
            rpl = dict(case=c.to_json(), spec_reply=rp[:800], request=c.line('spec'))
            if hist is not None:
                key['history'] = True
                rpl['earlier_cases_on_the_same_instance'] = hist
            out['findings'].append(dict(key=key, what='%s %s %s $%02x: %s' % (c.dev, name, mo, opc or 0, det),
                                        replay=rpl))
    out['nontrivial'] = list(out['nontrivial'])
    return out


def _obs_sig(o):
    if o.raised:
        return 'raise:' + o.raised
    parts = []
    for r in o.ops:
        parts.append(r if r == 'oob' else '%d %d %d %d %d %d %d %d %s' % (
            r['a'], r['x'], r['y'], r['sp'], r['p'], r['pc'], r['waiting'], r['dcyc'], ' '.join(r['log'])))
    return ';'.join(parts)


def _shrink_history(cases, idx, c, classes, fresh_sig):
    """Smallest history found that reproduces the veteran's deviation: one earlier case, else the
    last 40 cases the instance executed."""
    lo = max(0, idx - 400)
    for j in range(idx - 1, lo - 1, -1):
        if cases[j].dev != c.dev:
            continue
        try:
            m = classes[c.dev]()
            real_observe(cases[j], classes, mpu=m)
            if _obs_sig(real_observe(c, classes, mpu=m)) != fresh_sig:
                return [cases[j].to_json()]
        except Exception:
            continue
    return [x.to_json() for x in cases[max(0, idx - 40):idx] if x.dev == c.dev]


def explore(ctx, spec):
    classes = device_classes()
    quick = ctx.quick()
    per = spec['n_quick'] if quick else spec['n_thorough']
    jobs = []
    k = 0
    for dev in spec['devs']:
        modes = classes[dev].disassemble
        opcodes = spec['opcodes'](dev, modes)
        nchunks = 4 if quick else 16
        for i in range(nchunks):
            chunk = opcodes[i::nchunks]
            if chunk:
                jobs.append((spec['module'], dev, chunk, per, ctx.seed * 1000003 + k, ctx.driver_ok))
                k += 1
    # corpus first
    corpus_dir = os.path.join(common.VERIF, 'corpus', ctx.pid)
    corpus = []
    if os.path.isdir(corpus_dir):
        for f in sorted(os.listdir(corpus_dir)):
            if f.endswith('.json'):
                try:
                    corpus.append(Case.from_json(json.load(open(os.path.join(corpus_dir, f)))['case']))
                except Exception:
                    pass
    results = []
    if corpus:
        results.append(evaluate(spec, corpus, classes, ctx.driver_ok))
    # one process per job: what a job leaves behind in its process (the cross-device warm-up of every second
    # job, class-level caches) must not leak into the next job, or replays would not reproduce
    with multiprocessing.Pool(min(16, len(jobs)), maxtasksperchild=1) as pool:
        results += pool.map(_worker, jobs, chunksize=1)
    ctx.stats['jobs_after_other_devices_ran_first'] = '%d of %d' % (sum(r.get('warm', 0) for r in results), len(jobs))
    # a finding from a warmed process: is the warm-up needed?  (fresh process, no other device first)
    checked = {}
    for r in results:
        for f in r['findings']:
            w = f['replay'].get('other_devices_first')
            if not w:
                continue
            ks = json.dumps(f['key'], sort_keys=True)
            if ks not in checked and len(checked) < 6:
                with multiprocessing.Pool(1, maxtasksperchild=1) as pool:
                    checked[ks] = pool.map(_confirm_plain, [(spec['module'], f['replay']['case'], ctx.driver_ok)])[0]
            if checked.get(ks) is False:
                f['key'] = dict(f['key'], cross_device_history=True)
                f['what'] += ' [only after other devices executed instructions in the same process: %s]' % \
                             ', '.join(w['order'])
            elif checked.get(ks) is True:
                f['replay'].pop('other_devices_first', None)
    n = sum(r['n'] for r in results)
    nontriv = set()
    dist = {}
    for r in results:
        nontriv |= set(map(tuple, r['nontrivial']))
        for k_, v in r['dist'].items():
            dist[k_] = dist.get(k_, 0) + v
        ctx.findings += r['findings']
        if r['tv_bad']:
            b = r['tv_bad'][0]
            ctx.broken.append(dict(kind='tie', what='generated model and real device disagree (translator validation)',
                                   detail=json.dumps(b)[:1200], count=len(r['tv_bad'])))
        for s in r['samples']:
            if len(ctx.samples) < 6:
                ctx.samples.append(s)
    ctx.stats['evaluations'] = ctx.stats.get('evaluations', 0) + n
    ctx.stats['distinct_nontrivial'] = ctx.stats.get('distinct_nontrivial', 0) + len(nontriv)
    ctx.stats['traces_validated_against_impl'] = ctx.stats.get('traces_validated_against_impl', 0) + \
        (n if ctx.driver_ok and spec.get('tv', True) else 0)
    ctx.stats['excluded_self_overwrite'] = sum(r['excluded'] for r in results)
    # compact distribution: per device counts + number of distinct (mnemonic, mode) pairs hit
    dd = {}
    for k_, v in dist.items():
        dev = k_.split('/')[0]
        e = dd.setdefault(dev, dict(cases=0, pairs=0))
        e['cases'] += v
        e['pairs'] += 1
    ctx.stats['distribution'] = dd
    ctx.note('explored %d cases, %d distinct non-trivial, %d findings, %d broken' % (
        n, len(nontriv), len(ctx.findings), len(ctx.broken)))


def spec_pickle(spec):
    # functions are not picklable when they are lambdas defined in the props modules: pass names
    s = dict(spec)
    s.pop('opcodes', None)
    return s


def replay(ctx, path):
    """Re-run one replay file against the real code and the Spec and print the difference."""
    obj = json.load(open(path))
    f = obj.get('finding')
    if not f:
        print(json.dumps(obj, indent=1)[:3000])
        return 0
    classes = device_classes()
    c = Case.from_json(f['replay']['case'])
    hist = f['replay'].get('earlier_cases_on_the_same_instance')
    warm = f['replay'].get('other_devices_first')
    if warm:
        w = foreign_warmup(classes, c.dev, warm['seed'], warm.get('per_opcode', 2))
        print('history: %d instruction(s) executed on %s in this process first' % (w['cases'], ', '.join(w['order'])))
    if hist:
        m = classes[c.dev]()
        for h in hist:
            try:
                real_observe(Case.from_json(h), classes, mpu=m)
            except Exception:
                pass
        print('history: %d earlier case(s) executed on the same instance first' % len(hist))
        o = real_observe(c, classes, mpu=m)
    else:
        o = real_observe(c, classes)
    rp = run_driver([spec_line(c, o)])[0]
    d, info = compare(c, o, rp)
    print('case   :', c.line('spec'))
    print('real   :', o.raised or [r if r == 'oob' else {k: r[k] for k in ('a', 'x', 'y', 'sp', 'p', 'pc', 'dcyc', 'log')} for r in o.ops])
    print('spec   :', rp)
    for asp, det in d:
        print('DIFF   : [%s] %s' % (asp, det))
    return 1 if d else 0
