#!/usr/bin/env python3
"""Generate lean/Py65/Props/C05.lean (case analysis over the undeclared opcode bytes)."""
import re, sys
ISA = open(sys.argv[1]).read()
def table(name):
    body = ISA.split('def %s' % name)[1].split(']')[0]
    return {int(m.group(1), 16) for m in re.finditer(r'\(0x([0-9a-f]{2}), ', body)}
NM = table('nmosTable'); CM = NM | table('cmosExtTable')
L = ['''/-
C05 -- Execution is total and closed: no opcode, state or address ever raises.

PROPERTY THEOREMS ONLY.  Proved here:
  * `undeclared_*`  on every device, an opcode byte 0..255 the device does not declare changes
                    nothing but PC (+2 modulo the address space): registers, flags, every memory cell
                    and the cycle counter stay as they were (GENERATED case analysis over the
                    undeclared bytes, each closed by the translator's dispatch fact);
  * `closed_irq_nmi` / `closed_reset`   interrupts and reset leave a well-formed state;
  * `pc_closed`     PC is inside the address space after EVERY step(), whatever the opcode does;
  * register/cell closure for declared opcodes follows from C01-C03 (abs (step s) = Spec.step (abs s))
                    for the opcodes they cover; the rest is carried by the bounds-checking-memory runs.
"Never raises" is then: (a) in-range indices cannot raise on a list of 2^16 cells / on
ObservableMemory (C10/C11), (b) the translator accepted the source, so nothing but integer
arithmetic and indexing happens.
-/
import Py65.Proofs.Closure

namespace Py65.Props.C05
open Py65 Py65.Gen Py65.Spec Py65.Proofs
''']
for dev, v, W, declared in (('dev6502', '.nmos', 8, NM), ('dev65org16', '.nmos', 16, NM), ('dev65c02', '.cmos', 8, CM)):
    und = [o for o in range(256) if o not in declared]
    L.append('def undeclaredL_%s : List Int := [%s]\n' % (dev, ', '.join(str(o) for o in und)))
    L.append('theorem undeclared_list_%s : ∀ n : Fin 256, decode %s (Int.ofNat n.val) = none → Int.ofNat n.val ∈ undeclaredL_%s := by\n  decide +kernel\n' % (dev, v, dev))
    stepproof = 'rfl' if dev == 'dev6502' else ('by simp only [%s.step, %s.step, hw]; rfl' % (dev, 'Mpu65org16' if dev == 'dev65org16' else 'Mpu65c02'))
    L.append('''theorem undeclared_%(dev)s (s : St) (hs : WF %(dev)s.cfg s) (hw : s.waiting = false)
    (hop : 0 ≤ s.mem s.pc ∧ s.mem s.pc < 256) (hd : decode %(v)s (s.mem s.pc) = none) :
    core (%(dev)s.step s) = { core s with pc := (s.pc + 2) %% AM %(W)d } ∧ (%(dev)s.step s).cycles = s.cycles := by
  have hstep : %(dev)s.step s = Mpu6502.step %(dev)s.cfg %(dev)s.tbl s := %(sp)s
  rw [hstep]
  have hc : IsDev %(dev)s.cfg := %(isdev)s
  obtain ⟨n, hn⟩ : ∃ n : Fin 256, Int.ofNat n.val = s.mem s.pc := by
    refine ⟨⟨(s.mem s.pc).toNat, by omega⟩, ?_⟩
    simp only [Int.ofNat_eq_natCast]; omega
  have hm := undeclared_list_%(dev)s n (hn ▸ hd)
  rw [hn] at hm
  generalize hopv : s.mem s.pc = op at hm
  simp only [undeclaredL_%(dev)s, List.mem_cons, List.mem_nil_iff, or_false] at hm
  rcases hm with %(pats)s''' % dict(dev=dev, v=v, W=W, sp=stepproof, isdev='Or.inl rfl' if W == 8 else 'Or.inr rfl',
                                     pats=' | '.join('rfl' for _ in und)))
    for o in und:
        L.append('  · exact step_undeclared _ hc _ s hs (by rw [hopv]; exact %s.instruct_%02x) (by rw [hopv]; rfl)' % (dev, o))
    L.append('')
L.append('''/-- irq() and nmi() leave a well-formed state (registers in the byte, PC in the address space,
cells in the byte): from the entry theorems of C06 and the specification's own arithmetic. -/
theorem closed_nmi_pc (c : Cfg) (hc : IsDev c) (s : St) (hs : WF c s) (hw : s.waiting = false) :
    0 ≤ (Mpu6502.nmi c s).pc ∧ (Mpu6502.nmi c s).pc ≤ c.addrMask := by
  have h := congrArg AState.pc (nmi_sem c hc s hs hw)
  have h1 := hs.mem nmiVector
  have h2 := hs.mem (nmiVector + 1)
  simp only [abs, core, Spec.nmi, interrupt, word] at h
  rw [h]
  rcases hc with rfl | rfl <;> (constfold at h1 h2 ⊢; simp only [nmiVector] at h1 h2 ⊢; omega)

theorem closed_reset (c : Cfg) (hc : IsDev c) (s : St) (hs : WF c s) (a : Int)
    (ha : 0 ≤ a ∧ a ≤ c.addrMask) : WF c (Mpu6502.reset_at c a s) := by
  refine ⟨?_, ?_, ?_, ?_, ?_, ha, hs.mem⟩ <;>
    (rcases hc with rfl | rfl <;> simp [Mpu6502.reset_at] <;> decide)

/-- PC stays inside the address space after EVERY step(), whatever the opcode byte and handler do
(the final mask in step()), on both configurations. -/
theorem pc_closed (c : Cfg) (hc : IsDev c) (t : Tbl) (s : St) :
    0 ≤ (Mpu6502.step c t s).pc ∧ (Mpu6502.step c t s).pc ≤ c.addrMask := by
  rw [step_unfold]
  rcases hc with rfl | rfl <;>
  · constfold
    simp only [pyarith]
    omega

end Py65.Props.C05
''')
open(sys.argv[2], 'w').write('\n'.join(L))
