"""Tie by regeneration for the disassembler side (C08 / C09 / C19): run harness/py2lean_dis.py on the
CURRENT source tree (`common.REPO`) before the Lean build.

The translator rewrites lean/Py65/Gen/DisasmGen.lean (only when its content changes).  The modules
`Py65.Proofs.DisasmGenEq` (Gen = hand model) and `Py65.Props.C08g / C09g / C19g` are then rebuilt by
check.py against it; nothing else imports the generated file, so the driver and the hand models build
whatever the translator produced.  A refusal (exit 3) is recorded as a broken tie; the exploration
(correspondence + property oracle) is the failing-input search and still runs.
"""
import json
import os
import subprocess
import sys

from common import LEAN, REPO

HERE = os.path.dirname(os.path.abspath(__file__))
GENEQ_MODULE = 'Py65.Proofs.DisasmGenEq'
GENEQ_NAMESPACE = 'Py65.Proofs.DisasmGenEq'
# the equalities every one of the three checks depends on
GENEQ_THEOREMS = [
    'Py65.Proofs.DisasmGenEq.instruction_at_eq', 'Py65.Proofs.DisasmGenEq.init_eq',
    'Py65.Proofs.DisasmGenEq.label_for_eq', 'Py65.Proofs.DisasmGenEq.label_for_str_eq',
    'Py65.Proofs.DisasmGenEq.itoa_eq_bin', 'Py65.Proofs.DisasmGenEq.itoa_eq_dec',
    'Py65.Proofs.DisasmGenEq.itoa_eq_hex', 'Py65.Proofs.DisasmGenEq.itoa_unsupported',
    'Py65.Proofs.DisasmGenEq.mpuOf_dev6502', 'Py65.Proofs.DisasmGenEq.mpuOf_dev65c02',
    'Py65.Proofs.DisasmGenEq.mpuOf_dev65org16', 'Py65.Proofs.DisasmGenEq.gen_of_model',
    'Py65.Proofs.DisasmGenEq.format_disassembly_eq', 'Py65.Proofs.DisasmGenEq.dump_loop_eq',
    'Py65.Proofs.DisasmGenEq.fmt_devices_are_generated',
]
TRUSTED_TEXT = (
    'REGENERATED on every run by harness/py2lean_dis.py (ast of the current source, never a template): '
    'Disassembler.__init__ / instruction_at (py65/disassembler.py), itoa and _itoa_fmts (py65/utils/conversions.py), '
    'AddressParser.label_for (py65/utils/addressing.py), Monitor._format_disassembly (py65/monitor.py; its Monitor '
    'attributes by a provenance check: every assignment to them in class Monitor is self.X = self._mpu.Y) '
    '-> lean/Py65/Gen/DisasmGen.lean; '
    'Py65/Proofs/DisasmGenEq.lean proves the generated functions equal to the hand models the property theorems '
    'are about (instruction_at_eq for every device record, parser, memory and address; label_for_eq; itoa_eq_*; '
    'format_disassembly_eq = Model.Fmt.formatDisassembly for the three devices, every memory, address, length), and '
    'that the mpu object is the generated device (ByteAt / WordAt of Gen/Mpu6502.lean, live tables and '
    'configuration: mpuOf_dev*); the restated property theorems are Py65/Props/C08g, C09g, C19g')
MODELLED_TEXT = (
    'what remains MODELLED on the disassembler side is library behaviour only, as named functions of '
    'lean/Py65/Model/GenRt.lean, PyStr.lean, PyInt.lean: list indexing (IndexError, negative index), dict.get on a '
    'literal, "%0Nx" % n for the run-time format strings ADDR_FORMAT / BYTE_FORMAT (argument >= 0), "%-Ns" % s, '
    'true division by a positive literal and int() on exact fractions, mpu.memory[a] as a total function, '
    '"{0:b}" / "{0}" / "{0:x}".format(n), %s / %r in format literals (compiled by the translator), str +, int '
    '& ^ << - +, dict iteration in insertion order; CPython evaluation order for the accepted subset; the '
    'translator itself (its output is proved equal to the independently written hand model, which is tied to '
    'the real code by the sampled correspondence of this check)')


def pre_build(ctx):
    """Run the translator; on refusal append a `translator` entry to ctx.broken."""
    rep = os.path.join(ctx.work, 'py2lean_dis.json')
    env = dict(os.environ, PY65_REPO=REPO)
    p = subprocess.run([sys.executable, os.path.join(HERE, 'py2lean_dis.py'), '--repo', REPO,
                        '--out', os.path.join(LEAN, 'Py65', 'Gen'), '--report', rep],
                       stdout=subprocess.PIPE, stderr=subprocess.STDOUT, env=env, timeout=120)
    out = p.stdout.decode('utf-8', 'replace')
    r = {}
    try:
        r = json.load(open(rep))
    except Exception:
        pass
    if p.returncode != 0 or not r.get('ok'):
        ctx.broken.append(dict(kind='translator',
                               what='py2lean_dis refused the disassembler source (%s)' % (r.get('where') or '?'),
                               detail=(r.get('error') or out)[-1500:], where=r.get('where'),
                               function=r.get('function')))
        ctx.stats['translator_dis'] = dict(ok=False, error=r.get('error'), where=r.get('where'))
        return None
    ctx.stats['translator_dis'] = dict(ok=True, functions=r.get('functions'), rewritten=r.get('written'),
                                       source_sha256=r.get('source_sha256'), mpu_interface=r.get('mpu_interface'))
    ctx.trusted.append('py2lean_dis: translated %s; generated file %s' % (
        ', '.join(r.get('functions') or []), 'rewritten' if r.get('written') else 'unchanged (= committed)'))
    return r
