#!/usr/bin/env python3
"""py2lean_mem -- translate class ObservableMemory of py65/memory.py to Lean 4 (tie 1 for C10/C11).

    PYTHONPATH=<repo> py2lean_mem.py --out lean/Py65/Gen --report r.json [--source memory.py]

Parses the module with `ast` (comments, docstrings, blank lines and layout never matter) and writes
`ObsMemGen.lean` (namespace `Py65.Gen.ObsMemGen`): one Lean `def` per method, or two when the method
starts with `if isinstance(<index>, slice): ...` (one per kind of index).  The translation follows
the Python statement by statement in SSA form (every Python variable `x` becomes binders `x_<n>`, so a
consistent rename of a local only renames binders):

  self.<attr>                 field of the state `OM` (table ATTRS); any other attribute is refused
  x = e / x op= e             `let x_n : T := e'`
  if c: A else: B             `if c' then (A'; phi) else (B'; phi)`, phi = the variables (and the state)
                              that an arm rebinds and that are still needed afterwards
  if x is None / is not None  `match x with | none => .. | some x_n => ..`
  for t in xs: body           `xs'.foldl (fun acc t_n => body'; carried) carried`, carried = the variables
                              (and the state) the body rebinds
  [ self[n] for n in r ]      a `foldl` that threads the state and appends the values
  return e                    only in tail position; a function returns `(value, state)` or the state
  callback(a[, v])            `call reply state cb a (none | some v)`  -- the ONLY hand-written
                              convention (PRELUDE): the answer is `reply cb <calls so far> a v`, the
                              call is appended to `log`
  d[k], d.setdefault(k, [])   `d.of k` (the list is remembered as an alias of that dictionary entry)
  l.append(x) on such alias   `Subs.set d k (l ++ [x])`
  x in l / x not in l         `x ∈ l` / `¬ (x ∈ l)`
  range(*s.indices(n))        `sliceRange s n` : Option (List Int); `none` = ValueError; the rest of the
                              function runs under `.bind`
  zip, len, n * [c]           `List.zip`, `List.length`, `Py.listRepeat`
  lst[i] = v, lst[i]          `Py.listSetItem`, application
  lst[a:b] = vals             `Py.listSliceAssign`
  self[i] = v, self[i]        the int-index definition of __setitem__ / __getitem__

Everything else -- another statement kind, operator, attribute, method, call, module-level or
class-level statement, a default value where none is expected, a `return` that is not in tail
position, ... -- raises Refuse: exit code 3 and `{"ok": false, "error", "where", "function"}`.
Library behaviour lives in lean/Py65/Model/PyData.lean and Model/ObsMem.lean (`sliceIndices`).
"""
import argparse
import ast
import hashlib
import json
import os
import sys

GEN_NAME = 'ObsMemGen.lean'
CLASS = 'ObservableMemory'

# Python attribute of the instance -> (kind, Lean field(s) of OM)
ATTRS = {
    'physMask': ('int', 'physMask'),
    '_subject': ('pylist', ('subject', 'subjLen')),
    '_read_subscribers': ('subs', 'rsubs'),
    '_write_subscribers': ('subs', 'wsubs'),
}

# method -> list of specialisations (Lean name, positional parameter types after self)
METHODS = {
    '__init__': [('init', ['optpylist', 'int'])],
    '__setitem__': [('setitem_int', ['int', 'int']), ('setitem_slice', ['slice', 'listint'])],
    '__getitem__': [('getitem_int', ['int']), ('getitem_slice', ['slice'])],
    'subscribe_to_write': [('subscribe_to_write', ['listint', 'cb'])],
    'subscribe_to_read': [('subscribe_to_read', ['listint', 'cb'])],
    'write': [('write', ['int', 'listint'])],
}
UNMODELLED = {'__getattr__'}

LEAN_TYPE = {
    'int': 'Int', 'optint': 'Option Int', 'listint': 'List Int', 'slice': 'Py.PySlice', 'cb': 'Nat',
    'cblist': 'List Nat', 'pylist': 'Py.PyList', 'optpylist': 'Option Py.PyList', 'subs': 'Subs',
    'pairii': 'Int × Int', 'listpairii': 'List (Int × Int)', 'state': 'OM',
}
OPT_OF = {'int': 'optint', 'pylist': 'optpylist'}
UNOPT = {v: k for k, v in OPT_OF.items()}
ELEM = {'listint': 'int', 'cblist': 'cb', 'listpairii': 'pairii'}

PRELUDE = '''\
/-! ### Prelude (hand-written, printed verbatim): what calling a subscriber means

Callbacks are opaque ids.  `callback(address)` (`value = none`) / `callback(address, v)`
(`value = some v`) is answered by the oracle `reply cb callIndex address value`, where `callIndex` is
the number of callback calls made so far on this memory, and the call is appended to the log. -/

def call (reply : Reply) (self : OM) (callback : Nat) (address : Int) (value : Option Int) :
    Option Int × OM :=
  (reply callback self.log.length address value,
   { self with log := self.log ++ [{ cb := callback, addr := address, val := value }] })
'''


class Refuse(Exception):
    def __init__(self, msg, node=None, func=None):
        Exception.__init__(self, msg)
        self.msg, self.node, self.func = msg, node, func


def lit(n):
    return str(n) if n >= 0 else '(%d)' % n


def names_in(nodes):
    out = set()
    for n in nodes:
        for x in ast.walk(n):
            if isinstance(x, ast.Name):
                out.add(x.id)
    return out


def indent(text, k):
    pad = ' ' * k
    return '\n'.join(pad + l if l else l for l in text.split('\n'))


def block_text(stmts, result):
    """A Lean term: the `let`s of `stmts`, then `result`."""
    if not stmts:
        return result
    return '(\n' + indent('\n'.join(stmts + [result]), 2) + ')'


def proj(name, i, n):
    """i-th component of the right-nested n-tuple `name`."""
    if n == 1:
        return name
    return name + '.2' * i + ('.1' if i < n - 1 else '')


def tuple_text(items):
    return items[0] if len(items) == 1 else '(' + ', '.join(items) + ')'


def tuple_type(types):
    return ' × '.join(LEAN_TYPE[t] for t in types)


class Env(object):
    """SSA environment: Python name -> (Lean binder, type); aliases of dictionary entries."""

    def __init__(self):
        self.vars = {}       # insertion ordered
        self.alias = {}      # list variable -> (field, key binder, list binder, field version)
        self.fver = {}       # field -> version
        self.refined = {}    # Python name -> binder introduced by an `is None` match (not an assignment)

    def copy(self):
        e = Env()
        e.vars = dict(self.vars)
        e.alias = dict(self.alias)
        e.fver = dict(self.fver)
        e.refined = dict(self.refined)
        return e


STATE = '$state'


class FnGen(object):
    def __init__(self, tr, pyname, leanname, ptypes, fd):
        self.tr, self.pyname, self.lean, self.ptypes, self.fd = tr, pyname, leanname, ptypes, fd
        self.n = 0
        self.uses_reply = False
        self.raises = False
        self.ret_type = None      # None (not yet known) | 'unit' | a value type
        self.is_init = pyname == '__init__'
        self.selfname = None
        self.last_alias = None

    # -- helpers ------------------------------------------------------------------------
    def refuse(self, msg, node=None):
        raise Refuse(msg, node, self)

    def fresh(self, base):
        self.n += 1
        return '%s_%d' % (base, self.n)

    def bind(self, env, pyname, typ, base=None):
        b = self.fresh(base or pyname)
        env.vars[pyname] = (b, typ)
        env.refined.pop(pyname, None)
        if pyname in env.alias:
            del env.alias[pyname]
        return b

    def state(self, env, node=None):
        if STATE not in env.vars:
            self.refuse('use of the instance state before it exists', node)
        return env.vars[STATE][0]

    def new_state(self, env):
        return self.bind(env, STATE, 'state', base=self.selfname)

    def is_self(self, node):
        return isinstance(node, ast.Name) and node.id == self.selfname

    def self_attr(self, node):
        """`self.<attr>` -> attr name, else None."""
        if isinstance(node, ast.Attribute) and self.is_self(node.value):
            if node.attr not in ATTRS:
                self.refuse('unknown instance attribute self.%s (extra state?)' % node.attr, node)
            return node.attr
        return None

    def coerce(self, text, typ, want, node=None):
        if typ == want:
            return text
        if OPT_OF.get(typ) == want:
            return '(some %s)' % text
        self.refuse('type mismatch: have %s, need %s' % (typ, want), node)

    def join(self, t1, t2, node=None):
        if t1 == t2:
            return t1
        if OPT_OF.get(t1) == t2:
            return t2
        if OPT_OF.get(t2) == t1:
            return t1
        self.refuse('a variable has incompatible types on two paths (%s / %s)' % (t1, t2), node)

    # -- expressions (pure) -------------------------------------------------------------
    def expr(self, node, env):
        """-> (Lean text, type); pure expressions only."""
        if isinstance(node, ast.Constant):
            v = node.value
            if isinstance(v, bool) or not isinstance(v, int):
                if v is None:
                    return '(none : Option Int)', 'optint'
                self.refuse('unsupported constant %r' % (v,), node)
            return lit(v), 'int'
        if isinstance(node, ast.Name):
            if node.id == self.selfname:
                self.refuse('the instance itself used as a value', node)
            if node.id not in env.vars:
                self.refuse('unknown or possibly unassigned name %s' % node.id, node)
            return env.vars[node.id]
        if isinstance(node, ast.Attribute):
            a = self.self_attr(node)
            if a is not None:
                kind, field = ATTRS[a]
                if self.is_init:
                    key = '.' + a
                    if key not in env.vars:
                        self.refuse('self.%s read before it is assigned' % a, node)
                    return env.vars[key]
                if kind == 'int':
                    return '%s.%s' % (self.state(env, node), field), 'int'
                if kind == 'subs':
                    return '%s.%s' % (self.state(env, node), field), 'subs'
                self.refuse('self.%s used as a whole value' % a, node)
            if isinstance(node.value, ast.Name) and node.value.id in env.vars \
                    and env.vars[node.value.id][1] == 'slice' and node.attr in ('start', 'stop', 'step'):
                return '%s.%s' % (env.vars[node.value.id][0], node.attr), 'optint'
            self.refuse('unsupported attribute access .%s' % node.attr, node)
        if isinstance(node, ast.BinOp):
            if isinstance(node.op, ast.Mult):
                for n_, l_ in ((node.left, node.right), (node.right, node.left)):
                    if isinstance(l_, ast.List):
                        items = [self.int_expr(e, env) for e in l_.elts]
                        return '(Py.listRepeat %s [%s])' % (self.int_expr(n_, env), ', '.join(items)), 'pylist'
            a, b = self.int_expr(node.left, env), self.int_expr(node.right, env)
            ops = {ast.Add: '(%s + %s)', ast.Sub: '(%s - %s)', ast.Mult: '(%s * %s)',
                   ast.BitAnd: '(Py.land %s %s)', ast.BitOr: '(Py.lor %s %s)', ast.BitXor: '(Py.lxor %s %s)'}
            f = ops.get(type(node.op))
            if f is None:
                self.refuse('unsupported binary operator %s' % type(node.op).__name__, node)
            return f % (a, b), 'int'
        if isinstance(node, ast.UnaryOp) and isinstance(node.op, ast.USub):
            return '(-%s)' % self.int_expr(node.operand, env), 'int'
        if isinstance(node, ast.List):
            return '[%s]' % ', '.join(self.int_expr(e, env) for e in node.elts), 'listint'
        if isinstance(node, ast.Subscript):
            a = self.self_attr(node.value)
            if a is not None and not isinstance(node.slice, ast.Slice):
                kind, field = ATTRS[a]
                if kind == 'pylist' and not self.is_init:
                    return '(%s.%s %s)' % (self.state(env, node), field[0], self.int_expr(node.slice, env)), 'int'
                if kind == 'subs' and not self.is_init:
                    return self.dict_entry(a, node.slice, env, node)
            self.refuse('unsupported subscript expression', node)
        if isinstance(node, ast.Call):
            return self.call_expr(node, env)
        self.refuse('unsupported expression %s' % type(node).__name__, node)

    def int_expr(self, node, env):
        t, ty = self.expr(node, env)
        if ty != 'int':
            self.refuse('an int is needed here, found %s' % ty, node)
        return t

    def dict_entry(self, attr, keynode, env, node):
        """`self.<dict>[key]` / `.setdefault(key, [])`: the list stored under key (absent = [])."""
        field = ATTRS[attr][1]
        key = self.int_expr(keynode, env)
        self.last_alias = None
        if isinstance(keynode, ast.Name):
            self.last_alias = (field, key)
        return '(%s.%s.of %s)' % (self.state(env, node), field, key), 'cblist'

    def call_expr(self, node, env):
        if node.keywords:
            self.refuse('keyword arguments are not supported', node)
        f = node.func
        if isinstance(f, ast.Name) and f.id not in env.vars:
            if f.id == 'len' and len(node.args) == 1:
                t, ty = self.expr(node.args[0], env)
                if ty not in ELEM:
                    self.refuse('len() of a %s' % ty, node)
                return '(%s.length : Int)' % t, 'int'
            if f.id == 'zip' and len(node.args) == 2:
                a, ta = self.expr(node.args[0], env)
                b, tb = self.expr(node.args[1], env)
                if (ta, tb) != ('listint', 'listint'):
                    self.refuse('zip() of %s and %s' % (ta, tb), node)
                return '(List.zip %s %s)' % (a, b), 'listpairii'
            if f.id == 'defaultdict' and len(node.args) == 1 and isinstance(node.args[0], ast.Name) \
                    and node.args[0].id == 'list' and 'list' not in env.vars:
                return 'Subs.empty', 'subs'
            self.refuse('call of unknown function %s' % f.id, node)
        if isinstance(f, ast.Attribute) and f.attr == 'setdefault' and len(node.args) == 2:
            a = self.self_attr(f.value)
            if a is not None and ATTRS[a][0] == 'subs' and not self.is_init \
                    and isinstance(node.args[1], ast.List) and not node.args[1].elts:
                return self.dict_entry(a, node.args[0], env, node)
        self.refuse('unsupported call', node)

    def test(self, node, env):
        """A condition -> Lean Prop text (decidable)."""
        if isinstance(node, ast.Compare) and len(node.ops) == 1:
            op, l, r = node.ops[0], node.left, node.comparators[0]
            if isinstance(op, (ast.In, ast.NotIn)):
                a, ta = self.expr(l, env)
                b, tb = self.expr(r, env)
                if ELEM.get(tb) != ta:
                    self.refuse('membership test of %s in %s' % (ta, tb), node)
                return ('(%s ∈ %s)' if isinstance(op, ast.In) else '¬ (%s ∈ %s)') % (a, b)
            cmpops = {ast.Lt: '<', ast.LtE: '≤', ast.Gt: '>', ast.GtE: '≥', ast.Eq: '=', ast.NotEq: '≠'}
            if type(op) in cmpops:
                return '(%s %s %s)' % (self.int_expr(l, env), cmpops[type(op)], self.int_expr(r, env))
            self.refuse('unsupported comparison %s' % type(op).__name__, node)
        if isinstance(node, ast.BoolOp):
            sym = ' ∧ ' if isinstance(node.op, ast.And) else ' ∨ '
            return '(' + sym.join(self.test(v, env) for v in node.values) + ')'
        if isinstance(node, ast.UnaryOp) and isinstance(node.op, ast.Not):
            return '¬ ' + self.test(node.operand, env)
        self.refuse('unsupported condition (truthiness of a value is not in the subset)', node)

    # -- effectful right-hand sides -----------------------------------------------------
    def is_effectful(self, node, env):
        if isinstance(node, ast.Call) and isinstance(node.func, ast.Name) and node.func.id in env.vars:
            return True
        if isinstance(node, ast.Subscript) and self.is_self(node.value):
            return True
        if isinstance(node, ast.ListComp):
            return True
        return False

    def is_slice_range(self, node, env):
        """range(*X.indices(E)) with X a slice variable."""
        return (isinstance(node, ast.Call) and isinstance(node.func, ast.Name) and node.func.id == 'range'
                and 'range' not in env.vars and not node.keywords and len(node.args) == 1
                and isinstance(node.args[0], ast.Starred) and isinstance(node.args[0].value, ast.Call)
                and isinstance(node.args[0].value.func, ast.Attribute)
                and node.args[0].value.func.attr == 'indices')

    def effect(self, node, env, out):
        """Translate an effectful expression; appends lets to `out`, rebinds the state in env;
        -> (text, type) of the value."""
        if isinstance(node, ast.Call):
            f = node.func
            cb, ty = env.vars[f.id]
            if ty != 'cb':
                self.refuse('call of a local that is not a callback (%s)' % ty, node)
            if node.keywords or not (1 <= len(node.args) <= 2):
                self.refuse('a callback is called with (address) or (address, value)', node)
            a = self.int_expr(node.args[0], env)
            v = 'none' if len(node.args) == 1 else '(some %s)' % self.int_expr(node.args[1], env)
            self.uses_reply = True
            t = self.fresh('tmp')
            out.append('let %s := call reply %s %s %s %s' % (t, self.state(env, node), cb, a, v))
            s = self.new_state(env)
            out.append('let %s : OM := %s.2' % (s, t))
            return '%s.1' % t, 'optint'
        if isinstance(node, ast.Subscript):
            if isinstance(node.slice, ast.Slice):
                self.refuse('self[a:b] inside the class is not in the subset', node)
            i, ti = self.expr(node.slice, env)
            if ti != 'int':
                self.refuse('self[...] with an index of type %s' % ti, node)
            callee = self.tr.need('__getitem__', 'getitem_int', self, node)
            t = self.fresh('tmp')
            out.append('let %s := %s %s %s' % (t, callee.callhead(self), self.state(env, node), i))
            s = self.new_state(env)
            out.append('let %s : OM := %s.2' % (s, t))
            return '%s.1' % t, callee.ret_type
        if isinstance(node, ast.ListComp):
            if len(node.generators) != 1:
                self.refuse('list comprehension with several generators', node)
            g = node.generators[0]
            if g.ifs or g.is_async or not isinstance(g.target, ast.Name):
                self.refuse('unsupported list comprehension', node)
            it, tit = self.expr(g.iter, env)
            if tit not in ELEM:
                self.refuse('comprehension over a %s' % tit, node)
            acc = self.fresh('acc')
            benv = env.copy()
            x = self.bind(benv, g.target.id, ELEM[tit])
            body = []
            s0 = self.state(env, node)
            sb = self.new_state(benv)
            body.append('let %s : OM := %s.2' % (sb, acc))
            if self.is_effectful(node.elt, benv):
                val, tv = self.effect(node.elt, benv, body)
            else:
                val, tv = self.expr(node.elt, benv)
            if tv != 'int':
                self.refuse('comprehension element of type %s' % tv, node)
            res = '(%s.1 ++ [%s], %s)' % (acc, val, self.state(benv))
            t = self.fresh('tmp')
            out.append('let %s := %s.foldl (fun (%s : List Int × OM) (%s : %s) => %s) ([], %s)' % (
                t, it, acc, x, LEAN_TYPE[ELEM[tit]], block_text(body, res), s0))
            s = self.new_state(env)
            out.append('let %s : OM := %s.2' % (s, t))
            return '%s.1' % t, 'listint'
        self.refuse('unsupported effectful expression', node)

    def rhs(self, node, env, out):
        if self.is_effectful(node, env):
            return self.effect(node, env, out)
        return self.expr(node, env)

    # -- statements ---------------------------------------------------------------------
    def ret_value(self, text, typ, env, node):
        """The Lean term a `return` denotes."""
        rt = 'unit' if typ is None else typ
        if self.ret_type is None:
            self.ret_type = rt
        elif self.ret_type != rt:
            self.refuse('return values of different kinds (%s / %s)' % (self.ret_type, rt), node)
        if self.is_init:
            if rt != 'unit':
                self.refuse('__init__ returns a value', node)
            return self.init_result(env, node)
        r = self.state(env, node) if rt == 'unit' else '(%s, %s)' % (text, self.state(env, node))
        return '(some %s)' % r if self.raises_final else r

    def init_result(self, env, node):
        parts = []
        for a, (kind, field) in ATTRS.items():
            if '.' + a not in env.vars:
                self.refuse('__init__ does not assign self.%s on every path' % a, node)
            b, ty = env.vars['.' + a]
            if ty != kind:
                self.refuse('self.%s is initialised with a %s' % (a, ty), node)
            if kind == 'pylist':
                parts.append('%s := %s.cells, %s := %s.len' % (field[0], b, field[1], b))
            else:
                parts.append('%s := %s' % (field, b))
        return '{ ' + ', '.join(parts) + ', log := [] }'

    def contains_return(self, stmts):
        return any(isinstance(x, ast.Return) for s in stmts for x in ast.walk(s))

    def block(self, stmts, env, live_out, tail):
        """Translate a statement list.  tail: the block ends the function (returns allowed; falling off
        the end returns None).  -> (lets, result) with result None for non-tail blocks."""
        out = []
        stmts = list(stmts)
        i = 0
        while i < len(stmts):
            st = stmts[i]
            rest = stmts[i + 1:]
            live = names_in(rest) | live_out
            # docstrings / pass
            if isinstance(st, ast.Pass) or (isinstance(st, ast.Expr) and isinstance(st.value, ast.Constant)
                                            and isinstance(st.value.value, str)):
                i += 1
                continue
            if isinstance(st, ast.Return):
                if not tail:
                    self.refuse('return inside a loop or a non-final branch', st)
                if rest:
                    self.refuse('statements after return', rest[0])
                if st.value is None or (isinstance(st.value, ast.Constant) and st.value.value is None):
                    return out, self.ret_value(None, None, env, st)
                t, ty = self.rhs(st.value, env, out)
                return out, self.ret_value(t, ty, env, st)
            if isinstance(st, ast.If):
                # static: isinstance(<param>, slice)
                sv = self.static_test(st.test, env)
                if sv is not None:
                    chosen = st.body if sv else st.orelse
                    if chosen and isinstance(chosen[-1], ast.Return):
                        stmts = stmts[:i + 1] + list(chosen)
                    else:
                        stmts = stmts[:i + 1] + list(chosen) + rest
                    i += 1
                    continue
                if self.contains_return([st]):
                    if not tail:
                        self.refuse('return inside a loop or a non-final branch', st)
                    body, orelse = list(st.body), list(st.orelse)
                    if rest:
                        if isinstance(body[-1], ast.Return) and not orelse:
                            orelse = rest
                        elif orelse and isinstance(orelse[-1], ast.Return) and not isinstance(body[-1], ast.Return):
                            body = body + rest
                        else:
                            self.refuse('unsupported placement of return', st)
                    return out, self.branch(st, body, orelse, env, live_out, True, out)
                self.branch(st, st.body, st.orelse, env, live, False, out)
                i += 1
                continue
            if isinstance(st, ast.Assign) and len(st.targets) == 1 and self.is_slice_range(st.value, env):
                if not tail:
                    self.refuse('a call that can raise inside a loop or branch', st)
                if not isinstance(st.targets[0], ast.Name):
                    self.refuse('unsupported assignment target', st)
                c = st.value.args[0].value
                sl, tsl = self.expr(c.func.value, env)
                if tsl != 'slice' or len(c.args) != 1 or c.keywords:
                    self.refuse('.indices() on a %s' % tsl, st)
                n = self.int_expr(c.args[0], env)
                self.raises = True
                r = self.bind(env, st.targets[0].id, 'listint')
                lets, res = self.block(rest, env, live_out, True)
                return out, '(sliceRange %s %s).bind (fun (%s : List Int) => %s)' % (
                    sl, n, r, block_text(lets, res))
            self.simple(st, env, live, out)
            i += 1
        if not tail:
            return out, None
        return out, self.ret_value(None, None, env, self.fd)

    def static_test(self, node, env):
        if isinstance(node, ast.Call) and isinstance(node.func, ast.Name) and node.func.id == 'isinstance' \
                and 'isinstance' not in env.vars and len(node.args) == 2 and not node.keywords \
                and isinstance(node.args[0], ast.Name) and isinstance(node.args[1], ast.Name) \
                and node.args[1].id == 'slice' and 'slice' not in env.vars:
            v = env.vars.get(node.args[0].id)
            if v is None:
                self.refuse('isinstance() of an unknown name', node)
            if v[1] == 'slice':
                return True
            if v[1] == 'int':
                return False
            self.refuse('isinstance(x, slice) for x of type %s' % v[1], node)
        return None

    def none_test(self, node, env):
        """`x is None` / `x is not None` -> (name, True when the body is the None arm)."""
        if isinstance(node, ast.Compare) and len(node.ops) == 1 and isinstance(node.ops[0], (ast.Is, ast.IsNot)):
            c = node.comparators[0]
            if isinstance(c, ast.Constant) and c.value is None and isinstance(node.left, ast.Name):
                return node.left.id, isinstance(node.ops[0], ast.Is)
            self.refuse('unsupported identity test', node)
        return None

    def phi_vars(self, before, arms, live):
        """Variables whose binding differs from `before` at the end of some arm (or that every arm
        defines afresh) and that are still needed."""
        def changed(a, k):
            v = a.vars.get(k)
            if v == before.vars[k]:
                return False
            if v is not None and a.refined.get(k) == v[0]:
                return False
            return True
        names = [k for k in before.vars if any(changed(a, k) for a in arms)]
        for k in arms[0].vars:
            if k not in before.vars and all(k in a.vars for a in arms) and k not in names:
                names.append(k)
        keep = [k for k in names if k == STATE or k.startswith('.') or k in live]
        keep.sort(key=lambda k: k == STATE)
        return keep

    def merge(self, env, before, arms, keep, node):
        """After a branch/loop: env := before + fresh binders for `keep`; -> (types, binders)."""
        types = []
        for k in keep:
            t = None
            for a in arms:
                if k not in a.vars:
                    self.refuse('%s may be unassigned on one path' % k, node)
                t = a.vars[k][1] if t is None else self.join(t, a.vars[k][1], node)
            types.append(t)
        changed_fields = set(f for a in arms for f in a.fver if a.fver[f] != before.fver.get(f))
        env.vars = dict(before.vars)
        env.refined = dict(before.refined)
        env.fver = dict(before.fver)
        env.alias = dict((k, v) for k, v in before.alias.items() if v[0] not in changed_fields)
        for f in changed_fields:
            env.fver[f] = self.fresh('v')
        binders = []
        for k, t in zip(keep, types):
            base = self.selfname if k == STATE else ('self' + k.replace('.', '_') if k.startswith('.') else k)
            binders.append(self.bind(env, k, t, base=base))
        # names defined in one arm only are not defined afterwards
        return types, binders

    def arm_result(self, a, keep, types, node):
        items = []
        for k, t in zip(keep, types):
            b, ty = a.vars[k]
            items.append(self.coerce(b, ty, t, node))
        return tuple_text(items)

    def branch(self, st, body, orelse, env, live, tail, out):
        before = env.copy()
        nt = self.none_test(st.test, env)
        e1, e2 = env.copy(), env.copy()
        if nt is not None:
            name, body_is_none = nt
            if name not in env.vars or env.vars[name][1] not in UNOPT:
                self.refuse('`is None` test of %s, which is not an optional value here'
                            % name, st)
            scrut, oty = env.vars[name]
            some_env = e2 if body_is_none else e1
            inner = self.bind(some_env, name, UNOPT[oty])
            some_env.refined[name] = inner
            head = ['| none =>', '| some %s =>' % inner]
            order = [(body, e1), (orelse, e2)] if body_is_none else [(orelse, e2), (body, e1)]
            intro = 'match %s with' % scrut
        else:
            cond = self.test(st.test, env)
            head = ['then', 'else']
            order = [(body, e1), (orelse, e2)]
            intro = 'if %s' % cond
        if tail:
            texts = []
            for (ss, e) in order:
                lets, res = self.block(ss, e, live, True)
                texts.append(block_text(lets, res))
        else:
            done = []
            for (ss, e) in order:
                lets, _ = self.block(ss, e, live, False)
                done.append((lets, e))
            keep = self.phi_vars(before, [e for _, e in done], live)
            if not keep:
                # an arm without any visible effect
                return None
            tmp_env = env
            types, binders = self.merge(tmp_env, before, [e for _, e in done], keep, st)
            texts = [block_text(lets, self.arm_result(e, keep, types, st)) for lets, e in done]
        if nt is not None:
            term = '(%s\n%s\n%s)' % (intro, indent('%s %s' % (head[0], texts[0]), 2),
                                     indent('%s %s' % (head[1], texts[1]), 2))
        else:
            term = '(%s\n%s\n%s)' % (intro, indent('then %s' % texts[0], 2), indent('else %s' % texts[1], 2))
        if tail:
            return term
        if len(keep) == 1:
            out.append('let %s : %s := %s' % (binders[0], LEAN_TYPE[types[0]], term))
        else:
            t = self.fresh('tmp')
            out.append('let %s : %s := %s' % (t, tuple_type(types), term))
            for j, (b, ty) in enumerate(zip(binders, types)):
                out.append('let %s : %s := %s' % (b, LEAN_TYPE[ty], proj(t, j, len(keep))))
        return None

    def loop(self, st, env, live, out):
        if st.orelse:
            self.refuse('for ... else', st)
        if any(isinstance(x, (ast.Break, ast.Continue, ast.Return)) for s in st.body for x in ast.walk(s)):
            self.refuse('break / continue / return inside a loop', st)
        it, tit = self.expr(st.iter, env)
        if tit not in ELEM:
            self.refuse('loop over a %s' % tit, st.iter)
        if isinstance(st.iter, ast.Name) and st.iter.id in env.alias:
            for x in ast.walk(st):
                if isinstance(x, ast.Attribute) and x.attr == 'append' and isinstance(x.value, ast.Name) \
                        and x.value.id == st.iter.id:
                    self.refuse('the list being iterated is modified in the loop', x)
        et = ELEM[tit]
        body_live = (names_in(st.body) | live)
        before = env.copy()

        def run(carried, types):
            """Translate the body with `carried` bound by the lambda."""
            e = before.copy()
            lets = []
            acc = None
            if carried:
                if len(carried) == 1:
                    acc = self.bind(e, carried[0], types[0],
                                    base=self.selfname if carried[0] == STATE else None)
                else:
                    acc = self.fresh('acc')
                    for j, (k, t) in enumerate(zip(carried, types)):
                        b = self.bind(e, k, t, base=self.selfname if k == STATE else None)
                        lets.append('let %s : %s := %s' % (b, LEAN_TYPE[t], proj(acc, j, len(carried))))
            entry = e.copy()
            if isinstance(st.target, ast.Name):
                x = self.bind(e, st.target.id, et)
            elif isinstance(st.target, ast.Tuple) and et == 'pairii' and len(st.target.elts) == 2 \
                    and all(isinstance(z, ast.Name) for z in st.target.elts):
                x = self.fresh('item')
                for j, z in enumerate(st.target.elts):
                    b = self.bind(e, z.id, 'int')
                    lets.append('let %s : Int := %s.%d' % (b, x, j + 1))
            else:
                self.refuse('unsupported loop target', st.target)
            more, _ = self.block(st.body, e, set(k for k in body_live if k in before.vars), False)
            return entry, e, acc, x, lets + more

        n0 = self.n
        flags = (self.uses_reply, self.raises)
        entry, e, _, _, _ = run([], [])
        tnames = names_in([st.target])
        carried = [k for k in before.vars
                   if e.vars.get(k) != before.vars[k] and k not in tnames
                   and (k == STATE or k.startswith('.') or k in body_live)]
        for k in tnames:
            if k in before.vars and k in live:
                self.refuse('the loop variable %s is used after the loop' % k, st)
        carried.sort(key=lambda k: k == STATE)
        if not carried:
            self.refuse('a loop without any effect on later code', st)
        types = []
        for k in carried:
            t0, t1 = before.vars[k][1], e.vars[k][1]
            if t1 != t0 and OPT_OF.get(t1) != t0:
                self.refuse('%s changes its type in the loop (%s -> %s)' % (k, t0, t1), st)
            types.append(t0)
        self.n = n0
        self.uses_reply, self.raises = flags
        entry, e, acc, x, lets = run(carried, types)
        res = tuple_text([self.coerce(e.vars[k][0], e.vars[k][1], t, st) for k, t in zip(carried, types)])
        init = tuple_text([before.vars[k][0] for k in carried])
        fn = '(fun (%s : %s) (%s : %s) => %s)' % (acc, tuple_type(types), x, LEAN_TYPE[et],
                                                   block_text(lets, res))
        term = '%s.foldl %s %s' % (it, fn, init)
        # after the loop
        e_after = e
        types2, binders = self.merge(env, before, [e_after], carried, st)
        for k in list(env.vars):
            if k in tnames:
                del env.vars[k]
        if len(carried) == 1:
            out.append('let %s : %s := %s' % (binders[0], LEAN_TYPE[types[0]], term))
        else:
            t = self.fresh('tmp')
            out.append('let %s : %s := %s' % (t, tuple_type(types), term))
            for j, (b, ty) in enumerate(zip(binders, types)):
                out.append('let %s : %s := %s' % (b, LEAN_TYPE[ty], proj(t, j, len(carried))))

    def simple(self, st, env, live, out):
        if isinstance(st, ast.For):
            return self.loop(st, env, live, out)
        if isinstance(st, ast.AugAssign):
            if not isinstance(st.target, ast.Name):
                self.refuse('augmented assignment to something that is not a local', st)
            fake = ast.BinOp(left=ast.Name(id=st.target.id, ctx=ast.Load()), op=st.op, right=st.value)
            ast.copy_location(fake, st)
            ast.copy_location(fake.left, st)
            t, ty = self.expr(fake, env)
            b = self.bind(env, st.target.id, ty)
            out.append('let %s : %s := %s' % (b, LEAN_TYPE[ty], t))
            return
        if isinstance(st, ast.Assign):
            if len(st.targets) != 1:
                self.refuse('chained assignment', st)
            tg = st.targets[0]
            if isinstance(tg, ast.Name):
                if tg.id == self.selfname:
                    self.refuse('assignment to self', st)
                self.last_alias = None
                t, ty = self.rhs(st.value, env, out)
                al = self.last_alias if ty == 'cblist' else None
                b = self.bind(env, tg.id, ty)
                out.append('let %s : %s := %s' % (b, LEAN_TYPE[ty], t))
                if al is not None:
                    env.alias[tg.id] = (al[0], al[1], b, env.fver.get(al[0]))
                return
            a = self.self_attr(tg)
            if a is not None:
                kind, field = ATTRS[a]
                t, ty = self.expr(st.value, env)
                if ty != kind:
                    self.refuse('self.%s is assigned a %s' % (a, ty), st)
                if self.is_init:
                    b = self.bind(env, '.' + a, ty, base='self_' + a.lstrip('_'))
                    out.append('let %s : %s := %s' % (b, LEAN_TYPE[ty], t))
                    return
                s0 = self.state(env, st)
                s = self.new_state(env)
                if kind == 'pylist':
                    out.append('let %s : OM := { %s with %s := %s.cells, %s := %s.len }' % (
                        s, s0, field[0], t, field[1], t))
                else:
                    out.append('let %s : OM := { %s with %s := %s }' % (s, s0, field, t))
                if kind == 'subs':
                    env.fver[field] = self.fresh('v')
                return
            if isinstance(tg, ast.Subscript):
                if self.is_self(tg.value):
                    if isinstance(tg.slice, ast.Slice):
                        self.refuse('self[a:b] = ... inside the class is not in the subset', st)
                    i, ti = self.expr(tg.slice, env)
                    if ti != 'int':
                        self.refuse('self[...] = ... with an index of type %s' % ti, st)
                    v = self.int_expr(st.value, env)
                    callee = self.tr.need('__setitem__', 'setitem_int', self, st)
                    s0 = self.state(env, st)
                    s = self.new_state(env)
                    out.append('let %s : OM := %s %s %s %s' % (s, callee.callhead(self), s0, i, v))
                    return
                a = self.self_attr(tg.value)
                if a is not None and ATTRS[a][0] == 'pylist' and not self.is_init:
                    f_cells, f_len = ATTRS[a][1]
                    s0 = self.state(env, st)
                    if isinstance(tg.slice, ast.Slice):
                        sl = tg.slice
                        if sl.step is not None or sl.lower is None or sl.upper is None:
                            self.refuse('list slice assignment needs both bounds and no step', st)
                        lo, hi = self.int_expr(sl.lower, env), self.int_expr(sl.upper, env)
                        v, tv = self.expr(st.value, env)
                        if tv != 'listint':
                            self.refuse('list slice assignment of a %s' % tv, st)
                        t = self.fresh('tmp')
                        out.append('let %s := Py.listSliceAssign %s.%s %s.%s %s %s %s' % (
                            t, s0, f_cells, s0, f_len, lo, hi, v))
                        s = self.new_state(env)
                        out.append('let %s : OM := { %s with %s := %s.1, %s := %s.2 }' % (
                            s, s0, f_cells, t, f_len, t))
                        return
                    i = self.int_expr(tg.slice, env)
                    v = self.int_expr(st.value, env)
                    s = self.new_state(env)
                    out.append('let %s : OM := { %s with %s := Py.listSetItem %s.%s %s %s }' % (
                        s, s0, f_cells, s0, f_cells, i, v))
                    return
            self.refuse('unsupported assignment target', st)
        if isinstance(st, ast.Expr):
            v = st.value
            if isinstance(v, ast.Call) and isinstance(v.func, ast.Attribute) and v.func.attr == 'append' \
                    and isinstance(v.func.value, ast.Name) and len(v.args) == 1 and not v.keywords:
                l = v.func.value.id
                al = env.alias.get(l)
                if al is None or l not in env.vars or env.vars[l][0] != al[2] or env.fver.get(al[0]) != al[3]:
                    self.refuse('.append on a list that is not a live alias of a subscriber-dictionary entry', st)
                field, key, lb, _ = al
                kn = [k for k, (b, _) in env.vars.items() if b == key]
                if not kn:
                    self.refuse('the key of the aliased dictionary entry was reassigned', st)
                x, tx = self.expr(v.args[0], env)
                if tx != 'cb':
                    self.refuse('.append of a %s to a subscriber list' % tx, st)
                nb = self.bind(env, l, 'cblist')
                out.append('let %s : List Nat := %s ++ [%s]' % (nb, lb, x))
                s0 = self.state(env, st)
                s = self.new_state(env)
                out.append('let %s : OM := { %s with %s := Subs.set %s.%s %s %s }' % (
                    s, s0, field, s0, field, key, nb))
                env.fver[field] = self.fresh('v')
                env.alias[l] = (field, key, nb, env.fver[field])
                return
            if self.is_effectful(v, env) and not isinstance(v, ast.ListComp):
                self.effect(v, env, out)
                return
            self.refuse('unsupported expression statement', st)
        self.refuse('unsupported statement %s' % type(st).__name__, st)

    # -- whole function -----------------------------------------------------------------
    def callhead(self, caller):
        if self.uses_reply:
            caller.uses_reply = True
            return '%s reply' % self.lean
        return self.lean

    def translate(self):
        fd = self.fd
        a = fd.args
        if fd.decorator_list:
            self.refuse('decorated method', fd)
        if a.vararg or a.kwarg or a.kwonlyargs or a.posonlyargs or a.kw_defaults:
            self.refuse('unsupported signature', fd)
        names = [x.arg for x in a.args]
        for x in names:
            if not x.isascii():
                self.refuse('non-ASCII identifier', fd)
        if len(names) != len(self.ptypes) + 1:
            self.refuse('%s takes %d parameters, expected %d' % (self.pyname, len(names) - 1, len(self.ptypes)), fd)
        self.selfname = names[0]
        self.defaults = []
        if a.defaults:
            if not self.is_init:
                self.refuse('default values are only expected on __init__', fd)
            off = len(names) - len(a.defaults)
            for j, d in enumerate(a.defaults):
                pos = off + j       # index into names (>= 1)
                ty = self.ptypes[pos - 1]
                if isinstance(d, ast.Constant) and d.value is None and ty in UNOPT:
                    self.defaults.append((pos, ty, 'none'))
                elif isinstance(d, ast.Constant) and isinstance(d.value, int) and not isinstance(d.value, bool) \
                        and ty == 'int':
                    self.defaults.append((pos, ty, lit(d.value)))
                else:
                    self.refuse('unsupported default value', d)
        env = Env()
        params = []
        if not self.is_init:
            env.vars[STATE] = (self.selfname + '_0', 'state')
            params.append('(%s_0 : OM)' % self.selfname)
        for x, t in zip(names[1:], self.ptypes):
            env.vars[x] = (x + '_0', t)
            params.append('(%s_0 : %s)' % (x, LEAN_TYPE[t]))
        self.n = 0
        # does the function contain a raising construct?  (needed before returns are emitted)
        self.raises_final = any(self.is_slice_range(x, Env()) for x in ast.walk(fd) if isinstance(x, ast.Call)) \
            and self.spec_reaches_raise()
        lets, res = self.block(fd.body, env, set(), True)
        if self.raises != self.raises_final:
            self.refuse('internal: inconsistent exception analysis', fd)
        rt = self.ret_type or 'unit'
        lean_rt = 'OM' if rt == 'unit' else '%s × OM' % LEAN_TYPE[rt]
        if self.raises:
            lean_rt = 'Option (%s)' % lean_rt
        sig = 'def %s %s%s : %s :=' % (self.lean, '(reply : Reply) ' if self.uses_reply else '',
                                       ' '.join(params), lean_rt)
        body = '\n'.join(lets + [res])
        text = sig + '\n' + indent(body, 2) + '\n'
        for pos, ty, v in self.defaults:
            text += '\ndef %s.default_%d : %s := %s\n' % (self.lean, pos, LEAN_TYPE[ty], v)
        return text

    def spec_reaches_raise(self):
        """Is the raising construct in the part of the body this specialisation executes?"""
        slice_params = [t for t in self.ptypes if t == 'slice']

        def reach(stmts):
            for st in stmts:
                if isinstance(st, ast.If) and isinstance(st.test, ast.Call) \
                        and isinstance(st.test.func, ast.Name) and st.test.func.id == 'isinstance':
                    chosen = st.body if slice_params else st.orelse
                    if reach(chosen):
                        return True
                    if chosen and isinstance(chosen[-1], ast.Return):
                        return False
                    continue
                if any(isinstance(x, ast.Call) and self.is_slice_range(x, Env()) for x in ast.walk(st)):
                    return True
            return False
        return reach(self.fd.body)


class Translator(object):
    def __init__(self, path):
        self.path = path
        self.src = open(path, 'rb').read()
        self.tree = ast.parse(self.src.decode('utf-8'), filename=path)
        self.done = {}        # lean name -> FnGen
        self.texts = {}       # lean name -> text
        self.in_progress = []
        self.methods = {}

    def check_module(self):
        cls = None
        seen_import = False
        for st in self.tree.body:
            if isinstance(st, ast.Expr) and isinstance(st.value, ast.Constant) and isinstance(st.value.value, str):
                continue
            if isinstance(st, ast.ImportFrom) and st.module == 'collections' and st.level == 0 \
                    and [(x.name, x.asname) for x in st.names] == [('defaultdict', None)]:
                seen_import = True
                continue
            if isinstance(st, ast.ClassDef) and st.name == CLASS and cls is None:
                cls = st
                continue
            raise Refuse('unexpected module-level statement %s' % type(st).__name__, st)
        if cls is None:
            raise Refuse('class %s not found' % CLASS, self.tree)
        if not seen_import:
            raise Refuse('`from collections import defaultdict` not found', self.tree)
        if cls.decorator_list or cls.keywords or \
                [b.id if isinstance(b, ast.Name) else '?' for b in cls.bases] not in ([], ['object']):
            raise Refuse('class %s has bases, keywords or decorators' % CLASS, cls)
        for st in cls.body:
            if isinstance(st, ast.Expr) and isinstance(st.value, ast.Constant) and isinstance(st.value.value, str):
                continue
            if isinstance(st, ast.Pass):
                continue
            if isinstance(st, ast.FunctionDef):
                if st.name in self.methods:
                    raise Refuse('method %s defined twice' % st.name, st)
                if st.name not in METHODS and st.name not in UNMODELLED:
                    raise Refuse('unexpected method %s (not in the translator\'s table)' % st.name, st)
                self.methods[st.name] = st
                continue
            raise Refuse('unexpected class-level statement %s' % type(st).__name__, st)
        for m in list(METHODS) + sorted(UNMODELLED):
            if m not in self.methods:
                raise Refuse('method %s not found' % m, cls)
        self.check_getattr(self.methods['__getattr__'])

    def check_getattr(self, fd):
        """__getattr__ is not modelled; it must be the plain delegation to the backing list."""
        body = [s for s in fd.body if not (isinstance(s, ast.Expr) and isinstance(s.value, ast.Constant))]
        a = fd.args
        ok = (len(a.args) == 2 and not (a.vararg or a.kwarg or a.kwonlyargs or a.defaults or fd.decorator_list)
              and len(body) == 1 and isinstance(body[0], ast.Return) and isinstance(body[0].value, ast.Call))
        if ok:
            c = body[0].value
            ok = (isinstance(c.func, ast.Name) and c.func.id == 'getattr' and len(c.args) == 2 and not c.keywords
                  and isinstance(c.args[0], ast.Attribute) and isinstance(c.args[0].value, ast.Name)
                  and c.args[0].value.id == a.args[0].arg and c.args[0].attr == '_subject'
                  and isinstance(c.args[1], ast.Name) and c.args[1].id == a.args[1].arg)
        if not ok:
            raise Refuse('__getattr__ is not the plain delegation `return getattr(self._subject, name)`', fd)

    def need(self, method, leanname, caller, node):
        if leanname in self.done:
            return self.done[leanname]
        if leanname in self.in_progress:
            raise Refuse('recursive use of %s' % leanname, node, caller)
        for ln, ptypes in METHODS[method]:
            if ln == leanname:
                return self.gen(method, ln, ptypes)
        raise Refuse('internal: no specialisation %s' % leanname, node, caller)

    def gen(self, method, leanname, ptypes):
        g = FnGen(self, method, leanname, ptypes, self.methods[method])
        self.in_progress.append(leanname)
        text = g.translate()
        self.in_progress.remove(leanname)
        self.done[leanname] = g
        self.texts[leanname] = text
        self.order.append(leanname)
        return g

    def run(self):
        self.check_module()
        self.order = []
        for m, specs in METHODS.items():
            for ln, ptypes in specs:
                if ln not in self.done:
                    self.gen(m, ln, ptypes)
        out = []
        out.append('/- GENERATED by harness/py2lean_mem.py from py65/memory.py (class %s) -- do not edit.' % CLASS)
        out.append('   One definition per method (two when the method distinguishes `isinstance(index, slice)`);')
        out.append('   binders are the Python names with an SSA index.  `__getattr__` is not modelled. -/')
        out.append('import Py65.Model.PyData')
        out.append('')
        out.append('set_option linter.unusedVariables false')
        out.append('')
        out.append('namespace Py65.Gen.ObsMemGen')
        out.append('open Py65.Model.ObsMem')
        out.append('')
        out.append(PRELUDE)
        out.append('/-! ### Translated methods -/')
        out.append('')
        for ln in self.order:
            g = self.done[ln]
            out.append('/-- `%s.%s`%s -/' % (CLASS, g.pyname,
                                             '' if len(METHODS[g.pyname]) == 1 else
                                             ' for %s index' % ('a slice' if 'slice' in g.ptypes else 'an int')))
            out.append(self.texts[ln])
        out.append('end Py65.Gen.ObsMemGen')
        return '\n'.join(out) + '\n'


def main():
    ap = argparse.ArgumentParser()
    ap.add_argument('--out', required=True)
    ap.add_argument('--report', default=None)
    ap.add_argument('--source', default=None, help='memory.py (default: py65/memory.py found on sys.path)')
    args = ap.parse_args()
    report = {'ok': False}
    rc = 0
    path = args.source
    try:
        if path is None:
            for d in sys.path:
                p = os.path.join(d or '.', 'py65', 'memory.py')
                if os.path.isfile(p):
                    path = p
                    break
        if path is None:
            raise Refuse('py65/memory.py not found on sys.path')
        report['source'] = path
        tr = Translator(path)
        report['source_sha256'] = hashlib.sha256(tr.src).hexdigest()
        text = tr.run()
        os.makedirs(args.out, exist_ok=True)
        p = os.path.join(args.out, GEN_NAME)
        old = open(p).read() if os.path.exists(p) else None
        written = []
        if old != text:
            with open(p, 'w') as f:
                f.write(text)
            written.append(GEN_NAME)
        report.update(ok=True, files=[GEN_NAME], written=written, functions=len(tr.order),
                      definitions=list(tr.order))
    except Refuse as ex:
        report['error'] = ex.msg
        if ex.func is not None:
            report['function'] = 'Py65.Gen.ObsMemGen.%s (%s)' % (ex.func.lean, ex.func.pyname)
        if ex.node is not None and hasattr(ex.node, 'lineno'):
            report['where'] = '%s:%d' % (path, ex.node.lineno)
        sys.stderr.write('py2lean_mem: refused: %s%s\n' % (ex.msg, (' at ' + report['where']) if 'where' in report else ''))
        rc = 3
    except SyntaxError as ex:
        report['error'] = 'syntax error: %s' % ex
        report['where'] = '%s:%s' % (path, ex.lineno)
        rc = 3
    except Exception as ex:      # a translator bug is a refusal, never a silent approximation
        import traceback
        report['error'] = 'internal error of the translator: %s: %s' % (type(ex).__name__, ex)
        report['traceback'] = traceback.format_exc()[-1500:]
        sys.stderr.write(report['traceback'])
        rc = 3
    if rc != 0:
        # never leave a stale translation behind: the generated file becomes a stub that does not
        # check, so everything proved about "the regenerated model" is visibly unproved (only
        # Proofs/ObsMemGenEq, Props/C10g, Props/C11g import it; the rest of the library still builds)
        try:
            write_stub(args.out, report)
        except OSError:
            pass
    if args.report:
        with open(args.report, 'w') as f:
            json.dump(report, f, indent=1)
    sys.exit(rc)


def write_stub(outdir, report):
    msg = 'py2lean_mem refused py65/memory.py: %s' % report.get('error', '?')
    if report.get('where'):
        msg += ' at %s' % os.path.basename(report['where'])
    if report.get('function'):
        msg += ' in %s' % report['function']
    msg = ''.join(c if (32 <= ord(c) < 127 and c not in '"\\') else ' ' for c in msg)
    text = ('/- GENERATED by harness/py2lean_mem.py -- the translator REFUSED the current py65/memory.py;\n'
            '   this stub deliberately does not check (no stale model is left behind). -/\n'
            'import Py65.Model.PyData\n\n'
            'namespace Py65.Gen.ObsMemGen\n\n'
            'example : False := by fail "%s"\n\n'
            'end Py65.Gen.ObsMemGen\n' % msg)
    os.makedirs(outdir, exist_ok=True)
    p = os.path.join(outdir, GEN_NAME)
    old = open(p).read() if os.path.exists(p) else None
    if old != text:
        with open(p, 'w') as f:
            f.write(text)
        report['written'] = [GEN_NAME]


if __name__ == '__main__':
    main()
