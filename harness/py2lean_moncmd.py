#!/usr/bin/env python3
"""py2lean_moncmd.py -- translator (tie 1) for the monitor's dispatcher and state-owning commands (C20).

    py2lean_moncmd.py --out lean/Py65/Gen --report r.json [--source monitor.py] [--cmd-source cmd.py]

Parses `$PY65_REPO/py65/monitor.py` AND the standard library's `cmd.py` of the running interpreter
(`import cmd; cmd.__file__`, pinned by sha256: another text is a REFUSAL with an explanation, never a
silent re-translation) with `ast` and emits `Py65/Gen/MonCmdGen.lean` (unit `cmds`):

    doNames, identchars                       the `do_*` attribute names of a Monitor (its own methods, then
                                              cmd.Cmd's), `cmd.Cmd.identchars`
    help_* (as called), do_quit, do_radix, do_width, do_registers, do_add_label, do_show_labels,
    do_delete_label                           Monitor methods, statement by statement
    call_do                                   `func(arg)` for `func = getattr(self, 'do_' + cmd)`: the translated
                                              methods by name, every other name through the parameter `oth`
    Cmd_parseline, Cmd_default, Cmd_emptyline, Cmd_onecmd      cmd.Cmd (installed stdlib source)
    _output_mpu_status, onecmd                Monitor

It reuses the machinery of py2lean_mon.py (class FnTr: shallow embedding, CPS for non-local exits, loops
as recursive functions, static resolution of raise points) and adds, for this unit only:
  * functions that RETURN values (`PyRet` = None | int; `parseline` returns a tuple), tail calls,
    calls whose value is used (`cmd, arg, line = self.parseline(line)`);
  * `try` around calls whose exception is only known at run time (`number()`, a translated method):
    `match ... with | .error e_ => if e_ = .KeyError then <handler> else ...`; `except X as exc` with
    `exc.args[0]` for the KeyError of `number()`; `try ... else`;
  * the virtual call `self.onecmd(...)` inside cmd.Cmd = parameter `self_onecmd` (Monitor overrides
    `onecmd`; the translator checks that it overrides nothing else of what is translated), the explicit
    base call `cmd.Cmd.onecmd(self, line)`, recursion through `emptyline` bounded by `fuel`;
  * `while a and b` with a raising operand (short circuit as nested `if`s), `del d[k]`, dict literals,
    `getattr / hasattr / setattr / repr(self._mpu) / list / zip / .sort() / .strip() / .lower() /
    self.stdout.write(<text ending in \\n>) / ''.join(traceback.format_exception(*sys.exc_info()))`,
    `%r`, and `re.findall` for exactly the pattern string in TABLE_FINDALL.
Anything else -> exit 3 and {"ok": false, "error", "where", "function"}.
"""
import argparse
import ast
import hashlib
import json
import os
import re
import string
import sys

HERE = os.path.dirname(os.path.abspath(__file__))
if HERE not in sys.path:
    sys.path.insert(0, HERE)
import py2lean_mon as M  # noqa: E402
from py2lean_mon import (Unsupported, NeedCPS, Val, Bind, Ctl, Loop, Handler, FnTr, INT, BOOL, PROP, STR, CHAR,  # noqa: E402,F401
                         NONE, tlist, topt, ttuple, lean_type, lean_strlist, lean_char, ind, proj, unparse1,
                         path_of, class_methods)

# the text of cmd.py this translation is pinned to (CPython 3.12.1)
CMD_PY_SHA256 = 'fb82a8c4e44e5b559c88d516d79051534cec69a463df97defe05ac8a261f0a0d'
CMD_PY_VERSION = 'CPython 3.12.1'

PYRET = topt(INT)
DICT_SI = tlist(ttuple([STR, INT]))
PAIRS_SS = tlist(ttuple([STR, STR]))
PARSED = ttuple([topt(STR), topt(STR), STR])
FLOWFN = 'Str → CmdSt → Flow CmdSt PyRet'

# the only regular expression accepted with re.findall: pattern string -> (Lean scanner, result type)
TABLE_FINDALL = {r'([^=,\s]*)=([^=,\s]*)': ('MonCmd.findPairs', PAIRS_SS)}
EXC_CTORS = ('IndexError', 'TypeError', 'ValueError', 'KeyError', 'OverflowError')
TRACEBACK_JOIN = "''.join(traceback.format_exception(*sys.exc_info()))"
R_SPEC = re.compile(r'%(.)?', re.S)

TRANSLATED_DO = ['do_quit', 'do_radix', 'do_width', 'do_registers', 'do_add_label', 'do_show_labels',
                 'do_delete_label']
CMD_FUNCS = ['parseline', 'default', 'emptyline', 'onecmd']
VIRT = {'Cmd_emptyline': [('self_onecmd', FLOWFN)], 'Cmd_onecmd': [('self_onecmd', FLOWFN)]}
ROOT = 'onecmd'

UNIT = dict(
    file='MonCmdGen.lean', ns='Py65.Gen.MonCmdGen', mode='flow', state='CmdSt',
    params=[('oth', 'Str → Str → CmdSt → Flow CmdSt PyRet'), ('tb', 'Exc → Str'), ('mpuRepr', 'Core → Str')],
    funcs=[],       # filled per run (help_* as called)
    sigs={}, rets={},
    attrs={
        ('self', 'byteMask'): ('cfg', 'σ.core.dev.byteMask', INT),
        ('self', 'addrFmt'): ('hexfmt', '(addrFmtW σ.core.dev)'),
        ('self', '_width'): ('field', ('core', 'width'), INT),
        ('self', 'lastcmd'): ('field', ('lastcmd',), STR),
        ('self', '_address_parser'): ('obj', 'parser'),
        ('self', '_address_parser', 'radix'): ('fieldx', '(σ.core.radix : Int)', ('core', 'radix'), 'Int.toNat %s', INT),
        ('self', '_address_parser', 'labels'): ('field', ('core', 'labels'), DICT_SI),
        ('self', '_mpu'): ('obj', 'mpu'),
        ('self', 'identchars'): ('const', 'identchars', STR),
        ('self', 'stdout'): ('obj', 'stdout'),
    },
    uses_output=True,
)


class CmdFnTr(FnTr):
    """one function of unit `cmds`; `origin` = 'monitor' | 'cmd' (which class body the text comes from)"""

    def __init__(self, unit, methods, fname, fuel_of, origin, mon_names, cmd_names, srcfile):
        self.origin, self.mon_names, self.cmd_names, self.srcfile = origin, mon_names, cmd_names, srcfile
        FnTr.__init__(self, 'cmds', unit, methods, fname, fuel_of, {})
        for n in self.pynames:
            if n in ('e_', 'self_onecmd', 'oth', 'tb', 'mpuRepr', 'identchars', 'doNames', 'call_do'):
                self.fail('local name %s collides with a name of the generated module' % n, self.fd)

    # -- naming / parameters ---------------------------------------------------------------
    def mangle(self, n):
        return n + '_' if (n in M.LEAN_KEYWORDS or n in M.RESERVED or n in ('default', 'e_')) else n

    def extras(self, fname=None):
        return VIRT.get(fname or self.fname, [])

    def pnames(self):
        return ' '.join([p for p, _ in self.unit['params']] + [p for p, _ in self.extras()])

    def pdecl(self):
        return ' '.join('(%s : %s)' % pt for pt in self.unit['params'] + self.extras())

    def callee_of(self, func, env):
        """Lean callee for a call through `self.<m>` / `cmd.Cmd.<m>(self, ..)`: (kind, name, skip_first_arg)"""
        p = self.resolve_path(func, env)
        if p is None:
            return None
        if len(p) == 3 and p[:2] == ('cmd', 'Cmd'):
            if 'Cmd_' + p[2] in self.unit['funcs']:
                return ('fn', 'Cmd_' + p[2], True)
            return None
        if len(p) == 2 and p[0] == 'self':
            m = p[1]
            if m in self.mon_names:
                if m == ROOT and self.origin == 'cmd':
                    return ('virtual', 'self_onecmd', False)       # Monitor overrides onecmd
                if m in self.unit['funcs'] and not m.startswith('Cmd_'):
                    return ('fn', m, False)
                return None
            if m in self.cmd_names and 'Cmd_' + m in self.unit['funcs']:
                return ('fn', 'Cmd_' + m, False)
        return None

    def flow_call_text(self, node, callee, env, pre, ctl):
        kind, name, skip = callee
        args = list(node.args)
        if skip:
            if not args or not (isinstance(args[0], ast.Name) and args[0].id == 'self'):
                self.fail('explicit base-class call without `self` as first argument', node)
            args = args[1:]
        if kind == 'virtual':
            if node.keywords or len(args) != 1:
                self.fail('self.onecmd takes exactly one argument', node)
            if 'self_onecmd' not in [p for p, _ in self.extras()]:
                self.fail('virtual call of onecmd outside cmd.Cmd.onecmd/emptyline', node)
            a = self.coerce(self.ex(args[0], env, pre, ctl), STR, node)
            return 'self_onecmd %s σ' % a.p(), PYRET
        sig = self.unit['sigs'][name]
        given = {}
        if len(args) > len(sig):
            self.fail('too many arguments for %s' % name, node)
        for (pn, pt), a in zip(sig, args):
            given[pn] = a
        for kw in node.keywords:
            if kw.arg is None or kw.arg in given or kw.arg not in [x for x, _ in sig]:
                self.fail('bad keyword argument for %s' % name, node)
            given[kw.arg] = kw.value
        texts = []
        for pn, pt in sig:
            if pn not in given:
                self.fail('missing argument %s for %s' % (pn, name), node)
            v = self.coerce(self.ex(given[pn], env, pre, ctl), pt, node)
            if v.text is None:
                self.fail('static-only argument', node)
            texts.append(v.p())
        ex = []
        for p, _ in self.extras(name):
            if p in [q for q, _ in self.extras()]:
                ex.append(p)
            elif self.fname == ROOT:
                ex.append('(%s %s fuel)' % (ROOT, ' '.join(q for q, _ in self.unit['params'])))
            else:
                self.fail('%s needs the virtual method %s, which is not available here' % (name, p), node)
        base = ' '.join(q for q, _ in self.unit['params'])
        text = ' '.join(x for x in [name, base] + ex + (['fuel'] if self.fuel_of[name] else []) + texts + ['σ'] if x)
        return text, self.unit['rets'][name]

    def internal_call(self, node, callee, env, pre, ctl):
        c = self.callee_of(node.func, env)
        if c is None:
            self.fail('call of %s, which is not translated' % callee, node)
        return self.flow_call_text(node, c, env, pre, ctl)[0]

    # -- exceptions ------------------------------------------------------------------------
    def handler_env(self, env, h, evar, excarg0):
        e = dict(env)
        st = {'excvar': evar, 'hnames': list(h.names)}
        if excarg0 is not None:
            st['excarg0'] = excarg0
        e['$exc'] = Bind(None, ('exc',), st)
        if getattr(h, 'name', None):
            e[h.name] = Bind(None, ('exc',), st)
        return e

    @staticmethod
    def exc_term(exc):
        return '.%s' % exc if exc in EXC_CTORS else '.Other'

    def raise_lines(self, exc, env, ctl, node, excarg0=None):
        self.need_flow(node, 'a construct that can raise %s' % exc)
        if ctl.phi:
            raise NeedCPS()
        for h in ctl.hs:
            if exc in h.names or 'Exception' in h.names or None in h.names:
                return self.block(h.body, self.handler_env(env, h, self.exc_term(exc), excarg0), h.after, h.ctl)
        if exc in EXC_CTORS:
            return ['.raise .%s σ' % exc]
        return ['-- %s: one of the exception classes the model does not name' % exc, '.raise .Other σ']

    def dispatch_lines(self, evar, env, ctl, node, excarg0=None):
        """an exception whose class is the run-time value `evar`: the enclosing handlers, innermost first"""
        arms = []
        final = None
        for h in ctl.hs:
            conds = []
            catch_all = False
            for n in h.names:
                if n in (None, 'Exception', 'BaseException'):
                    catch_all = True
                elif n in EXC_CTORS:
                    conds.append('%s = .%s' % (evar, n))
                elif n == 'KeyboardInterrupt':
                    arms.append(('comment', '-- except KeyboardInterrupt: asynchronous, raised by no modelled '
                                            'operation (not an `Exc`): this handler is outside the model'))
                else:
                    self.fail('handler for %s around a call whose exception is only known at run time' % n, node)
            if catch_all:
                final = self.block(h.body, self.handler_env(env, h, evar, excarg0), h.after, h.ctl)
                break
            if conds:
                arms.append((' ∨ '.join(conds), self.block(h.body, self.handler_env(env, h, evar, excarg0),
                                                           h.after, h.ctl)))
        if final is None:
            final = ['.raise %s σ' % evar]
        lines = final
        for c, body in reversed(arms):
            if c == 'comment':
                lines = [body] + lines
            else:
                lines = ['if %s then' % c] + ind(body) + ['else'] + ind(lines)
        return lines

    def except_bind(self, call_text, ty, env, pre, ctl, node, excarg0=None):
        self.need_flow(node, 'a call that can raise')
        if ctl.phi:
            raise NeedCPS()
        t = self.temp()
        if ctl.hs:
            disp = self.dispatch_lines('e_', env, ctl, node, excarg0)

            def w(lines):
                return ['match %s with' % call_text, '| .error e_ =>'] + ind(disp) + ['| .ok %s =>' % t] + ind(lines)
        else:
            def w(lines):
                return ['match %s with' % call_text, '| .error e_ => .raise e_ σ', '| .ok %s =>' % t] + ind(lines)
        pre.append(w)
        return Val(t, ty, True)

    def flow_bind(self, call_text, ty, env, pre, ctl, node, name=None):
        """the value of a call of a translated (Flow-valued) method"""
        if ctl.phi:
            raise NeedCPS()
        t = name or self.temp()
        if ctl.hs:
            disp = self.dispatch_lines('e_', env, ctl, node)

            def w(lines):
                return ['match %s with' % call_text, '| .nofuel => .nofuel', '| .raise e_ σ =>'] + ind(disp) + \
                    ['| .ok %s σ =>' % t] + ind(lines)
        else:
            def w(lines):
                return ['(%s).bind fun %s σ =>' % (call_text, t)] + lines
        pre.append(w)
        return Val(t, ty, True)

    def st_try(self, s, env, k, ctl):
        self.need_flow(s, 'try')
        if ctl.phi:
            raise NeedCPS()
        if s.finalbody:
            self.fail('try with finally', s)
        hs = []
        for h in s.handlers:
            if h.type is None:
                names = [None]
            elif isinstance(h.type, ast.Name):
                names = [h.type.id]
            elif isinstance(h.type, ast.Tuple) and all(isinstance(e, ast.Name) for e in h.type.elts):
                names = [e.id for e in h.type.elts]
            else:
                self.fail('unsupported exception specification', s)
            hh = Handler(names, h.body, k, ctl)
            hh.name = h.name
            if h.name is not None and h.name in env:
                self.fail('`except ... as %s` shadows a local variable' % h.name, s)
            hs.append(hh)

        def after_body(e):
            return self.block(s.orelse, e, k, ctl) if s.orelse else k(e)
        return ['-- try:  (handlers: %s%s)' % (', '.join('/'.join(str(n) for n in h.names) for h in hs),
                                              '; else clause' if s.orelse else '')] + \
            self.block(s.body, env, after_body, ctl.with_(hs=tuple(hs) + ctl.hs))

    # -- expressions -----------------------------------------------------------------------
    def coerce(self, v, ty, node):
        if v.ty == ty:
            return v
        if isinstance(ty, tuple) and ty[0] == 'tuple' and 'items' in v.static and len(v.static['items']) == len(ty[1]):
            items = [self.coerce(i, t, node) for i, t in zip(v.static['items'], ty[1])]
            return Val('(%s)' % ', '.join(i.text for i in items), ty, True, items=items)
        return FnTr.coerce(self, v, ty, node)

    def attr_val(self, p, node, env):
        a = self.unit['attrs'].get(p)
        if a is not None and a[0] == 'fieldx':
            return Val(a[1], a[4], True)
        if a is not None and a[0] == 'const':
            return Val(a[1], a[2], True)
        if a is not None and a[0] == 'field' and a[2] == DICT_SI:
            return Val('σ.' + '.'.join(a[1]), a[2], True, isdict=True)
        return FnTr.attr_val(self, p, node, env)

    def bind_name(self, env, name, v, node):
        env2, lines = FnTr.bind_name(self, env, name, v, node)
        b = env2[name]
        for kk in ('method', 'isdict'):
            if kk in v.static:
                b.static[kk] = v.static[kk]
        return env2, lines

    def ex(self, node, env, pre, ctl):
        if isinstance(node, ast.Dict):
            rows = []
            for kx, vx in zip(node.keys, node.values):
                if not (isinstance(kx, ast.Constant) and isinstance(kx.value, str) and isinstance(vx, ast.Constant)
                        and isinstance(vx.value, int) and not isinstance(vx.value, bool)):
                    self.fail('dict display whose entries are not `str: int` constants', node)
                if kx.value in [a for a, _ in rows]:
                    self.fail('duplicate key in a dict display', node)
                rows.append((kx.value, vx.value))
            if not rows:
                self.fail('empty dict display', node)
            return Val('([%s] : List (Str × Int))' % ', '.join('(%s, %d)' % (lean_strlist(a), b) for a, b in rows),
                       DICT_SI, True, isdict=True)
        if isinstance(node, ast.Name) and node.id in env and env[node.id].ty == ('exc',):
            self.fail('an exception object used as a value', node)
        return FnTr.ex(self, node, env, pre, ctl)

    def compare(self, node, env, pre, ctl):
        if len(node.ops) == 1:
            op, rn = node.ops[0], node.comparators[0]
            if isinstance(op, (ast.Eq, ast.NotEq)) and isinstance(rn, ast.List) and not rn.elts:
                l = self.ex(node.left, env, pre, ctl)
                if l.text is None or not (isinstance(l.ty, tuple) and l.ty[0] == 'list'):
                    self.fail('comparison of a %s with []' % (l.ty,), node)
                return Val('%s %s []' % (l.p(), '=' if isinstance(op, ast.Eq) else '≠'), PROP)
            if isinstance(op, (ast.In, ast.NotIn)):
                rp = self.resolve_path(rn, env)
                ra = self.unit['attrs'].get(rp) if rp else None
                t = None
                if ra is not None and ra[0] == 'field' and ra[2] == DICT_SI:
                    l = self.coerce(self.ex(node.left, env, pre, ctl), STR, node)
                    t = 'pyDictHas σ.%s %s = true' % ('.'.join(ra[1]), l.p())
                elif ra is not None and ra[0] == 'const' and ra[2] == STR:
                    l = self.ex(node.left, env, pre, ctl)
                    if l.ty != CHAR:
                        self.fail('`in` a string is accepted for a single character only', node)
                    t = 'pyIn %s %s = true' % (l.p(), ra[1])
                if t is not None:
                    return Val(t if isinstance(op, ast.In) else '¬ (%s)' % t, PROP)
        return FnTr.compare(self, node, env, pre, ctl)

    def percent(self, node, env, pre, ctl):
        l = self.ex(node.left, env, pre, ctl)
        tpl = l.static.get('template')
        if tpl is not None and all(k == 'lit' for k, _ in tpl) and '%r' in ''.join(x for _, x in tpl):
            text = ''.join(x for _, x in tpl)
            r = self.ex(node.right, env, pre, ctl)
            if isinstance(r.ty, tuple) and r.ty[0] == 'tuple':
                n = len(r.ty[1])
                args = r.static['items'] if 'items' in r.static else \
                    [Val('%s%s' % (r.text, proj(n, i)), r.ty[1][i], True) for i in range(n)]
            else:
                args = [r]
            parts, ai, pos = [], 0, 0
            for m in R_SPEC.finditer(text):
                if m.start() > pos:
                    parts.append(lean_strlist(text[pos:m.start()]))
                pos = m.end()
                c = m.group(1)
                if c == '%':
                    parts.append(lean_strlist('%'))
                    continue
                if c not in ('s', 'd', 'r') or ai >= len(args):
                    self.fail('unsupported conversion %r / missing argument in the template %r' % (m.group(0), text), node)
                a = args[ai]
                ai += 1
                if a.text is None:
                    self.fail('static-only format argument', node)
                if c == 's' and a.ty == STR:
                    parts.append(a.p())
                elif c == 'r' and a.ty == STR:
                    parts.append('pyReprStr %s' % a.p())
                elif c in 'sd' and a.ty == INT:
                    parts.append('pyFmtD %s' % a.p())
                else:
                    self.fail('conversion %%%s applied to a %s' % (c, a.ty), node)
            if pos < len(text):
                parts.append(lean_strlist(text[pos:]))
            if ai != len(args):
                self.fail('too many arguments for the format template', node)
            return Val(' ++ '.join(parts), STR, False)
        return FnTr.percent(self, node, env, pre, ctl)

    def call_expr(self, node, env, pre, ctl):
        f = node.func
        if isinstance(f, ast.Name) and f.id not in env:
            if f.id == 'getattr':
                self.args_plain(node, 2, 'getattr')
                if not (isinstance(node.args[0], ast.Name) and node.args[0].id == 'self'):
                    self.fail('getattr of something other than self', node)
                n = self.ex(node.args[1], env, pre, ctl)
                a1 = node.args[1]
                if not (isinstance(a1, ast.BinOp) and isinstance(a1.op, ast.Add) and isinstance(a1.left, ast.Constant)
                        and a1.left.value == 'do_') or n.ty != STR or n.text is None:
                    self.fail('getattr(self, name) is accepted only for name = \'do_\' + <str> '
                              '(looked up in the table of do_* methods)', node)
                v = self.opt_bind('pyGetattrDo doNames %s' % n.p(), 'AttributeError', STR, env, pre, ctl, node)
                v.static['method'] = True
                return v
            if f.id == 'hasattr':
                self.args_plain(node, 2, 'hasattr')
                a1 = node.args[1]
                if not (isinstance(node.args[0], ast.Name) and node.args[0].id == 'self' and isinstance(a1, ast.Constant)
                        and isinstance(a1.value, str) and a1.value.startswith('do_')):
                    self.fail('hasattr is accepted only as hasattr(self, \'do_...\')', node)
                return Val('pyHasattrDo doNames %s' % lean_strlist(a1.value), BOOL)
            if f.id == 'repr':
                self.args_plain(node, 1, 'repr')
                if self.resolve_path(node.args[0], env) != ('self', '_mpu'):
                    self.fail('repr of something other than self._mpu', node)
                return Val('mpuRepr σ.core', STR)
            if f.id == 'list':
                self.args_plain(node, 1, 'list')
                a = self.ex(node.args[0], env, pre, ctl)
                if a.text is None or not (isinstance(a.ty, tuple) and a.ty[0] == 'list'):
                    self.fail('list() of a %s' % (a.ty,), node)
                return Val(a.text, a.ty, a.atom)
            if f.id == 'zip':
                self.args_plain(node, 2, 'zip')
                a = self.ex(node.args[0], env, pre, ctl)
                b = self.ex(node.args[1], env, pre, ctl)
                for x in (a, b):
                    if x.text is None or not (isinstance(x.ty, tuple) and x.ty[0] == 'list'):
                        self.fail('zip() of a %s' % (x.ty,), node)
                return Val('pyZip %s %s' % (a.p(), b.p()), tlist(ttuple([a.ty[1], b.ty[1]])))
        if isinstance(f, ast.Name) and f.id in env and env[f.id].static.get('method'):
            self.fail('call of a looked-up method in an expression (only `return func(arg)`)', node)
        if isinstance(f, ast.Attribute):
            if ast.unparse(node) == TRACEBACK_JOIN:
                b = env.get('$exc')
                if b is None:
                    self.fail('sys.exc_info() outside an exception handler', node)
                return Val('tb %s' % b.static['excvar'], STR)
            p = self.resolve_path(f, env)
            if p == ('re', 'findall'):
                self.args_plain(node, 2, 're.findall')
                pat = node.args[0]
                if not (isinstance(pat, ast.Constant) and isinstance(pat.value, str) and pat.value in TABLE_FINDALL):
                    self.fail('re.findall with a pattern that is not in the translator\'s table: %s'
                              % unparse1(pat), node)
                s = self.ex(node.args[1], env, pre, ctl)
                if s.ty != STR or s.text is None:
                    self.fail('re.findall on a %s' % (s.ty,), node)
                helper, ty = TABLE_FINDALL[pat.value]
                return Val('%s %s' % (helper, s.p()), ty)
            if p == ('self', '_preprocess_line'):
                # translated by py2lean_mon.py (unit `pre`) into Py65/Gen/MonPreGen.lean: a pure function
                self.args_plain(node, 1, '_preprocess_line')
                a = self.coerce(self.ex(node.args[0], env, pre, ctl), STR, node)
                return Val('MonPreGen._preprocess_line %s' % a.p(), STR)
            if p == ('self', '_address_parser', 'number'):
                self.args_plain(node, 1, 'number')
                a = self.ex(node.args[0], env, pre, ctl)
                if a.ty != STR or a.text is None:
                    self.fail('number() of a %s' % (a.ty,), node)
                return self.except_bind('parseNumber σ.core.parser %s' % a.p(), INT, env, pre, ctl, node,
                                        excarg0='keyErrorArg0 σ.core.parser %s' % a.p())
            if p is not None and len(p) == 4 and p[:3] == ('self', '_address_parser', 'labels'):
                self.args_plain(node, 0, p[3])
                if p[3] == 'values':
                    return Val('pyDictValues σ.core.labels', tlist(INT))
                if p[3] == 'keys':
                    return Val('pyDictKeys σ.core.labels', tlist(STR))
                if p[3] == 'items':
                    return Val('σ.core.labels', DICT_SI, True)
                self.fail('unknown dict method %s' % p[3], node)
            c = self.callee_of(f, env)
            if c is not None:
                text, ty = self.flow_call_text(node, c, env, pre, ctl)
                return self.flow_bind(text, ty, env, pre, ctl, node)
            if isinstance(f.value, ast.Name) and f.value.id in env and env[f.value.id].static.get('isdict') \
                    and f.attr == 'items':
                self.args_plain(node, 0, 'items')
                b = env[f.value.id]
                return Val(b.lean, b.ty, True)
            if f.attr in ('strip', 'lower') and not node.args and not node.keywords and p is None:
                recv = self.ex(f.value, env, pre, ctl)
                if recv.text is None:
                    self.fail('method of a static-only value', node)
                if f.attr == 'strip' and recv.ty == STR:
                    return Val('MonCmd.pyStrip %s' % recv.p(), STR)
                if f.attr == 'lower' and recv.ty == CHAR:
                    return Val('lower %s' % recv.p(), CHAR)
                self.fail('%s() on a %s' % (f.attr, recv.ty), node)
        return FnTr.call_expr(self, node, env, pre, ctl)

    def subscript(self, node, env, pre, ctl):
        sl = node.slice
        v = node.value
        if isinstance(v, ast.Attribute) and v.attr == 'args' and isinstance(v.value, ast.Name) \
                and v.value.id in env and env[v.value.id].ty == ('exc',):
            a0 = env[v.value.id].static.get('excarg0')
            if not (isinstance(sl, ast.Constant) and sl.value == 0) or a0 is None:
                self.fail('only `exc.args[0]` of the KeyError raised by AddressParser.number is modelled', node)
            if env[v.value.id].static['hnames'] != ['KeyError']:
                self.fail('exc.args[0] of an exception that is not the KeyError of number()', node)
            return Val(a0, STR)
        if not isinstance(sl, ast.Slice) and self.resolve_path(v, env) is None:
            base = self.ex(v, env, [], ctl) if isinstance(v, ast.Name) else None
            if base is not None and base.ty == STR and base.text is not None:
                i = self.ex(sl, env, pre, ctl)
                if i.ty != INT:
                    self.fail('string index of type %s' % (i.ty,), node)
                return self.opt_bind('pyGetItem %s %s' % (base.p(), i.p()), 'IndexError', CHAR, env, pre, ctl, node)
        return FnTr.subscript(self, node, env, pre, ctl)

    # -- statements ------------------------------------------------------------------------
    def block(self, stmts, env, k, ctl):
        if stmts and isinstance(stmts[0], ast.Delete):
            s, rest = stmts[0], stmts[1:]
            self.need_flow(s, 'del')
            if len(s.targets) != 1 or not isinstance(s.targets[0], ast.Subscript):
                self.fail('only `del d[k]` is accepted', s)
            tg = s.targets[0]
            p = self.resolve_path(tg.value, env)
            a = self.unit['attrs'].get(p) if p else None
            if a is None or a[0] != 'field' or a[2] != DICT_SI or isinstance(tg.slice, ast.Slice):
                self.fail('del of something other than an entry of the label table', s)
            pre = []
            kx = self.coerce(self.ex(tg.slice, env, pre, ctl), STR, s)
            fld = 'σ.' + '.'.join(a[1])
            nd = self.opt_bind('pyDictDel %s %s' % (fld, kx.p()), 'KeyError', DICT_SI, env, pre, ctl, s)
            return ['-- %s' % unparse1(s)] + self.wrap(
                pre, ['let σ : %s := %s' % (self.unit['state'], self.state_upd(a[1], nd.text))]
                + self.block(rest, env, k, ctl))
        return FnTr.block(self, stmts, env, k, ctl)

    def st_assign(self, s, env, k, ctl):
        if len(s.targets) == 1:
            tg = s.targets[0]
            head = ['-- %s' % unparse1(s)]
            st = self.unit['state']
            if isinstance(tg, ast.Attribute):
                p = self.resolve_path(tg, env)
                a = self.unit['attrs'].get(p) if p else None
                if a is not None and a[0] == 'fieldx':
                    pre = []
                    v = self.coerce(self.ex(s.value, env, pre, ctl), a[4], s)
                    return head + self.wrap(pre, ['let σ : %s := %s' % (st, self.state_upd(a[2], a[3] % v.p()))] + k(env))
            if isinstance(tg, ast.Subscript) and not isinstance(tg.slice, ast.Slice):
                p = self.resolve_path(tg.value, env)
                a = self.unit['attrs'].get(p) if p else None
                if a is not None and a[0] == 'field' and a[2] == DICT_SI:
                    pre = []
                    v = self.coerce(self.ex(s.value, env, pre, ctl), INT, s)      # right side first
                    kx = self.coerce(self.ex(tg.slice, env, pre, ctl), STR, s)
                    fld = 'σ.' + '.'.join(a[1])
                    upd = self.state_upd(a[1], 'pyDictSet %s %s %s' % (fld, kx.p(), v.p()))
                    return head + self.wrap(pre, ['let σ : %s := %s' % (st, upd)] + k(env))
        return FnTr.st_assign(self, s, env, k, ctl)

    def st_call(self, node, env, k, ctl, s):
        head = ['-- %s' % unparse1(s)]
        st = self.unit['state']
        f = node.func
        p = self.resolve_path(f, env)
        if p == ('self', 'stdout', 'write'):
            self.args_plain(node, 1, 'stdout.write')
            a = node.args[0]
            tnode = a.left if (isinstance(a, ast.BinOp) and isinstance(a.op, ast.Mod)) else a
            if not (isinstance(tnode, ast.Constant) and isinstance(tnode.value, str) and tnode.value.endswith('\n')):
                self.fail('self.stdout.write is accepted only for a text whose constant template ends in a newline '
                          '(one entry of the output list)', s)
            cut = ast.Constant(value=tnode.value[:-1])
            a2 = ast.BinOp(left=cut, op=ast.Mod(), right=a.right) if tnode is not a else cut
            ast.copy_location(a2, a)
            ast.fix_missing_locations(a2)
            pre = []
            v = self.ex(a2, env, pre, ctl)
            if v.ty != STR or v.text is None:
                self.fail('stdout.write of a %s' % (v.ty,), s)
            upd = self.state_upd(('out',), 'σ.out ++ [%s]' % v.text)
            return head + ['-- (the text without its final newline is one entry of `out`)'] + \
                self.wrap(pre, ['let σ : %s := %s' % (st, upd)] + k(env))
        if isinstance(f, ast.Name) and f.id == 'setattr' and 'setattr' not in env:
            self.args_plain(node, 3, 'setattr')
            if self.resolve_path(node.args[0], env) != ('self', '_mpu'):
                self.fail('setattr on something other than self._mpu', s)
            pre = []
            n = self.coerce(self.ex(node.args[1], env, pre, ctl), STR, s)
            v = self.coerce(self.ex(node.args[2], env, pre, ctl), INT, s)
            if ctl.phi:
                raise NeedCPS()
            t = self.temp()

            def w(lines):
                return ['match pySetattrMpu σ.core.regs %s %s with' % (n.p(), v.p()),
                        '| none =>', '  -- an attribute other than the six registers: outside the model',
                        '  .raise .Other σ', '| some %s =>' % t] + ind(lines)
            pre.append(w)
            return head + self.wrap(pre, ['let σ : %s := %s' % (st, self.state_upd(('core', 'regs'), t))] + k(env))
        if isinstance(f, ast.Attribute) and f.attr == 'sort' and isinstance(f.value, ast.Name) \
                and f.value.id in env and not node.args and not node.keywords:
            b = env[f.value.id]
            if b.lean is None or b.ty != tlist(ttuple([INT, STR])):
                self.fail('.sort() is accepted only on a local list of (int, str) tuples', s)
            env2 = dict(env)
            env2[f.value.id] = Bind(b.lean, b.ty)
            return head + [self.let(b.lean, b.ty, 'pySortPairs %s' % b.lean)] + k(env2)
        c = self.callee_of(f, env) if isinstance(f, ast.Attribute) else None
        if c is not None:
            pre = []
            text, _ = self.flow_call_text(node, c, env, pre, ctl)
            self.flow_bind(text, NONE, env, pre, ctl, s, name='_')
            return head + self.wrap(pre, k(env))
        return FnTr.st_call(self, node, env, k, ctl, s)

    def ret_none(self):
        rty = self.unit['rets'][self.fname]
        if rty != PYRET:
            self.fail('the function may end without the value its callers unpack', self.fd)
        return ['.ok none σ']

    def st_return(self, s, env, ctl):
        if ctl.phi:
            raise NeedCPS()
        if ctl.lc is not None:
            self.fail('return inside a loop', s)
        head = ['-- %s' % unparse1(s)]
        rty = self.unit['rets'][self.fname]
        v = s.value
        if v is None or (isinstance(v, ast.Constant) and v.value is None):
            return head + self.ret_none()
        if isinstance(v, ast.Call):
            f = v.func
            if isinstance(f, ast.Name) and f.id in env and env[f.id].static.get('method'):
                self.args_plain(v, 1, 'a looked-up do_* method')
                if rty != PYRET or ctl.hs:
                    self.fail('call of a looked-up method here', s)
                pre = []
                a = self.ex(v.args[0], env, pre, ctl)
                base = ' '.join(q for q, _ in self.unit['params'])
                if a.ty == topt(STR):
                    lines = ['match %s with' % a.p(), '| none =>',
                             '  -- a do_* method called with None: outside the model (parseline returns arg = None',
                             '  -- only together with cmd = None)', '  .raise .Other σ',
                             '| some %s =>' % a.text, '  call_do %s %s %s σ' % (base, env[f.id].lean, a.text)]
                elif a.ty == STR:
                    lines = ['call_do %s %s %s σ' % (base, env[f.id].lean, a.p())]
                else:
                    self.fail('a do_* method called with a %s' % (a.ty,), s)
                return head + self.wrap(pre, lines)
            c = self.callee_of(f, env) if isinstance(f, ast.Attribute) else None
            if c is not None:
                if ctl.hs:
                    self.fail('return of a call inside try', s)
                pre = []
                text, ty = self.flow_call_text(v, c, env, pre, ctl)
                if ty != rty:
                    self.fail('return of a call whose value has another type', s)
                return head + self.wrap(pre, [text])
            if isinstance(f, ast.Attribute) and self.resolve_path(f, env) == ('self', '_output'):
                # the value of self._output(...) is None
                return self.st_call(v, env, lambda e: self.ret_none(), ctl, s)
        pre = []
        val = self.coerce(self.ex(v, env, pre, ctl), rty, s)
        if val.text is None:
            self.fail('return of a static-only value', s)
        return head + self.wrap(pre, ['.ok %s σ' % val.p()])

    def st_while(self, s, env, k, ctl):
        self.need_flow(s, 'a while loop')
        carried, free, env_in = self.loop_frame(s, env, ctl, [s.test], [])
        self.nloop += 1
        name = '%s_while%d' % (self.fname, self.nloop)
        st = self.unit['state']
        fixed = ' '.join(x for x in [name, self.pnames()] + [env[n].lean for n in free] if x)

        def rec(e):
            self.carried_tuple(carried, e, env, s)
            return [' '.join([fixed, 'fuel'] + [e[n].lean for n in carried] + ['σ'])]

        def brk(e):
            return ['.ok %s σ' % self.carried_tuple(carried, e, env, s)]
        lctl = Ctl((), Loop(brk, rec), False)
        body = self.block(s.body, env_in, rec, lctl)

        def one(test, yes, no):
            pre = []
            c = self.cond(test, env_in, pre, lctl)
            return self.wrap(pre, ['if %s then' % c] + ind(yes) + ['else'] + ind(no))
        if isinstance(s.test, ast.Constant) and s.test.value is True:
            lines = body
        elif isinstance(s.test, ast.BoolOp) and isinstance(s.test.op, ast.And):
            # short circuit: the operands are tested one after the other (an operand may raise)
            lines = body
            for t in reversed(s.test.values):
                lines = one(t, lines, brk(env_in))
        else:
            lines = one(s.test, body, brk(env_in))
        cl = [env[n].lean for n in carried]
        tys = [lean_type(env[n].ty, False) for n in carried]
        rty = 'Unit' if not carried else ' × '.join(tys)
        decl = ' '.join([self.pdecl()] + ['(%s : %s)' % (env[n].lean, lean_type(env[n].ty)) for n in free]).strip()
        d = ['/-- `while %s:` of `%s` (loop %d).  Loop-carried: %s.  `fuel` bounds the number of iterations. -/'
             % (unparse1(s.test), self.fname, self.nloop, ', '.join(carried) or 'only the state'),
             'def %s %s :' % (name, decl),
             '    %s → %s → Flow %s %s' % (' → '.join(['Nat'] + tys), st, st, rty if len(carried) <= 1 else '(%s)' % rty),
             '  | %s => .nofuel' % ', '.join(['0'] + cl + ['σ']),
             '  | %s =>' % ', '.join(['fuel + 1'] + cl + ['σ'])] + ind(lines, 4)
        self.aux.append('\n'.join(d))
        call = ' '.join([fixed, 'fuel'] + cl + ['σ'])
        return ['-- while %s:' % unparse1(s.test)] + self.after_loop(call, carried, env, k)

    # -- the function ----------------------------------------------------------------------
    def dedupe_aux(self, main):
        """the CPS translation repeats a continuation (and so a loop in it) once per branch: identical loop
        functions are emitted once"""
        keep, ren, seen = [], {}, {}
        for a in self.aux:
            m = re.search(r'^def (\S+)', a, re.M)
            nm = m.group(1)
            canon = re.sub(r'\bpy_t\d+\b', 'py_t', re.sub(r'\(loop \d+\)', '(loop)', a)).replace(nm, '@')
            for old, new in ren.items():
                canon = re.sub(r'\b%s\b' % re.escape(old), new, canon)
            if canon in seen:
                ren[nm] = seen[canon]
            else:
                seen[canon] = nm
                keep.append(a)

        def fix(t):
            for old, new in ren.items():
                t = re.sub(r'\b%s\b' % re.escape(old), new, t)
            return t
        return [fix(a) for a in keep], fix(main)

    def translate(self):
        fd = self.fd
        sig = self.unit['sigs'][self.fname]
        a = fd.args
        if a.vararg or a.kwarg or a.kwonlyargs or a.posonlyargs or a.defaults or \
                [x.arg for x in a.args] != ['self'] + [n for n, _ in sig]:
            self.fail('signature differs from (self, %s)' % ', '.join(n for n, _ in sig), fd)
        if fd.decorator_list:
            self.fail('decorated method', fd)
        env = {}
        for n, t in sig:
            env[n] = Bind(self.mangle(n), t)
        st = self.unit['state']
        rty = self.unit['rets'][self.fname]

        def endk(e):
            return self.ret_none()
        lines = self.block(fd.body, env, endk, Ctl())
        res = 'Flow %s %s' % (st, 'PyRet' if rty == PYRET else '(%s)' % lean_type(rty))
        what = 'cmd.Cmd.%s` (%s)' % (self.fname[4:], self.srcfile) if self.origin == 'cmd' else \
            'Monitor.%s` (py65/monitor.py)' % self.fname
        doc = '/-- `%s, statement by statement.%s -/'
        if self.fname == ROOT:
            head = [doc % (what, '  `fuel` bounds the depth of the recursion through `emptyline` (and, passed on, '
                                 'the loop of `parseline`).'),
                    'def %s %s :' % (self.fname, self.pdecl()),
                    '    Nat → %s → %s → %s' % (' → '.join(lean_type(t, False) for _, t in sig), st, res),
                    '  | %s => .nofuel' % ', '.join(['0'] + ['_' for _ in sig] + ['_']),
                    '  | %s =>' % ', '.join(['fuel + 1'] + [self.mangle(n) for n, _ in sig] + ['σ'])]
            main = '\n'.join(head + ind(lines, 4))
        else:
            params = [self.pdecl()]
            if self.fuel_of[self.fname]:
                params.append('(fuel : Nat)')
            params += ['(%s : %s)' % (self.mangle(n), lean_type(t)) for n, t in sig]
            params.append('(σ : %s)' % st)
            head = [doc % (what, ''), 'def %s %s : %s :=' % (self.fname, ' '.join(p for p in params if p), res)]
            main = '\n'.join(head + ind(lines))
        aux, main = self.dedupe_aux(main)
        return '\n\n'.join(aux + [main])


# ---------------------------------------------------------------------------------------
# the unit: facts the translation relies on, tables, file
# ---------------------------------------------------------------------------------------

HEADER = '''/-
GENERATED by harness/py2lean_moncmd.py from py65/monitor.py (class Monitor) and the standard library's
cmd.py (class Cmd, %s, sha256 %s) -- do not edit.
Unit `cmds`: %s.
Shallow embedding, statement by statement (the Python statement is quoted above its translation);
library behaviour is the named helpers of Py65/Model/MonCmdRt.lean, MonGenRt.lean and of the hand models.
Parameters: `oth name arg` = the `do_*` methods that are not translated here, `tb e` = the text of the
traceback of `e`, `mpuRepr core` = `repr(self._mpu)`; inside cmd.Cmd `self_onecmd` = the virtual `self.onecmd`;
`self._preprocess_line` is the generated `MonPreGen._preprocess_line` (unit `pre` of py2lean_mon.py).
-/
import Py65.Model.MonCmdRt
import Py65.Gen.MonPreGen

set_option linter.unusedVariables false

namespace %s
open Py65 Py65.Model Py65.Model.PyStr Py65.Model.AddrParser Py65.Model.MonCmd Py65.Model.MonGenRt Py65.Model.MonCmdRt
open Py65.Gen
'''

RESET_FACTS = ['self.byteMask = self._mpu.byteMask', 'self.addrFmt = self._mpu.ADDR_FORMAT',
               'self._address_parser = AddressParser(maxwidth=self.addrWidth)']
INIT_FACTS = ['self._width = 78']
# self.<attr>: the only methods that may assign it
STORE_SITES = {'byteMask': ['_reset'], 'addrFmt': ['_reset'], '_address_parser': ['_reset'], '_mpu': ['_reset'],
               '_width': ['__init__', 'do_width'], 'lastcmd': [], 'identchars': [], 'stdout': []}
# what Monitor must NOT define (the translation of cmd.Cmd relies on the inherited versions)
NOT_OVERRIDDEN = ['parseline', 'default', 'emptyline', 'precmd', 'postcmd', '__getattr__', '__getattribute__',
                  '__setattr__', 'identchars', 'lastcmd']


def cmd_class(tree, fname):
    cls = [n for n in tree.body if isinstance(n, ast.ClassDef) and n.name == 'Cmd']
    if len(cls) != 1:
        raise Unsupported('expected exactly one class Cmd in %s' % fname)
    methods, attrs = {}, {}
    for n in cls[0].body:
        if isinstance(n, (ast.FunctionDef, ast.AsyncFunctionDef)):
            if n.name in methods:
                raise Unsupported('method %s is defined twice in class Cmd' % n.name, n, n.name)
            methods[n.name] = n
        elif isinstance(n, ast.Assign) and len(n.targets) == 1 and isinstance(n.targets[0], ast.Name):
            attrs[n.targets[0].id] = n.value
    return methods, attrs


def cmd_facts(tree, methods, attrs):
    """identchars (evaluated) and the class attributes the translation relies on"""
    if 'lastcmd' not in attrs or not (isinstance(attrs['lastcmd'], ast.Constant) and attrs['lastcmd'].value == ''):
        raise Unsupported("cmd.Cmd no longer has the class attribute `lastcmd = ''`")
    if 'identchars' not in attrs or ast.unparse(attrs['identchars']) != 'IDENTCHARS':
        raise Unsupported('cmd.Cmd.identchars is no longer `IDENTCHARS`')
    defs = [n for n in tree.body if isinstance(n, ast.Assign) and len(n.targets) == 1
            and isinstance(n.targets[0], ast.Name) and n.targets[0].id == 'IDENTCHARS']
    if len(defs) != 1 or ast.unparse(defs[0].value) != "string.ascii_letters + string.digits + '_'":
        raise Unsupported("cmd.IDENTCHARS is no longer `string.ascii_letters + string.digits + '_'`")
    for m in CMD_FUNCS:
        if m not in methods:
            raise Unsupported('cmd.Cmd.%s is missing' % m)
    for mname, fd in methods.items():
        for n in ast.walk(fd):
            if isinstance(n, ast.Attribute) and isinstance(n.ctx, (ast.Store, ast.Del)) and \
                    isinstance(n.value, ast.Name) and n.value.id == 'self' and n.attr == 'lastcmd' and mname != 'onecmd':
                raise Unsupported('cmd.Cmd.%s assigns self.lastcmd (the translation assumes only onecmd does)' % mname, n, mname)
    return string.ascii_letters + string.digits + '_'


def monitor_facts(tree, cls, methods):
    if [ast.unparse(b) for b in cls.bases] != ['cmd.Cmd'] or cls.keywords:
        raise Unsupported('class Monitor is no longer `class Monitor(cmd.Cmd)`', cls)
    imports = [a.name for n in tree.body if isinstance(n, ast.Import) for a in n.names if a.asname is None]
    if 'cmd' not in imports:
        raise Unsupported('monitor.py no longer has `import cmd`')
    for n in tree.body:
        for t in (n.targets if isinstance(n, ast.Assign) else []):
            if isinstance(t, ast.Name) and t.id == 'cmd':
                raise Unsupported('the module name `cmd` is rebound in monitor.py', n)
    for n in cls.body:
        if isinstance(n, (ast.Assign, ast.AnnAssign, ast.AugAssign)):
            for t in (n.targets if isinstance(n, ast.Assign) else [n.target]):
                for x in ast.walk(t):
                    if isinstance(x, ast.Name) and (x.id.startswith('do_') or x.id in NOT_OVERRIDDEN):
                        raise Unsupported('class attribute %s of Monitor (only `def do_*` methods are collected; '
                                          'cmd.Cmd\'s %s must be inherited)' % (x.id, x.id), n)
        elif not isinstance(n, (ast.FunctionDef, ast.Expr, ast.Pass)):
            raise Unsupported('unexpected statement kind %s in the body of class Monitor' % type(n).__name__, n)
    for m in NOT_OVERRIDDEN:
        if m in methods:
            raise Unsupported('Monitor defines %s (the translation of cmd.Cmd relies on the inherited one)' % m,
                              methods[m], m)

    def tops(name):
        if name not in methods:
            raise Unsupported('method %s is missing' % name)
        out = []
        for s in methods[name].body:
            out.append(ast.unparse(s))
            if isinstance(s, ast.Try):
                out.extend(ast.unparse(x) for x in s.body)
        return out
    for fact in RESET_FACTS:
        if fact not in tops('_reset'):
            raise Unsupported('_reset no longer contains `%s` (unit cmds relies on it)' % fact, methods.get('_reset'), '_reset')
    for fact in INIT_FACTS:
        if fact not in tops('__init__'):
            raise Unsupported('__init__ no longer contains `%s` (unit cmds relies on it)' % fact,
                              methods.get('__init__'), '__init__')
    for mname, fd in methods.items():
        for n in ast.walk(fd):
            if isinstance(n, ast.Attribute) and isinstance(n.ctx, (ast.Store, ast.Del)) and \
                    isinstance(n.value, ast.Name) and n.value.id == 'self':
                if n.attr in STORE_SITES and mname not in STORE_SITES[n.attr]:
                    raise Unsupported('self.%s is assigned in %s (the translation assumes it is set only in %s)'
                                      % (n.attr, mname, ', '.join(STORE_SITES[n.attr]) or 'cmd.Cmd'), n, mname)
                if n.attr.startswith('do_'):
                    raise Unsupported('instance attribute self.%s is assigned in %s (the do_* table is collected '
                                      'from the class)' % (n.attr, mname), n, mname)
            if isinstance(n, ast.Call) and isinstance(n.func, ast.Name) and n.func.id in ('setattr', 'delattr') \
                    and n.args and isinstance(n.args[0], ast.Name) and n.args[0].id == 'self':
                raise Unsupported('%s(self, ...) in %s (attributes of the monitor object must be assigned by name)'
                                  % (n.func.id, mname), n, mname)
    fd = methods.get('_output')
    if fd is None or [a.arg for a in fd.args.args] != ['self', 'stuff'] or fd.args.defaults or \
            fd.args.vararg or fd.args.kwarg or len(fd.body) != 1 or ast.unparse(fd.body[0]) != M.OUTPUT_BODY:
        raise Unsupported('_output is no longer `def _output(self, stuff): %s`' % M.OUTPUT_BODY, fd, '_output')


def help_calls(methods, names):
    out = []
    for f in names:
        for n in ast.walk(methods[f]):
            if isinstance(n, ast.Call) and path_of(n.func) and len(path_of(n.func)) == 2 \
                    and path_of(n.func)[0] == 'self' and path_of(n.func)[1].startswith('help_'):
                h = path_of(n.func)[1]
                if h not in methods:
                    raise Unsupported('%s calls %s, which is not defined' % (f, h), n, f)
                if h not in out:
                    out.append(h)
    return out


def translate_all(mon_src, mon_name, cmd_src, cmd_name):
    mtree = ast.parse(mon_src, filename=mon_name)
    cls, mon = class_methods(mtree, mon_name)
    monitor_facts(mtree, cls, mon)
    ctree = ast.parse(cmd_src, filename=cmd_name)
    cmdm, cattrs = cmd_class(ctree, cmd_name)
    ident = cmd_facts(ctree, cmdm, cattrs)
    for f in TRANSLATED_DO + [ROOT, '_output_mpu_status']:
        if f not in mon:
            raise Unsupported('method %s is missing' % f)
    helps = help_calls(mon, TRANSLATED_DO)
    unit = dict(UNIT)
    funcs = helps + TRANSLATED_DO + ['Cmd_' + m for m in CMD_FUNCS] + ['_output_mpu_status', ROOT]
    unit['funcs'] = funcs
    sigs, rets = {}, {}
    for h in helps:
        sigs[h], rets[h] = [], PYRET
    for f in TRANSLATED_DO:
        sigs[f], rets[f] = [('args', STR)], PYRET
    sigs.update({'Cmd_parseline': [('line', STR)], 'Cmd_default': [('line', STR)], 'Cmd_emptyline': [],
                 'Cmd_onecmd': [('line', STR)], '_output_mpu_status': [], ROOT: [('line', STR)]})
    rets.update({'Cmd_parseline': PARSED, 'Cmd_default': PYRET, 'Cmd_emptyline': PYRET, 'Cmd_onecmd': PYRET,
                 '_output_mpu_status': PYRET, ROOT: PYRET})
    unit['sigs'], unit['rets'] = sigs, rets
    methods = dict((f, mon[f]) for f in funcs if not f.startswith('Cmd_'))
    for m in CMD_FUNCS:
        methods['Cmd_' + m] = cmdm[m]
    fuel = dict((f, False) for f in funcs)
    fuel['Cmd_parseline'] = any(isinstance(n, ast.While) for n in ast.walk(cmdm['parseline']))
    fuel['Cmd_onecmd'] = True
    fuel[ROOT] = True
    for f in funcs:
        if f not in ('Cmd_parseline',) and any(isinstance(n, ast.While) for n in ast.walk(methods[f])):
            raise Unsupported('a while loop in %s (only cmd.Cmd.parseline has one in the pinned text)' % f, methods[f], f)
    # the do_* attributes of a Monitor object: its own methods in definition order, then cmd.Cmd's
    do_names = [n for n in mon if n.startswith('do_')] + \
        [n for n in cmdm if n.startswith('do_') and n not in mon]
    chunks = []
    chunks.append('/-- The `do_*` attributes of a `Monitor` object: the methods `do_*` of class Monitor in definition\n'
                  'order, then those inherited from cmd.Cmd.  `getattr(self, \'do_\' + cmd)` succeeds exactly for these. -/\n'
                  'def doNames : List Str :=\n  [' + ',\n   '.join(lean_strlist(n) for n in do_names) + ']')
    chunks.append('/-- `cmd.Cmd.identchars` = `string.ascii_letters + string.digits + \'_\'` -/\n'
                  'def identchars : Str := %s' % lean_strlist(ident))
    base_decl = ' '.join('(%s : %s)' % pt for pt in unit['params'])
    base = ' '.join(p for p, _ in unit['params'])
    for f in funcs:
        if f == 'Cmd_parseline':
            rows = []
            for i, d in enumerate(TRANSLATED_DO):
                rows.append('  %sif name = %s then %s %s arg σ' % ('' if i == 0 else 'else ', lean_strlist(d), d, base))
            rows.append('  else oth name arg σ')
            chunks.append('/-- `func(arg)` for `func = getattr(self, name)`: the bound method called by name -- the methods\n'
                          'translated above, every other `do_*` method through the parameter `oth`. -/\n'
                          'def call_do %s (name : Str) (arg : Str) (σ : CmdSt) : Flow CmdSt PyRet :=\n' % base_decl
                          + '\n'.join(rows))
        origin = 'cmd' if f.startswith('Cmd_') else 'monitor'
        tr = CmdFnTr(unit, methods, f, fuel, origin, set(mon), set(cmdm), 'cmd.py')
        try:
            chunks.append(tr.translate())
        except Unsupported as ex:
            ex.origin = origin
            raise
    what = ', '.join(('cmd.Cmd.' + f[4:]) if f.startswith('Cmd_') else 'Monitor.' + f for f in funcs)
    text = HEADER % (CMD_PY_VERSION, CMD_PY_SHA256, what, unit['ns']) + '\n' + '\n\n'.join(chunks) + \
        '\n\nend %s\n' % unit['ns']
    return text, funcs, do_names


def main():
    ap = argparse.ArgumentParser()
    ap.add_argument('--out', required=True)
    ap.add_argument('--report', default=None)
    ap.add_argument('--source', default=None, help='monitor.py (default: $PY65_REPO/py65/monitor.py)')
    ap.add_argument('--cmd-source', default=None, help="cmd.py (default: the running interpreter's `cmd.__file__`)")
    args = ap.parse_args()
    src = args.source or os.path.join(os.environ.get('PY65_REPO', '/repo'), 'py65', 'monitor.py')
    if args.cmd_source:
        csrc = args.cmd_source
    else:
        import cmd as _cmd
        csrc = _cmd.__file__
    report = {'ok': False, 'source': src, 'cmd_source': csrc, 'cmd_pinned_sha256': CMD_PY_SHA256,
              'python': sys.version.split()[0], 'units': {}}
    r = {'ok': False, 'file': UNIT['file']}
    rc = 0
    try:
        data = open(src, 'rb').read()
        report['source_sha256'] = hashlib.sha256(data).hexdigest()
        cdata = open(csrc, 'rb').read()
        report['cmd_sha256'] = hashlib.sha256(cdata).hexdigest()
        if report['cmd_sha256'] != CMD_PY_SHA256:
            raise Unsupported(
                'the standard library\'s cmd.py of this interpreter (%s, Python %s, sha256 %s) is not the text the '
                'translation of cmd.Cmd.onecmd/parseline/default/emptyline is pinned to (%s, sha256 %s): the tie of '
                'the dispatcher is only established for the pinned text; review cmd.py, re-pin CMD_PY_SHA256 in '
                'harness/py2lean_moncmd.py and rebuild Py65.Proofs.MonCmdGenEq'
                % (csrc, report['python'], report['cmd_sha256'], CMD_PY_VERSION, CMD_PY_SHA256))
        text, funcs, do_names = translate_all(data.decode('utf-8'), src, cdata.decode('utf-8'), csrc)
        r['ok'] = True
        r['functions'] = funcs
        r['do_names'] = do_names
        os.makedirs(args.out, exist_ok=True)
        p = os.path.join(args.out, UNIT['file'])
        old = open(p).read() if os.path.exists(p) else None
        report['written'] = []
        if old != text:
            with open(p, 'w') as f:
                f.write(text)
            report['written'] = [UNIT['file']]
    except (Unsupported, SyntaxError, OSError, UnicodeDecodeError) as ex:
        msg = getattr(ex, 'msg', None) or str(ex)
        r['error'] = msg
        fn = getattr(ex, 'func', None)
        if fn:
            r['function'] = fn
        node = getattr(ex, 'node', None)
        where = csrc if (getattr(ex, 'origin', None) == 'cmd') else src
        r['where'] = '%s:%d' % (where, node.lineno) if node is not None and hasattr(node, 'lineno') else where
        sys.stderr.write('py2lean_moncmd: unit cmds unsupported: %s\n' % msg)
        rc = 3
        report['error'], report['where'] = msg, r['where']
        if fn:
            report['function'] = fn
    report['units']['cmds'] = r
    report['ok'] = rc == 0
    if args.report:
        with open(args.report, 'w') as f:
            json.dump(report, f, indent=1)
    sys.exit(rc)


if __name__ == '__main__':
    main()
