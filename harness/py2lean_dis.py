#!/usr/bin/env python3
"""py2lean_dis -- translate the disassembler side of py65 to Lean 4 (tie 1 for C08 / C09 / C19).

    py65/disassembler.py          class Disassembler: __init__ (field set-up), instruction_at
    py65/utils/conversions.py     itoa and the table _itoa_fmts
    py65/utils/addressing.py      AddressParser.label_for only (and the defaults of __init__'s signature,
                                  for the call `AddressParser()`)
    py65/monitor.py               Monitor._format_disassembly only (the Monitor attributes it reads are
                                  admitted by a provenance check: every assignment to them anywhere in class
                                  Monitor must be `self.X = self._mpu.Y` with the Y of MONITOR_FIELDS)

    usage: py2lean_dis.py --out <dir> --report <json> [--repo <dir>]      (default repo: $PY65_REPO or /repo)

Emits <dir>/DisasmGen.lean (namespace Py65.Gen.DisasmGen).  The source is read with `ast` only (it is
never imported), so comments, docstrings, blank lines and layout do not matter, and the Lean binders
carry the Python names.  The emitted text is computed from the AST: every Python statement becomes
one or a few `let`s / `Except.bind`s in source order, an `if/elif/else` chain becomes an `if … then …
else if …` expression in the same order yielding the tuple of the variables assigned in its arms that
are still needed (SSA phi-tuple), `x is None` on an optional becomes a `match`, a `for … in d.items()`
with conditional `return` becomes a structurally recursive function over the item list, a count-down
`while n: …; n -= 1` becomes a recursive function over the counter with the loop-carried variables as
arguments (a negative counter, which would not terminate in Python, is an explicit error value).

Library behaviour is NOT translated but mapped to named Lean functions of Py65/Model/GenRt.lean,
PyStr.lean, PyInt.lean (tables LIB_* below).  Anything outside the enumerated subset -- unknown statement
or expression kind, unknown attribute / method / builtin, an attribute store outside __init__, a
format literal with a conversion that is not in the table, a keyword argument, a decorator, extra
class members, ... -- raises Unsupported: exit code 3 and {"ok": false, "error", "where", "function"}.
"""
import argparse
import ast
import hashlib
import json
import os
import sys

OUTNAME = 'DisasmGen.lean'
NAMESPACE = 'Py65.Gen.DisasmGen'

# ---------------------------------------------------------------------------------------
# tables: the library / environment the translated code may use
# ---------------------------------------------------------------------------------------

# attributes of an MPU instance (type, Lean field type).  Methods: (argument types, result type).
MPU_ATTRS = {
    'ADDR_WIDTH': 'nat', 'BYTE_WIDTH': 'nat', 'ADDR_FORMAT': 'str', 'BYTE_FORMAT': 'str',
    'addrMask': 'int', 'byteMask': 'int',
    'disassemble': ('list', ('tuple', ('str', 'str'))),
    'memory': 'mem',            # the memory object: only `memory[address]` (a total function in the model)
}
# attributes of a Monitor instance that translated code may read, with the mpu attribute `_reset` copies
# them from (the translator checks that EVERY assignment to them in class Monitor is `self.X = self._mpu.Y`)
MONITOR_FIELDS = {
    'addrWidth': ('nat', 'ADDR_WIDTH'), 'byteWidth': ('nat', 'BYTE_WIDTH'),
    'addrFmt': ('str', 'ADDR_FORMAT'), 'byteFmt': ('str', 'BYTE_FORMAT'),
    'addrMask': ('int', 'addrMask'), 'byteMask': ('int', 'byteMask'),
}
MPU_METHODS = {'ByteAt': (('int',), 'int'), 'WordAt': (('int',), 'int')}
# attributes of an AddressParser that translated code may read (Lean: Model.AddrParser.Parser)
PARSER_ATTRS = {'labels': ('dict', 'str', 'int')}
# exception classes that may be raised, with one str argument
EXCEPTIONS = {'NotImplementedError': 'NotImplementedError', 'ValueError': 'ValueError'}
# `"…".format(n)` format strings modelled by GenRt.strFormat1
FORMAT1_STRINGS = ('{0:b}', '{0}', '{0:x}')
# Lean keywords / reserved words that cannot be binder names as they stand
LEAN_RESERVED = {
    'at', 'from', 'end', 'open', 'local', 'fun', 'let', 'in', 'do', 'if', 'then', 'else', 'match', 'with',
    'def', 'theorem', 'example', 'structure', 'class', 'instance', 'namespace', 'section', 'import', 'where',
    'have', 'show', 'by', 'for', 'return', 'mut', 'Type', 'Prop', 'Sort', 'deriving', 'variable', 'universe',
    'inductive', 'abbrev', 'axiom', 'opaque', 'private', 'protected', 'partial', 'unsafe', 'macro', 'syntax',
    'notation', 'infix', 'prefix', 'postfix', 'set_option', 'attribute', 'mutual', 'using', 'calc', 'nomatch',
    'nofun', 'some', 'none', 'true', 'false', 'Int', 'Nat', 'Str', 'Py', 'Except', 'Option', 'List',
    'sorry', 'admit', 'native_decide', 'bv_decide', 'implemented_by', 'extern', 'export', 'fun', 'id',
}

SOURCES = {
    'mon': 'py65/monitor.py',
    'dis': 'py65/disassembler.py',
    'conv': 'py65/utils/conversions.py',
    'addr': 'py65/utils/addressing.py',
}


class Unsupported(Exception):
    def __init__(self, msg, node=None):
        Exception.__init__(self, msg)
        self.msg, self.node = msg, node
        self.file = None
        self.func = None


class NotPure(Exception):
    """raised while translating in pure mode when the construct needs the exception monad"""


# ---------------------------------------------------------------------------------------
# types
# ---------------------------------------------------------------------------------------

def lean_type(t):
    if t == 'int':
        return 'Int'
    if t == 'nat':
        return 'Nat'
    if t == 'str':
        return 'Str'
    if t == 'mpu':
        return 'Mpu'
    if t == 'parser':
        return 'Parser'
    if t == 'mem':
        return 'Int → Int'
    if t == 'frac':
        return 'PyFrac'
    if isinstance(t, tuple):
        if t[0] == 'opt':
            return 'Option %s' % paren_type(t[1])
        if t[0] == 'tuple':
            return ' × '.join(paren_type(x) for x in t[1])
        if t[0] == 'list':
            return 'List %s' % paren_type(t[1])
        if t[0] == 'dict':
            return 'List (%s × %s)' % (lean_type(t[1]), lean_type(t[2]))
    raise Unsupported('no Lean type for %r' % (t,))


def paren_type(t):
    s = lean_type(t)
    return '(%s)' % s if ' ' in s else s


def lean_str(s):
    for ch in s:
        if not (32 <= ord(ch) < 127):
            raise Unsupported('string literal with a character outside printable ASCII: %r' % s)
    return '"' + s.replace('\\', '\\\\').replace('"', '\\"') + '".toList'


def ident(name):
    if name in LEAN_RESERVED or not (name[0].isalpha() or name[0] == '_') or name == '_':
        return '«py_%s»' % name
    return name


def proj(base, i, n):
    """i-th component (0-based) of an n-tuple value `base` (Lean tuples nest to the right)"""
    if n == 1:
        return base
    s = base + '.2' * i
    return s + '.1' if i < n - 1 else s


# ---------------------------------------------------------------------------------------
# the statement / expression translator for one function
# ---------------------------------------------------------------------------------------

class Tail(object):
    """what happens when a block falls off its end"""

    def __init__(self, kind, vars=(), text=None):
        self.kind, self.vars, self.text = kind, list(vars), text   # kind: 'fn' | 'phi' | 'loop' | 'init'

    def needs(self):
        return set(self.vars)


class FnTrans(object):
    def __init__(self, unit, fname, lean_name, ret_type, self_type=None, self_name=None, fields=None,
                 in_init=False):
        self.unit = unit                  # Module translator (module-level names, aux defs)
        self.fname = fname                # Python qualified name (for error reports)
        self.lean_name = lean_name
        self.ret_type = ret_type          # declared result type (None: inferred from the first return)
        self.self_type, self.self_name = self_type, self_name
        self.self_lean_type = {'parser': 'Parser', 'monitor': 'Monitor'}.get(self_type, 'Disassembler')
        self.fields = fields or {}        # struct fields readable through self (name -> type)
        self.in_init = in_init
        self.init_fields = []             # [(field, type, let-name)] assigned in __init__, in order
        self.counter = 0
        self.pure = False                 # translating in pure mode?
        self.monadic = False              # does the function need PyM at all?
        self.loop_ret = None              # inside a loop body: returns are wrapped in `some`
        self.aux = []                     # auxiliary definitions (loops), emitted before the function

    def fresh(self, stem):
        self.counter += 1
        return '%s_%d' % (stem, self.counter)

    def bad(self, msg, node=None):
        e = Unsupported(msg, node)
        e.func = self.fname
        return e

    # ---- expressions ------------------------------------------------------------------

    def coerce(self, txt, ty, want, node=None):
        if ty == want or want is None:
            return txt
        if ty == 'nat' and want == 'int':
            return '(%s : Int)' % txt
        if isinstance(want, tuple) and want[0] == 'opt':
            if ty == 'none':
                return 'none'
            if ty == want[1]:
                return 'some %s' % atom(txt)
        raise self.bad('type mismatch: have %s, need %s' % (ty, want), node)

    def expr(self, n, env, pre):
        """-> (lean text, type).  Hoists operations that may raise into `pre` (evaluation order)."""
        if isinstance(n, ast.Constant):
            v = n.value
            if isinstance(v, bool):
                return ('true' if v else 'false'), 'bool'
            if isinstance(v, int):
                return (str(v) if v >= 0 else '(%d)' % v), 'int'
            if isinstance(v, str):
                return lean_str(v), 'str'
            if v is None:
                return 'none', 'none'
            raise self.bad('constant of unsupported type %s' % type(v).__name__, n)
        if isinstance(n, ast.Name):
            if n.id in env:
                return ident(n.id), env[n.id]
            if n.id in self.unit.globals:
                return self.unit.globals[n.id]
            raise self.bad('unknown name %r' % n.id, n)
        if isinstance(n, ast.Attribute):
            return self.attribute(n, env, pre)
        if isinstance(n, ast.Tuple):
            parts = [self.expr(e, env, pre) for e in n.elts]
            return '(%s)' % ', '.join(p[0] for p in parts), ('tuple', tuple(p[1] for p in parts))
        if isinstance(n, ast.UnaryOp):
            t, ty = self.expr(n.operand, env, pre)
            if isinstance(n.op, ast.Invert) and ty in ('int', 'nat'):
                return 'Py.lnot %s' % atom(self.coerce(t, ty, 'int')), 'int'
            if isinstance(n.op, ast.USub) and ty in ('int', 'nat'):
                return '(-%s)' % atom(self.coerce(t, ty, 'int')), 'int'
            if isinstance(n.op, ast.Not):
                return '¬ %s' % atom(self.truth(t, ty, n)), 'prop'
            raise self.bad('unary operator %s on %s' % (type(n.op).__name__, ty), n)
        if isinstance(n, ast.BinOp):
            return self.binop(n, env, pre)
        if isinstance(n, ast.Compare):
            return self.compare(n, env, pre)
        if isinstance(n, ast.BoolOp):
            parts = [self.test(v, env, pre) for v in n.values]
            op = ' ∧ ' if isinstance(n.op, ast.And) else ' ∨ '
            return '(%s)' % op.join(atom(p) for p in parts), 'prop'
        if isinstance(n, ast.Subscript):
            base, bty = self.expr(n.value, env, pre)
            if bty == 'mem' and not isinstance(n.slice, ast.Slice):
                idx, ity = self.expr(n.slice, env, pre)
                return '%s %s' % (base, atom(self.coerce(idx, ity, 'int', n))), 'int'
            if not (isinstance(bty, tuple) and bty[0] == 'list'):
                raise self.bad('indexing of a value of type %s' % (bty,), n)
            if isinstance(n.slice, ast.Slice):
                raise self.bad('slice', n)
            idx, ity = self.expr(n.slice, env, pre)
            return self.hoist('listGet %s %s' % (atom(base), atom(self.coerce(idx, ity, 'int', n))), bty[1], pre, n)
        if isinstance(n, ast.Call):
            return self.call(n, env, pre)
        raise self.bad('expression kind %s is outside the translated subset' % type(n).__name__, n)

    def hoist(self, mtext, ty, pre, node):
        if self.pure:
            raise NotPure()
        self.monadic = True
        name = self.fresh('t')
        pre.append((name, mtext, ty))
        return name, ty

    def truth(self, t, ty, node):
        if ty == 'prop':
            return t
        if ty == 'bool':
            return '%s = true' % atom(t)
        if ty in ('int', 'nat'):
            return '%s ≠ 0' % atom(t)
        if ty == 'str':
            return '%s ≠ []' % atom(t)
        raise self.bad('truth value of a %s' % (ty,), node)

    def test(self, n, env, pre):
        t, ty = self.expr(n, env, pre)
        return self.truth(t, ty, n)

    def attribute(self, n, env, pre):
        # self.<field>
        if isinstance(n.value, ast.Name) and n.value.id == self.self_name and self.self_name is not None:
            if self.in_init:
                for f, ty, let in self.init_fields:
                    if f == n.attr:
                        return let, ty
                raise self.bad('read of self.%s before it is assigned in __init__' % n.attr, n)
            if self.self_type == 'parser':
                if n.attr in PARSER_ATTRS:
                    return '%s.%s' % (ident(self.self_name), n.attr), PARSER_ATTRS[n.attr]
                raise self.bad('unknown attribute self.%s of AddressParser' % n.attr, n)
            if self.self_type == 'monitor':
                if n.attr == '_mpu':
                    return '%s._mpu' % ident(self.self_name), 'mpu'
                if n.attr in MONITOR_FIELDS:
                    self.unit.use_monitor_field(n.attr)
                    return '%s.%s' % (ident(self.self_name), n.attr), MONITOR_FIELDS[n.attr][0]
                raise self.bad('attribute self.%s of Monitor is not in the translator table' % n.attr, n)
            if n.attr in self.fields:
                return '%s.%s' % (ident(self.self_name), ident(n.attr)), self.fields[n.attr]
            raise self.bad('unknown attribute self.%s (not assigned in __init__)' % n.attr, n)
        base, bty = self.expr(n.value, env, pre)
        if bty == 'mpu':
            if n.attr in MPU_ATTRS:
                self.unit.use_mpu(n.attr)
                return '%s.%s' % (base, n.attr), MPU_ATTRS[n.attr]
            raise self.bad('unknown attribute %s of the mpu object' % n.attr, n)
        if bty == 'parser':
            if n.attr in PARSER_ATTRS:
                return '%s.%s' % (base, n.attr), PARSER_ATTRS[n.attr]
            raise self.bad('unknown attribute %s of the address parser' % n.attr, n)
        raise self.bad('attribute %s of a value of type %s' % (n.attr, bty), n)

    def binop(self, n, env, pre):
        op = n.op
        # "literal % args": the format is compiled here
        if isinstance(op, ast.Mod) and isinstance(n.left, ast.Constant) and isinstance(n.left.value, str):
            return self.format_literal(n, env, pre)
        a, aty = self.expr(n.left, env, pre)
        b, bty = self.expr(n.right, env, pre)
        num = ('int', 'nat')
        if isinstance(op, ast.Mod) and aty == 'str' and bty in num:
            # run-time format string applied to one int
            return self.hoist('pctInt %s %s' % (atom(a), atom(self.coerce(b, bty, 'int'))), 'str', pre, n)
        if isinstance(op, ast.Mod) and aty == 'str' and bty == 'str':
            # run-time format string applied to one str
            return self.hoist('pctStr %s %s' % (atom(a), atom(b)), 'str', pre, n)
        if isinstance(op, ast.Add) and aty == 'str' and bty == 'str':
            return '%s ++ %s' % (atom(a), atom(b)), 'str'
        if isinstance(op, ast.Pow) and aty in num and bty == 'nat':
            return '%s ^ %s' % (atom(self.coerce(a, aty, 'int')), atom(b)), 'int'
        if isinstance(op, ast.Div) and aty in num and isinstance(n.right, ast.Constant) \
                and isinstance(n.right.value, int) and not isinstance(n.right.value, bool) and n.right.value > 0:
            # true division by a positive literal: a float, kept as an exact fraction
            return 'fracOfDiv %s %s' % (atom(self.coerce(a, aty, 'int')), atom(b)), 'frac'
        if isinstance(op, ast.Add) and aty in num and bty == 'frac':
            return 'fracAddInt %s %s' % (atom(self.coerce(a, aty, 'int')), atom(b)), 'frac'
        if isinstance(op, ast.Add) and aty == 'frac' and bty in num:
            return 'fracAddInt %s %s' % (atom(self.coerce(b, bty, 'int')), atom(a)), 'frac'
        if aty in num and bty in num:
            ai, bi = atom(self.coerce(a, aty, 'int')), atom(self.coerce(b, bty, 'int'))
            if isinstance(op, ast.Add):
                return '%s + %s' % (ai, bi), 'int'
            if isinstance(op, ast.Sub):
                return '%s - %s' % (ai, bi), 'int'
            if isinstance(op, ast.Mult):
                return '%s * %s' % (ai, bi), 'int'
            if isinstance(op, ast.BitAnd):
                return 'Py.land %s %s' % (ai, bi), 'int'
            if isinstance(op, ast.BitOr):
                return 'Py.lor %s %s' % (ai, bi), 'int'
            if isinstance(op, ast.BitXor):
                return 'Py.lxor %s %s' % (ai, bi), 'int'
            if isinstance(op, (ast.LShift, ast.RShift)):
                f = 'Py.shl' if isinstance(op, ast.LShift) else 'Py.shr'
                cnt = atom(b) if bty == 'nat' else '%s.toNat' % atom(b)
                return '%s %s %s' % (f, ai, cnt), 'int'
        raise self.bad('operator %s on %s and %s' % (type(op).__name__, aty, bty), n)

    def format_literal(self, n, env, pre):
        fmt = n.left.value
        args = list(n.right.elts) if isinstance(n.right, ast.Tuple) else [n.right]
        pieces, i, lit = [], 0, ''
        k = 0
        while i < len(fmt):
            c = fmt[i]
            if c != '%':
                lit += c
                i += 1
                continue
            if i + 1 >= len(fmt):
                raise self.bad('incomplete format %r' % fmt, n)
            conv = fmt[i + 1]
            i += 2
            if conv == '%':
                lit += '%'
                continue
            if conv not in ('s', 'r', 'd'):
                raise self.bad('format conversion %%%s in %r is not in the translator table' % (conv, fmt), n)
            if lit:
                pieces.append(lean_str(lit))
                lit = ''
            if k >= len(args):
                raise self.bad('not enough arguments for format %r' % fmt, n)
            t, ty = self.expr(args[k], env, pre)
            k += 1
            if conv == 's' and ty == 'str':
                pieces.append(atom(t))
            elif conv in ('s', 'd') and ty in ('int', 'nat'):
                pieces.append('pyStrInt %s' % atom(self.coerce(t, ty, 'int')))
            elif conv == 'r' and ty in ('int', 'nat'):
                pieces.append('pyReprInt %s' % atom(self.coerce(t, ty, 'int')))
            elif conv == 'r' and ty == 'str':
                pieces.append('pyReprStr %s' % atom(t))
            else:
                raise self.bad('format conversion %%%s applied to %s' % (conv, ty), n)
        if lit:
            pieces.append(lean_str(lit))
        if k != len(args):
            raise self.bad('too many arguments for format %r' % fmt, n)
        if not pieces:
            return '([] : Str)', 'str'
        return ' ++ '.join(pieces), 'str'

    def compare(self, n, env, pre):
        if len(n.ops) != 1:
            raise self.bad('chained comparison', n)
        op = n.ops[0]
        a, aty = self.expr(n.left, env, pre)
        b, bty = self.expr(n.comparators[0], env, pre)
        num = ('int', 'nat')
        if aty in num and bty in num:
            a, b = self.coerce(a, aty, 'int'), self.coerce(b, bty, 'int')
            sym = {ast.Eq: '=', ast.NotEq: '≠', ast.Lt: '<', ast.LtE: '≤', ast.Gt: '>', ast.GtE: '≥'}.get(type(op))
        elif aty == 'str' and bty == 'str':
            sym = {ast.Eq: '=', ast.NotEq: '≠'}.get(type(op))
        else:
            sym = None
        if sym is None:
            raise self.bad('comparison %s on %s and %s' % (type(op).__name__, aty, bty), n)
        return '%s %s %s' % (atom(a), sym, atom(b)), 'prop'

    def call(self, n, env, pre):
        if n.keywords:
            raise self.bad('keyword arguments', n)
        f = n.func
        # ClassName()  -- only AddressParser() with the defaults of its signature
        if isinstance(f, ast.Name):
            if f.id in self.unit.constructors and not n.args:
                return self.unit.constructors[f.id]
            if f.id == 'int' and len(n.args) == 1 and 'int' not in env:
                t, ty = self.expr(n.args[0], env, pre)
                if ty == 'frac':
                    return 'fracToInt %s' % atom(t), 'int'
                if ty in ('int', 'nat'):
                    return self.coerce(t, ty, 'int'), 'int'
                raise self.bad('int() of a %s' % (ty,), n)
            raise self.bad('call of %r is not in the translator table' % f.id, n)
        if not isinstance(f, ast.Attribute):
            raise self.bad('call of a computed function', n)
        meth = f.attr
        recv, rty = self.expr(f.value, env, pre)
        args = [self.expr(a, env, pre) for a in n.args]
        if rty == 'mpu' and meth in MPU_METHODS:
            atys, res = MPU_METHODS[meth]
            if len(args) != len(atys):
                raise self.bad('wrong number of arguments for mpu.%s' % meth, n)
            self.unit.use_mpu(meth)
            txt = ' '.join(atom(self.coerce(a, t, w, n)) for (a, t), w in zip(args, atys))
            return '%s.%s %s' % (recv, meth, txt), res
        if rty == 'parser' and meth == 'label_for':
            if len(args) == 2 and args[1][1] == 'str' and args[0][1] in ('int', 'nat'):
                self.unit.need_label_for.add('str')
                return 'label_for_str %s %s %s' % (atom(recv), atom(self.coerce(args[0][0], args[0][1], 'int')),
                                                  atom(args[1][0])), 'str'
            if len(args) in (1, 2) and args[0][1] in ('int', 'nat'):
                d = 'none'
                if len(args) == 2:
                    d = self.coerce(args[1][0], args[1][1], ('opt', 'str'), n)
                return 'label_for %s %s %s' % (atom(recv), atom(self.coerce(args[0][0], args[0][1], 'int')),
                                              atom(d)), ('opt', 'str')
            raise self.bad('label_for with arguments of types %s' % ([a[1] for a in args],), n)
        if isinstance(rty, tuple) and rty[0] == 'dict' and meth == 'get' and len(args) == 1:
            return 'dictGet %s %s' % (atom(recv), atom(self.coerce(args[0][0], args[0][1], rty[1], n))), ('opt', rty[2])
        if rty == 'str' and meth == 'format' and len(args) == 1 and args[0][1] in ('int', 'nat'):
            return self.hoist('strFormat1 %s %s' % (atom(recv), atom(self.coerce(args[0][0], args[0][1], 'int'))),
                              'str', pre, n)
        raise self.bad('method %s on a value of type %s is not in the translator table' % (meth, rty), n)

    # ---- statements -------------------------------------------------------------------

    def wrap_ok(self, txt):
        return txt if self.pure else '.ok %s' % atom(txt)

    def emit_pre(self, pre, ind):
        return ['%sExcept.bind (%s) fun %s =>' % (ind, m, name) for name, m, _ in pre]

    def fall(self, tail, env, ind, node=None):
        if tail.kind == 'phi':
            for v in tail.vars:
                if v not in env:
                    raise self.bad('variable %r may be unbound after the if statement' % v, node)
            return ['%s%s' % (ind, self.wrap_ok('(%s)' % ', '.join(ident(v) for v in tail.vars)))]
        if tail.kind == 'loop':
            return ['%s%s' % (ind, tail.text)]
        if tail.kind == 'init':
            fs = ', '.join('%s := %s' % (ident(f), let) for f, _, let in self.final_fields())
            return ['%s{ %s }' % (ind, fs)]
        raise self.bad('the function can fall off its end (implicit `return None`)', node)

    def final_fields(self):
        seen, out = set(), []
        for f, ty, let in reversed(self.init_fields):
            if f not in seen:
                seen.add(f)
                out.append((f, ty, let))
        return list(reversed(out))

    def ret(self, txt, ty, node):
        if self.ret_type is None:
            self.ret_type = ty
        txt = self.coerce(txt, ty, self.ret_type, node)
        if self.loop_ret is not None:
            return 'some %s' % atom(txt)
        return self.wrap_ok(txt)

    def block(self, stmts, env, tail, ind, node=None):
        if not stmts:
            return self.fall(tail, env, ind, node), env
        s, rest = stmts[0], stmts[1:]
        if isinstance(s, ast.Pass) or (isinstance(s, ast.Expr) and isinstance(s.value, ast.Constant)
                                       and isinstance(s.value.value, str)):
            return self.block(rest, env, tail, ind, s)
        if isinstance(s, ast.Assign):
            if len(s.targets) != 1:
                raise self.bad('multiple assignment targets', s)
            return self.assign(s.targets[0], s.value, s, rest, env, tail, ind)
        if isinstance(s, ast.AugAssign):
            if not isinstance(s.target, ast.Name):
                raise self.bad('augmented assignment to something that is not a local variable', s)
            load = ast.copy_location(ast.Name(id=s.target.id, ctx=ast.Load()), s.target)
            val = ast.copy_location(ast.BinOp(left=load, op=s.op, right=s.value), s)
            return self.assign(s.target, val, s, rest, env, tail, ind)
        if isinstance(s, ast.Return):
            if rest:
                raise self.bad('statements after return', rest[0])
            if s.value is None:
                raise self.bad('bare return', s)
            if tail.kind in ('phi', 'init'):
                raise self.bad('return at an unsupported place', s)
            pre = []
            t, ty = self.expr(s.value, env, pre)
            if pre and pre[-1][0] == t and self.loop_ret is None and (self.ret_type in (None, ty)):
                # `return <raising call>`: bind m pure = m
                if self.ret_type is None:
                    self.ret_type = ty
                return self.emit_pre(pre[:-1], ind) + ['%s%s' % (ind, pre[-1][1])], env
            return self.emit_pre(pre, ind) + ['%s%s' % (ind, self.ret(t, ty, s))], env
        if isinstance(s, ast.Raise):
            if self.pure:
                raise NotPure()
            self.monadic = True
            if rest:
                raise self.bad('statements after raise', rest[0])
            e = s.exc
            if s.cause is not None or not (isinstance(e, ast.Call) and isinstance(e.func, ast.Name)
                                           and e.func.id in EXCEPTIONS and len(e.args) == 1 and not e.keywords):
                raise self.bad('raise of something other than NotImplementedError(msg) / ValueError(msg)', s)
            pre = []
            t, ty = self.expr(e.args[0], env, pre)
            if ty != 'str':
                raise self.bad('exception argument of type %s' % (ty,), s)
            return self.emit_pre(pre, ind) + ['%s.error (.%s %s)' % (ind, EXCEPTIONS[e.func.id], atom(t))], env
        if isinstance(s, ast.If):
            return self.if_stmt(s, rest, env, tail, ind)
        if isinstance(s, ast.For):
            return self.for_stmt(s, rest, env, tail, ind)
        if isinstance(s, ast.While):
            return self.while_stmt(s, rest, env, tail, ind)
        raise self.bad('statement kind %s is outside the translated subset' % type(s).__name__, s)

    def assign(self, target, value, s, rest, env, tail, ind):
        pre = []
        t, ty = self.expr(value, env, pre)
        lines = self.emit_pre(pre, ind)
        env = dict(env)
        if isinstance(target, ast.Name):
            if ty == 'none':
                raise self.bad('assignment of None to a variable', s)
            if ty == 'prop':
                raise self.bad('assignment of a comparison result to a variable', s)
            if target.id == self.self_name:
                raise self.bad('assignment to self', s)
            lines.append('%slet %s : %s := %s' % (ind, ident(target.id), lean_type(ty), t))
            env[target.id] = ty
        elif isinstance(target, ast.Tuple) and all(isinstance(e, ast.Name) for e in target.elts):
            if not (isinstance(ty, tuple) and ty[0] == 'tuple' and len(ty[1]) == len(target.elts)):
                raise self.bad('tuple unpacking of a value of type %s' % (ty,), s)
            if pre and pre[-1][0] == t:
                tmp = t
            else:
                tmp = self.fresh('t')
                lines.append('%slet %s : %s := %s' % (ind, tmp, lean_type(ty), t))
            for i, e in enumerate(target.elts):
                lines.append('%slet %s : %s := %s' % (ind, ident(e.id), lean_type(ty[1][i]),
                                                       proj(tmp, i, len(target.elts))))
                env[e.id] = ty[1][i]
        elif isinstance(target, ast.Attribute) and isinstance(target.value, ast.Name) \
                and target.value.id == self.self_name and self.in_init:
            if ty in ('none', 'prop'):
                raise self.bad('field self.%s of unsupported type' % target.attr, s)
            let = 'self_%s' % target.attr
            for f, fty, _ in self.init_fields:
                if f == target.attr and fty != ty:
                    raise self.bad('field self.%s assigned with two different types' % target.attr, s)
            lines.append('%slet %s : %s := %s' % (ind, let, lean_type(ty), t))
            self.init_fields.append((target.attr, ty, let))
        elif isinstance(target, ast.Attribute):
            raise self.bad('attribute store (%s) outside __init__: the translated code keeps no state'
                           % ast.unparse(target), s)
        else:
            raise self.bad('assignment target %s' % type(target).__name__, s)
        more, env2 = self.block(rest, env, tail, ind, s)
        return lines + more, env2

    # -- if / elif / else ---------------------------------------------------------------

    @staticmethod
    def none_test(test, env):
        """`x is None` / `x is not None` on an optional local -> (name, positive?)"""
        if isinstance(test, ast.Compare) and len(test.ops) == 1 and isinstance(test.ops[0], (ast.Is, ast.IsNot)) \
                and isinstance(test.left, ast.Name) and isinstance(test.comparators[0], ast.Constant) \
                and test.comparators[0].value is None:
            ty = env.get(test.left.id)
            if isinstance(ty, tuple) and ty[0] == 'opt':
                return test.left.id, isinstance(test.ops[0], ast.Is)
        return None

    def if_stmt(self, s, rest, env, tail, ind):
        nt = self.none_test(s.test, env)
        # flatten the elif chain (a None-test is always its own match)
        arms, orelse = [(s.test, s.body)], s.orelse
        if nt is None:
            while len(orelse) == 1 and isinstance(orelse[0], ast.If) and self.none_test(orelse[0].test, env) is None:
                arms.append((orelse[0].test, orelse[0].body))
                orelse = orelse[0].orelse
        bodies = [b for _, b in arms] + [orelse]
        falls = [b for b in bodies if not terminates(b)]
        has_return = any(isinstance(x, ast.Return) for b in bodies for st in b for x in ast.walk(st))
        duplicate = has_return or len(falls) <= 1
        if duplicate:
            arm_tail, arm_rest = tail, rest
            phi = None
        else:
            live = loaded_names(rest) | tail.needs()
            assigned = []
            for b in bodies:
                for v in assigned_names(b):
                    if v not in assigned:
                        assigned.append(v)
            phi = [v for v in assigned if v in live]
            arm_tail, arm_rest = Tail('phi', phi), []

        def arms_text(ind2):
            out, envs = [], []
            if nt is not None:
                name, positive = nt
                inner = env[name][1]
                none_body, some_body = (s.body, s.orelse) if positive else (s.orelse, s.body)
                e1 = dict(env)
                e1[name] = 'none'
                l1, r1 = self.block(with_rest(none_body, arm_rest), e1, arm_tail, ind2 + '  ', s)
                e2 = dict(env)
                e2[name] = inner
                l2, r2 = self.block(with_rest(some_body, arm_rest), e2, arm_tail, ind2 + '  ', s)
                out = ['%smatch %s with' % (ind2, ident(name)), '%s| none =>' % ind2] + l1 + \
                      ['%s| some %s =>' % (ind2, ident(name))] + l2
                r1, r2 = dict(r1), dict(r2)
                r1.setdefault(name, env[name])
                return out, [(none_body, r1), (some_body, r2)]
            first = True
            for test, body in arms:
                pre = []
                c = self.test(test, env, pre)
                if pre:
                    raise self.bad('a condition that can raise', test)
                out.append('%s%s %s then' % (ind2, 'if' if first else 'else if', c))
                first = False
                l, r = self.block(with_rest(body, arm_rest), env, arm_tail, ind2 + '  ', s)
                out += l
                envs.append((body, r))
            out.append('%selse' % ind2)
            l, r = self.block(with_rest(orelse, arm_rest), env, arm_tail, ind2 + '  ', s)
            out += l
            envs.append((orelse, r))
            return out, envs

        if duplicate:
            out, envs = arms_text(ind)
            return out, env
        # phi-join: try pure arms first
        saved = (self.pure, self.counter, self.monadic)
        was_pure = self.pure
        try:
            self.pure = True
            out, envs = arms_text(ind + '  ')
            arms_pure = True
        except NotPure:
            if was_pure:
                raise
            self.pure, self.counter, self.monadic = saved
            self.monadic = True
            out, envs = arms_text(ind + '  ')
            arms_pure = False
        self.pure = was_pure
        env2 = dict(env)
        tys = []
        for v in phi:
            ts = set()
            for body, r in envs:
                if not terminates(body):
                    ts.add(r[v])
            if len(ts) != 1:
                raise self.bad('variable %r has different types in the arms of the if statement' % v, s)
            tys.append(ts.pop())
            env2[v] = tys[-1]
        pty = ('tuple', tuple(tys)) if len(tys) != 1 else tys[0]
        ptxt = 'Unit' if not tys else lean_type(pty)
        if not tys:
            raise self.bad('if statement without effect on later code', s)
        name = self.fresh('phi')
        if arms_pure:
            lines = ['%slet %s : %s :=' % (ind, name, ptxt)] + out
        else:
            lines = ['%sExcept.bind (show PyM %s from' % (ind, paren_type(pty))] + out[:-1] + [out[-1] + ') fun %s =>' % name]
        for i, v in enumerate(phi):
            lines.append('%slet %s : %s := %s' % (ind, ident(v), lean_type(tys[i]), proj(name, i, len(phi))))
        more, env3 = self.block(rest, env2, tail, ind, s)
        return lines + more, env3

    # -- for … in d.items(): … (conditional return only) ---------------------------------

    def for_stmt(self, s, rest, env, tail, ind):
        if s.orelse:
            raise self.bad('for … else', s)
        it = s.iter
        if not (isinstance(it, ast.Call) and isinstance(it.func, ast.Attribute) and it.func.attr == 'items'
                and not it.args and not it.keywords):
            raise self.bad('for loop over something other than <dict>.items()', s)
        pre = []
        d, dty = self.expr(it.func.value, env, pre)
        if pre or not (isinstance(dty, tuple) and dty[0] == 'dict'):
            raise self.bad('for loop over the items of a value of type %s' % (dty,), s)
        if not (isinstance(s.target, ast.Tuple) and len(s.target.elts) == 2
                and all(isinstance(e, ast.Name) for e in s.target.elts)):
            raise self.bad('loop target must be a pair of names', s)
        k, v = s.target.elts[0].id, s.target.elts[1].id
        assigned = assigned_names(s.body)
        for a in assigned:
            if a in env or a in (k, v) or a in loaded_names(rest) | tail.needs():
                raise self.bad('loop-carried variable %r' % a, s)
        if tail.kind not in ('fn',) or self.loop_ret is not None:
            raise self.bad('nested loop or loop inside a branch', s)
        if self.ret_type is None:
            raise self.bad('loop in a function without a declared result type', s)
        free = [x for x in ordered_loaded_names(s.body) if x in env and x not in (k, v)]
        loop = '%s.loop_%d' % (self.lean_name, len(self.aux) + 1)
        rname = self.fresh('rest')
        params = ''.join(' (%s : %s)' % (ident(x), lean_type(env[x])) for x in free)
        head = 'def %s%s : %s → Option %s' % (loop, params, lean_type(dty), paren_type(self.ret_type))
        benv = dict((x, env[x]) for x in free)
        benv[k], benv[v] = dty[1], dty[2]
        call = '%s%s %s' % (loop, ''.join(' ' + ident(x) for x in free), rname)
        saved_pure = self.pure
        self.pure = True            # loop bodies are pure (a raising body is refused)
        self.loop_ret = loop
        try:
            body, _ = self.block(list(s.body), benv, Tail('loop', text=call), '    ', s)
        except NotPure:
            raise self.bad('loop body that can raise', s)
        finally:
            self.loop_ret = None
            self.pure = saved_pure
        self.aux.append('\n'.join(['/-- the `for %s, %s in ….items()` loop of `%s` (line %d): `some r` = `return r` '
                                   'inside the loop, `none` = the loop ran to its end -/' % (k, v, self.fname, s.lineno),
                                   head, '  | [] => none',
                                   '  | (%s, %s) :: %s =>' % (ident(k), ident(v), rname)] + body))
        r = self.fresh('r')
        lines = ['%smatch %s%s %s with' % (ind, loop, ''.join(' ' + ident(x) for x in free), atom(d)),
                 '%s| some %s => %s' % (ind, r, self.wrap_ok(r)),
                 '%s| none =>' % ind]
        more, env2 = self.block(rest, env, tail, ind + '  ', s)
        return lines + more, env2


    # -- while n: …; n -= 1   (count-down loop with loop-carried variables) ------------------

    def while_stmt(self, s, rest, env, tail, ind):
        if s.orelse:
            raise self.bad('while … else', s)
        if not (isinstance(s.test, ast.Name) and env.get(s.test.id) == 'int'):
            raise self.bad('while loop whose condition is not an int variable (only count-down loops are translated)', s)
        v = s.test.id
        body = list(s.body)
        last = body[-1] if body else None
        if not (isinstance(last, ast.AugAssign) and isinstance(last.target, ast.Name) and last.target.id == v
                and isinstance(last.op, ast.Sub) and isinstance(last.value, ast.Constant) and last.value.value == 1
                and not isinstance(last.value.value, bool)):
            raise self.bad('while loop that does not end with `%s -= 1`' % v, s)
        body = body[:-1]
        for st in body:
            for x in ast.walk(st):
                if isinstance(x, (ast.Return, ast.Break, ast.Continue, ast.While, ast.For, ast.Raise)):
                    raise self.bad('%s inside a while loop' % type(x).__name__, x)
        assigned = assigned_names(body)
        if v in assigned:
            raise self.bad('the loop counter %r is assigned inside the loop body' % v, s)
        carried = [x for x in assigned if x in env]
        after = loaded_names(rest) | tail.needs()
        for x in assigned:
            if x not in env and x in after:
                raise self.bad('variable %r first assigned inside the loop is used after it' % x, s)
        if tail.kind != 'fn' or self.loop_ret is not None or self.pure:
            raise self.bad('while loop at an unsupported place', s)
        if not carried:
            raise self.bad('while loop without effect', s)
        self.monadic = True
        uses_self = self.self_name is not None and self.self_name in loaded_names(body)
        free = [x for x in ordered_loaded_names(body) if x in env and x not in carried and x != v]
        loop = '%s.loop_%d' % (self.lean_name, len(self.aux) + 1)
        fuel = self.fresh('fuel')
        cty = [env[x] for x in carried]
        rty = ('tuple', tuple(cty)) if len(cty) != 1 else cty[0]
        params = (' (%s : %s)' % (ident(self.self_name), self.self_lean_type) if uses_self else '') + \
            ''.join(' (%s : %s)' % (ident(x), lean_type(env[x])) for x in free)
        args = ((' ' + ident(self.self_name)) if uses_self else '') + ''.join(' ' + ident(x) for x in free)
        cvars = ''.join(' ' + ident(x) for x in carried)
        head = 'def %s%s : Nat%s → PyM %s' % (loop, params, ''.join(' → ' + paren_type(t) for t in cty), paren_type(rty))
        benv = dict(env)
        benv[v] = 'int'
        call = '%s%s %s%s' % (loop, args, fuel, cvars)
        blines, benv2 = self.block(body, benv, Tail('loop', vars=carried, text=call), '    ', s)
        for x, t in zip(carried, cty):
            if benv2.get(x, t) != t:
                raise self.bad('loop-carried variable %r changes its type' % x, s)
        self.aux.append('\n'.join([
            '/-- the `while %s:` loop of `%s` (line %d), by recursion on the counter; the loop-carried variables are '
            '%s -/' % (v, self.fname, s.lineno, ', '.join(carried)),
            head,
            '  | 0, %s => .ok (%s)' % (', '.join(ident(x) for x in carried), ', '.join(ident(x) for x in carried)),
            '  | %s + 1, %s =>' % (fuel, ', '.join(ident(x) for x in carried)),
            '    let %s : Int := (%s : Int) + 1' % (ident(v), fuel)] + blines))
        name = self.fresh('phi')
        lines = ['%sExcept.bind (show PyM %s from' % (ind, paren_type(rty)),
                 '%s  if %s < 0 then .error (.Unmodelled "while loop that does not terminate")' % (ind, ident(v)),
                 '%s  else %s%s %s.toNat%s) fun %s =>' % (ind, loop, args, ident(v), cvars, name)]
        env2 = dict(env)
        for i, x in enumerate(carried):
            lines.append('%slet %s : %s := %s' % (ind, ident(x), lean_type(cty[i]), proj(name, i, len(carried))))
        lines.append('%slet %s : Int := 0' % (ind, ident(v)))
        more, env3 = self.block(rest, env2, tail, ind, s)
        return lines + more, env3


def atom(t):
    """parenthesise unless the text is obviously atomic"""
    t = t.strip()
    if t.startswith('(') and matching_paren(t) == len(t) - 1:
        return t
    if all(ch.isalnum() or ch in '._«»' for ch in t):
        return t
    if t.endswith('.toList') and t.startswith('"') and t.count('"') == 2:
        return t
    return '(%s)' % t


def matching_paren(t):
    depth = 0
    for i, ch in enumerate(t):
        if ch == '(':
            depth += 1
        elif ch == ')':
            depth -= 1
            if depth == 0:
                return i
    return -1


def with_rest(body, rest):
    return list(body) if terminates(body) else list(body) + list(rest)


def terminates(body):
    if not body:
        return False
    last = body[-1]
    if isinstance(last, (ast.Return, ast.Raise)):
        return True
    if isinstance(last, ast.If):
        return bool(last.orelse) and terminates(last.body) and terminates(last.orelse)
    return False


def assigned_names(stmts):
    out = []
    for st in stmts:
        for n in ast.walk(st):
            if isinstance(n, ast.Name) and isinstance(n.ctx, ast.Store) and n.id not in out:
                out.append(n.id)
    return out


def loaded_names(stmts):
    return set(ordered_loaded_names(stmts))


def ordered_loaded_names(stmts):
    out = []
    for st in stmts:
        for n in ast.walk(st):
            if isinstance(n, ast.Name) and isinstance(n.ctx, ast.Load) and n.id not in out:
                out.append(n.id)
    return out


# ---------------------------------------------------------------------------------------
# module level
# ---------------------------------------------------------------------------------------

def check_signature(fd, ntypes, what):
    """-> [(name, default-node-or-None)]; no *args, **kw, kw-only, decorators, annotations ignored"""
    a = fd.args
    if fd.decorator_list:
        raise Unsupported('%s is decorated' % what, fd)
    if isinstance(fd, ast.AsyncFunctionDef) or a.vararg or a.kwarg or a.kwonlyargs or a.posonlyargs:
        raise Unsupported('unsupported signature of %s' % what, fd)
    names = [x.arg for x in a.args]
    if len(names) != ntypes:
        raise Unsupported('%s takes %d parameters, the translator table says %d' % (what, len(names), ntypes), fd)
    defaults = [None] * (len(names) - len(a.defaults)) + list(a.defaults)
    return list(zip(names, defaults))


def const_default(node, ty, what):
    if node is None:
        return None
    if not isinstance(node, ast.Constant):
        raise Unsupported('default value of %s is not a constant' % what, node)
    v = node.value
    if ty in ('int', 'nat') and isinstance(v, int) and not isinstance(v, bool):
        return str(v) if v >= 0 else '(%d)' % v
    if isinstance(ty, tuple) and ty[0] == 'opt' and v is None:
        return 'none'
    raise Unsupported('default value %r of %s does not fit its type %s' % (v, what, ty), node)


def is_docstring(st):
    return isinstance(st, ast.Expr) and isinstance(st.value, ast.Constant) and isinstance(st.value.value, str)


class Unit(object):
    def __init__(self, repo):
        self.repo = repo
        self.globals = {}          # module-level names visible to expressions: name -> (lean, type)
        self.constructors = {}     # ClassName -> (lean, type) for ClassName()
        self.mpu_used = []
        self.monitor_used = []
        self.need_label_for = set()
        self.hash = {}
        self.functions = []

    def use_mpu(self, attr):
        if attr not in self.mpu_used:
            self.mpu_used.append(attr)

    def use_monitor_field(self, attr):
        if attr not in self.monitor_used:
            self.monitor_used.append(attr)

    def parse(self, key):
        path = os.path.join(self.repo, SOURCES[key])
        data = open(path, 'rb').read()
        self.hash[SOURCES[key]] = hashlib.sha256(data).hexdigest()
        try:
            return ast.parse(data.decode('utf-8'), filename=path), path
        except SyntaxError as ex:
            e = Unsupported('syntax error: %s' % ex)
            e.file, e.line = path, ex.lineno
            raise e

    def guarded(self, path, fn):
        try:
            return fn()
        except Unsupported as e:
            if e.file is None:
                e.file = path
            raise

    # -- addressing.py: label_for, and the defaults of AddressParser.__init__ ---------------

    def addressing(self):
        tree, path = self.parse('addr')
        return self.guarded(path, lambda: self._addressing(tree))

    def _addressing(self, tree):
        cls = [n for n in tree.body if isinstance(n, ast.ClassDef) and n.name == 'AddressParser']
        if len(cls) != 1 or cls[0].decorator_list or cls[0].keywords:
            raise Unsupported('expected exactly one plain class AddressParser')
        cls = cls[0]
        for st in tree.body:
            if st is not cls:
                for n in ast.walk(st):
                    if isinstance(n, ast.Name) and n.id == 'AddressParser':
                        raise Unsupported('module-level code refers to AddressParser', st)
        defs = [n for n in cls.body if isinstance(n, (ast.FunctionDef, ast.AsyncFunctionDef))]
        byname = {}
        for d in defs:
            if d.name in byname:
                raise Unsupported('method %s defined twice' % d.name, d)
            byname[d.name] = d
        for special in ('__getattr__', '__getattribute__', '__setattr__'):
            if special in byname:
                raise Unsupported('AddressParser defines %s' % special, byname[special])
        for st in cls.body:
            if isinstance(st, ast.Assign):
                for t in st.targets:
                    for n in ast.walk(t):
                        if isinstance(n, ast.Name) and n.id in ('label_for', 'labels'):
                            raise Unsupported('class-level rebinding of %s' % n.id, st)
        out = []
        # AddressParser(): defaults of the signature
        init = byname.get('__init__')
        if init is None:
            raise Unsupported('AddressParser has no __init__')
        sig = check_signature(init, 4, 'AddressParser.__init__')
        if [s[0] for s in sig[1:]] != ['maxwidth', 'radix', 'labels']:
            raise Unsupported('AddressParser.__init__ parameters are not (maxwidth, radix, labels)', init)
        mw, rx, lb = (s[1] for s in sig[1:])
        for nm, dflt in (('maxwidth', mw), ('radix', rx)):
            if not (isinstance(dflt, ast.Constant) and isinstance(dflt.value, int)
                    and not isinstance(dflt.value, bool) and dflt.value >= 0):
                raise Unsupported('default of %s is not a natural-number constant' % nm, init)
        if not (isinstance(lb, ast.Dict) and not lb.keys):
            raise Unsupported('default of labels is not {}', init)
        out.append('/-- `AddressParser()`: the defaults of `__init__(self, maxwidth=%d, radix=%d, labels={})` -/\n'
                   'def AddressParser.default : Parser := { width := %d, radix := %d, labels := [] }'
                   % (mw.value, rx.value, mw.value, rx.value))
        self.constructors['AddressParser'] = ('AddressParser.default', 'parser')
        # label_for, two instances of the same translation: default : Option Str / default : Str
        fd = byname.get('label_for')
        if fd is None:
            raise Unsupported('AddressParser.label_for not found')
        sig = check_signature(fd, 3, 'AddressParser.label_for')
        for variant, dty, lname in (('opt', ('opt', 'str'), 'label_for'), ('str', 'str', 'label_for_str')):
            ft = FnTrans(self, 'AddressParser.label_for', lname, dty, self_type='parser', self_name=sig[0][0])
            ft.pure = True
            env = {sig[1][0]: 'int', sig[2][0]: dty}
            params = '(%s : Parser) (%s : Int) ' % (ident(sig[0][0]), ident(sig[1][0]))
            dflt = const_default(sig[2][1], ('opt', 'str'), 'default') if variant == 'opt' else None
            params += '(%s : %s%s)' % (ident(sig[2][0]), lean_type(dty), ' := ' + dflt if dflt else '')
            try:
                body, _ = ft.block(list(fd.body), env, Tail('fn'), '  ', fd)
            except NotPure:
                raise Unsupported('label_for can raise', fd)
            out += ft.aux
            doc = '/-- `AddressParser.label_for(address, default)`%s -/' % (
                '' if variant == 'opt' else ', instance for a `str` default (as the disassembler calls it)')
            out.append('%s\ndef %s %s : %s :=\n%s' % (doc, lname, params, lean_type(dty), '\n'.join(body)))
            self.functions.append(lname)
        return out

    # -- conversions.py: itoa and _itoa_fmts ------------------------------------------------

    def conversions(self):
        tree, path = self.parse('conv')
        return self.guarded(path, lambda: self._conversions(tree))

    def _conversions(self, tree):
        fd = tbl = None
        for st in tree.body:
            names = set(n.id for n in ast.walk(st) if isinstance(n, ast.Name)) | \
                set(n.name for n in ast.walk(st) if isinstance(n, (ast.FunctionDef, ast.ClassDef)))
            if isinstance(st, ast.FunctionDef) and st.name == 'itoa':
                if fd is not None:
                    raise Unsupported('itoa defined twice', st)
                fd = st
            elif isinstance(st, ast.Assign) and len(st.targets) == 1 and isinstance(st.targets[0], ast.Name) \
                    and st.targets[0].id == '_itoa_fmts':
                if tbl is not None:
                    raise Unsupported('_itoa_fmts assigned twice', st)
                tbl = st
            elif names & {'itoa', '_itoa_fmts'}:
                raise Unsupported('module-level code other than the definitions refers to itoa / _itoa_fmts', st)
            elif isinstance(st, (ast.FunctionDef, ast.Assign)) or is_docstring(st):
                continue       # other functions / tables of the module (not used by itoa)
            else:
                raise Unsupported('module-level statement %s in conversions.py' % type(st).__name__, st)
        if fd is None or tbl is None:
            raise Unsupported('itoa or _itoa_fmts not found')
        out = []
        d = tbl.value
        if not isinstance(d, ast.Dict) or not d.keys:
            raise Unsupported('_itoa_fmts is not a dict literal', tbl)
        items, seen = [], set()
        for k, v in zip(d.keys, d.values):
            if not (isinstance(k, ast.Constant) and isinstance(k.value, int) and not isinstance(k.value, bool)):
                raise Unsupported('_itoa_fmts key is not an int constant', tbl)
            if not (isinstance(v, ast.Constant) and isinstance(v.value, str)):
                raise Unsupported('_itoa_fmts value is not a string constant', tbl)
            if v.value not in FORMAT1_STRINGS:
                raise Unsupported('format string %r is not in the translator table %r' % (v.value, FORMAT1_STRINGS), v)
            if k.value in seen:
                raise Unsupported('duplicate key in _itoa_fmts', tbl)
            seen.add(k.value)
            items.append('(%s, %s)' % (str(k.value) if k.value >= 0 else '(%d)' % k.value, lean_str(v.value)))
        out.append('/-- `_itoa_fmts` (dict literal, items in source order) -/\n'
                   'def _itoa_fmts : List (Int × Str) := [%s]' % ', '.join(items))
        self.globals['_itoa_fmts'] = ('_itoa_fmts', ('dict', 'int', 'str'))
        sig = check_signature(fd, 2, 'itoa')
        ft = FnTrans(self, 'itoa', 'itoa', 'str')
        env = {sig[0][0]: 'int', sig[1][0]: 'int'}
        params = []
        for (nm, dflt) in sig:
            dv = const_default(dflt, 'int', nm)
            params.append('(%s : Int%s)' % (ident(nm), ' := ' + dv if dv else ''))
        body, _ = ft.block(list(fd.body), env, Tail('fn'), '  ', fd)
        if not ft.monadic:
            raise Unsupported('itoa no longer raises for an unsupported base', fd)
        out += ft.aux
        out.append('/-- `itoa(num, base)` -/\ndef itoa %s : PyM Str :=\n%s' % (' '.join(params), '\n'.join(body)))
        self.functions.append('itoa')
        return out

    # -- disassembler.py --------------------------------------------------------------------

    def disassembler(self):
        tree, path = self.parse('dis')
        return self.guarded(path, lambda: self._disassembler(tree))

    def _disassembler(self, tree):
        cls = None
        for st in tree.body:
            if is_docstring(st):
                continue
            if isinstance(st, ast.ImportFrom) and st.module == 'py65.utils.addressing' and st.level == 0 \
                    and [(a.name, a.asname) for a in st.names] == [('AddressParser', None)]:
                continue
            if isinstance(st, ast.ClassDef) and st.name == 'Disassembler' and cls is None:
                cls = st
                continue
            raise Unsupported('module-level statement %s in disassembler.py is outside the translated subset'
                              % type(st).__name__, st)
        if cls is None:
            raise Unsupported('class Disassembler not found')
        if cls.decorator_list or cls.keywords or any(not (isinstance(b, ast.Name) and b.id == 'object')
                                                      for b in cls.bases):
            raise Unsupported('Disassembler has base classes, a metaclass or decorators', cls)
        methods = {}
        for st in cls.body:
            if is_docstring(st) or isinstance(st, ast.Pass):
                continue
            if isinstance(st, ast.FunctionDef) and st.name in ('__init__', 'instruction_at') \
                    and st.name not in methods:
                methods[st.name] = st
                continue
            raise Unsupported('class member %s of Disassembler is outside the translated subset'
                              % (getattr(st, 'name', None) or type(st).__name__), st)
        if set(methods) != {'__init__', 'instruction_at'}:
            raise Unsupported('Disassembler must define __init__ and instruction_at', cls)
        out = []
        # __init__
        fd = methods['__init__']
        sig = check_signature(fd, 3, 'Disassembler.__init__')
        ft = FnTrans(self, 'Disassembler.__init__', 'Disassembler.__init__', None, self_name=sig[0][0],
                     in_init=True)
        ft.pure = True
        if sig[1][1] is not None:
            raise Unsupported('parameter %s of Disassembler.__init__ has a default' % sig[1][0], fd)
        env = {sig[1][0]: 'mpu', sig[2][0]: ('opt', 'parser')}
        dv = const_default(sig[2][1], ('opt', 'parser'), sig[2][0])
        try:
            body, _ = ft.block(list(fd.body), env, Tail('init'), '  ', fd)
        except NotPure:
            raise Unsupported('Disassembler.__init__ can raise', fd)
        fields = ft.final_fields()
        if not fields:
            raise Unsupported('Disassembler.__init__ assigns no field', fd)
        init_text = ('/-- `Disassembler.__init__(mpu, address_parser)` -/\n'
                     'def Disassembler.__init__ (%s : Mpu) (%s : Option Parser%s) : Disassembler :=\n%s'
                     % (ident(sig[1][0]), ident(sig[2][0]), ' := ' + dv if dv else '', '\n'.join(body)))
        # instruction_at
        fd2 = methods['instruction_at']
        sig2 = check_signature(fd2, 2, 'Disassembler.instruction_at')
        if sig2[1][1] is not None:
            raise Unsupported('parameter of instruction_at has a default', fd2)
        ft2 = FnTrans(self, 'Disassembler.instruction_at', 'Disassembler.instruction_at', None,
                      self_name=sig2[0][0], fields=dict((f, ty) for f, ty, _ in fields))
        body2, _ = ft2.block(list(fd2.body), {sig2[1][0]: 'int'}, Tail('fn'), '  ', fd2)
        if ft2.ret_type != ('tuple', ('int', 'str')):
            raise Unsupported('instruction_at does not return (int, str) but %s' % (ft2.ret_type,), fd2)
        rt = lean_type(ft2.ret_type)
        at_text = ('/-- `Disassembler.instruction_at(pc)` -> `(length, disasm)` -/\n'
                   'def Disassembler.instruction_at (%s : Disassembler) (%s : Int) : %s :=\n%s'
                   % (ident(sig2[0][0]), ident(sig2[1][0]), 'PyM (%s)' % rt if ft2.monadic else rt,
                      '\n'.join(body2)))
        if not ft2.monadic:
            raise Unsupported('instruction_at no longer raises for an unknown addressing mode', fd2)
        # the mpu interface: exactly the attributes used
        mp = ['/-- what the disassembler uses of its `mpu` (attributes in order of first use) -/',
              'structure Mpu where']
        for a in self.mpu_used:
            if a in MPU_ATTRS:
                mp.append('  %s : %s' % (a, lean_type(MPU_ATTRS[a])))
            else:
                atys, res = MPU_METHODS[a]
                mp.append('  %s : %s' % (a, ' → '.join(lean_type(t) for t in list(atys) + [res])))
        out.append('\n'.join(mp))
        st = ['/-- the instance attributes set by `Disassembler.__init__` (in order of assignment) -/',
              'structure Disassembler where']
        for f, ty, _ in fields:
            st.append('  %s : %s' % (ident(f), lean_type(ty)))
        out.append('\n'.join(st))
        out.append(init_text)
        out += ft2.aux
        out.append(at_text)
        self.functions += ['Disassembler.__init__', 'Disassembler.instruction_at']
        self.fields = fields
        return out


    # -- monitor.py: Monitor._format_disassembly ---------------------------------------------

    def monitor(self):
        tree, path = self.parse('mon')
        return self.guarded(path, lambda: self._monitor(tree))

    def _monitor(self, tree):
        cls = [n for n in tree.body if isinstance(n, ast.ClassDef) and n.name == 'Monitor']
        if len(cls) != 1 or cls[0].decorator_list:
            raise Unsupported('expected exactly one plain class Monitor')
        cls = cls[0]
        for st in tree.body:
            if st is not cls and not isinstance(st, (ast.Import, ast.ImportFrom)):
                for n in ast.walk(st):
                    if isinstance(n, ast.Attribute) and n.attr == '_format_disassembly':
                        raise Unsupported('module-level code refers to _format_disassembly', st)
        fds = [n for n in cls.body if isinstance(n, (ast.FunctionDef, ast.AsyncFunctionDef))
               and n.name == '_format_disassembly']
        if len(fds) != 1:
            raise Unsupported('Monitor._format_disassembly not found exactly once', cls)
        for st in cls.body:
            if isinstance(st, (ast.Assign, ast.AugAssign, ast.AnnAssign)):
                for n in ast.walk(st):
                    if isinstance(n, ast.Name) and n.id == '_format_disassembly':
                        raise Unsupported('class-level rebinding of _format_disassembly', st)
        for special in ('__getattr__', '__getattribute__', '__setattr__'):
            if any(isinstance(n, ast.FunctionDef) and n.name == special for n in cls.body):
                raise Unsupported('Monitor defines %s' % special, cls)
        fd = fds[0]
        sig = check_signature(fd, 4, 'Monitor._format_disassembly')
        if any(d is not None for _, d in sig):
            raise Unsupported('a parameter of _format_disassembly has a default', fd)
        ft = FnTrans(self, 'Monitor._format_disassembly', 'Monitor._format_disassembly', 'str',
                     self_type='monitor', self_name=sig[0][0])
        env = {sig[1][0]: 'int', sig[2][0]: 'int', sig[3][0]: 'str'}
        body, _ = ft.block(list(fd.body), env, Tail('fn'), '  ', fd)
        # provenance of the Monitor attributes read: every store to them in the class is `X.f = X._mpu.F`
        used = list(self.monitor_used)
        stores = dict((f, 0) for f in used)
        for n in ast.walk(cls):
            targets = []
            if isinstance(n, ast.Assign):
                targets = [(t, n.value) for t in n.targets]
            elif isinstance(n, (ast.AugAssign, ast.AnnAssign)):
                targets = [(n.target, None)]
            elif isinstance(n, (ast.For, ast.AsyncFor)):
                targets = [(n.target, None)]
            elif isinstance(n, ast.Delete):
                targets = [(t, None) for t in n.targets]
            elif isinstance(n, (ast.With, ast.AsyncWith)):
                targets = [(i.optional_vars, None) for i in n.items if i.optional_vars is not None]
            for t, val in targets:
                for x in ast.walk(t):
                    if isinstance(x, ast.Attribute) and x.attr in stores and isinstance(x.ctx, (ast.Store, ast.Del)):
                        ok = (x is t and isinstance(x.value, ast.Name) and isinstance(val, ast.Attribute)
                              and val.attr == MONITOR_FIELDS[x.attr][1] and isinstance(val.value, ast.Attribute)
                              and val.value.attr == '_mpu' and isinstance(val.value.value, ast.Name)
                              and val.value.value.id == x.value.id)
                        if not ok:
                            raise Unsupported('Monitor.%s is assigned by something other than `self.%s = self._mpu.%s`'
                                              % (x.attr, x.attr, MONITOR_FIELDS[x.attr][1]), n)
                        stores[x.attr] += 1
            if isinstance(n, ast.Call) and isinstance(n.func, ast.Name) and n.func.id in ('setattr', 'delattr') \
                    and not (n.args and isinstance(n.args[0], ast.Attribute)):
                # setattr(self._mpu, …) sets a register of the mpu; setattr(self, …) could set anything
                raise Unsupported('Monitor uses %s on itself' % n.func.id, n)
        for f in used:
            if stores[f] == 0:
                raise Unsupported('Monitor.%s is read by _format_disassembly but never assigned' % f, fd)
            self.use_mpu(MONITOR_FIELDS[f][1])
        out = []
        st = ['/-- the attributes of `Monitor` that `_format_disassembly` reads.  The translator has checked that every '
              'assignment to them in class Monitor is `self.X = self._mpu.Y` (`_reset`). -/',
              'structure Monitor where', '  _mpu : Mpu']
        for f in used:
            st.append('  %s : %s' % (f, lean_type(MONITOR_FIELDS[f][0])))
        out.append('\n'.join(st))
        out.append('/-- the state `_reset` establishes, as far as `_format_disassembly` reads it -/\n'
                   'def Monitor._reset_view (mpu : Mpu) : Monitor :=\n  { _mpu := mpu%s }'
                   % ''.join(', %s := mpu.%s' % (f, MONITOR_FIELDS[f][1]) for f in used))
        out += ft.aux
        out.append('/-- `Monitor._format_disassembly(address, length, disasm)` -/\n'
                   'def Monitor._format_disassembly (%s : Monitor) (%s : Int) (%s : Int) (%s : Str) : %s :=\n%s'
                   % (ident(sig[0][0]), ident(sig[1][0]), ident(sig[2][0]), ident(sig[3][0]),
                      'PyM Str' if ft.monadic else 'Str', '\n'.join(body)))
        self.functions.append('Monitor._format_disassembly')
        return out


HEADER = '''/- GENERATED by harness/py2lean_dis.py from py65/disassembler.py, py65/utils/conversions.py (itoa, _itoa_fmts)
   py65/utils/addressing.py (AddressParser.label_for) and py65/monitor.py (Monitor._format_disassembly) -- do not edit.  Statement-by-statement shallow
   embedding; library behaviour is the named functions of Py65/Model/GenRt.lean, PyStr.lean, PyInt.lean.
   Imported only by Py65/Proofs/DisasmGenEq.lean and Py65/Props/C08g, C09g, C19g. -/
import Py65.Model.GenRt

set_option linter.unusedVariables false

namespace %s
open Py65.Model.PyStr Py65.Model.AddrParser Py65.Model.GenRt
''' % NAMESPACE


def run(repo, outdir, report):
    u = Unit(repo)
    parts = ['/-! ### py65/utils/addressing.py -/'] + u.addressing()
    parts += ['/-! ### py65/utils/conversions.py -/'] + u.conversions()
    mon = u.monitor()          # before the disassembler: the Mpu structure lists every attribute used
    parts += ['/-! ### py65/disassembler.py -/'] + u.disassembler()
    parts += ['/-! ### py65/monitor.py (Monitor._format_disassembly only) -/'] + mon
    text = HEADER + '\n' + '\n\n'.join(parts) + '\n\nend %s\n' % NAMESPACE
    report['source_sha256'] = u.hash
    report['functions'] = u.functions
    report['mpu_interface'] = u.mpu_used
    report['fields'] = [f for f, _, _ in u.fields]
    os.makedirs(outdir, exist_ok=True)
    p = os.path.join(outdir, OUTNAME)
    old = open(p).read() if os.path.exists(p) else None
    report['written'] = []
    if old != text:
        with open(p, 'w') as f:
            f.write(text)
        report['written'] = [OUTNAME]
    return [OUTNAME]


def main():
    ap = argparse.ArgumentParser()
    ap.add_argument('--out', required=True)
    ap.add_argument('--report', default=None)
    ap.add_argument('--repo', default=os.environ.get('PY65_REPO', '/repo'))
    a = ap.parse_args()
    report = {'ok': False}
    rc = 0
    try:
        report['files'] = run(a.repo, a.out, report)
        report['ok'] = True
    except Unsupported as ex:
        report['error'] = ex.msg
        line = getattr(ex.node, 'lineno', None) or getattr(ex, 'line', None)
        if ex.file:
            report['where'] = '%s:%s' % (ex.file, line if line is not None else '?')
        if ex.func:
            report['function'] = ex.func
        sys.stderr.write('py2lean_dis: unsupported: %s (%s)\n' % (ex.msg, report.get('where', '?')))
        rc = 3
    except (OSError, UnicodeDecodeError) as ex:
        report['error'] = 'cannot read the source: %s' % ex
        sys.stderr.write('py2lean_dis: %s\n' % report['error'])
        rc = 3
    if rc != 0:
        # no stale model: the generated file is replaced by a stub that says why and does not build, so
        # that what is on disk never depends on the history of earlier runs
        write_stub(a.out, report)
    if a.report:
        with open(a.report, 'w') as f:
            json.dump(report, f, indent=1)
    sys.exit(rc)


def write_stub(outdir, report):
    msg = '%s (%s%s)' % (report.get('error'), report.get('where', '?'),
                         ', in ' + report['function'] if report.get('function') else '')
    msg = ''.join(ch if 32 <= ord(ch) < 127 and ch not in '"\\' else '?' for ch in msg)
    text = ('/- GENERATED by harness/py2lean_dis.py -- the translator REFUSED the current source, so there is no\n'
            '   generated model; this file deliberately does not build. -/\n'
            'import Py65.Model.GenRt\n\n'
            '#eval (throw (IO.userError "py2lean_dis refused the source: %s") : IO Unit)\n' % msg)
    try:
        os.makedirs(outdir, exist_ok=True)
        p = os.path.join(outdir, OUTNAME)
        old = open(p).read() if os.path.exists(p) else None
        if old != text:
            with open(p, 'w') as f:
                f.write(text)
            report['written'] = [OUTNAME + ' (stub)']
    except OSError:
        pass


if __name__ == '__main__':
    main()
