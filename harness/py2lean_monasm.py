#!/usr/bin/env python3
"""py2lean_monasm.py -- translator (tie 1) for the remaining COMMANDS of py65/monitor.py (C20, unit `asmc`).

    py2lean_monasm.py --out lean/Py65/Gen --report r.json

Parses `$PY65_REPO/py65/monitor.py` with `ast` and emits `Py65/Gen/MonAsmGen.lean`:

    Monitor._add_shortcuts (the table `do_help` looks at), help_assemble, help_cd, help_pwd, help_version,
    help_help, do_version, do_pwd, do_cd, do_help, _interactive_assemble, do_assemble

as a shallow embedding that follows the Python statement by statement.  The machinery is that of
`py2lean_mon.py` (class `FnTr`) as extended by `py2lean_monmem.py` (class `MemFnTr`: `try` with dynamic
dispatch, exceptions with arguments, join functions), which this file imports and extends once more.

Additions to the accepted subset (anything else -> exit 3 + JSON report):
  statements   the SLICE store `self._mpu.memory[a:b] = bytes` (-> `ObsMem.setSlice`, the ObservableMemory
               model's slice write; `ValueError` modelled); `self.stdout.write(x)`; `self._output(x)` (=
               `stdout.write(x + "\\n")`); `self.do_disassemble(x)` (-> parameter `dis`); `os.chdir(x)` (->
               `pyChdir w`, any exception class); `self.do_pwd()` with its defaulted argument; `try` INSIDE a
               `while` loop (handlers and the rest of the loop body are translated in the loop's context);
               `return` / `return None` inside a `while` loop that is the LAST statement of the method (ends
               the loop); `return cmd.Cmd.do_help(self, x)` (-> parameter `cmdhelp`, tail call); a
               parameter with the default `None` that the body never reads (`do_pwd(self, args=None)`).
  expressions  `s.split(None, 1)`, `s.strip()`, `str * int`, `int * int`, `2 ** self._mpu.ADDR_WIDTH`,
               `int(<int const> + <int> / <positive int const>)` (true division, exact fraction),
               `self._shortcuts.get(k, default)`, `os.getcwd()`, `self._address_parser.number(x)` (->
               `parseNumberA σ.parser`), `self._assembler.assemble(s, pc)` / `(s, pc=pc)` (-> parameter `asm`),
               `self._disassembler.instruction_at(a)` (-> `iat`), `self._format_disassembly(a, n, s)` (->
               `fmtdis`), `console.line_input(prompt, stdin=self.stdin, stdout=self.stdout)` (-> `pyLineInput`).
Library behaviour is the named helpers of lean/Py65/Model/MonAsmRt.lean (+ MonGenRt, MonCmdRt, ShowRt, GenRt).
"""
import argparse
import ast
import hashlib
import json
import os
import re
import sys

HERE = os.path.dirname(os.path.abspath(__file__))
if HERE not in sys.path:
    sys.path.insert(0, HERE)
import py2lean_mon as M  # noqa: E402
import py2lean_monmem as MM  # noqa: E402
from py2lean_mon import (Unsupported, NeedCPS, Val, Bind, Ctl, INT, BOOL, PROP, STR, NONE,  # noqa: E402
                         tlist, topt, ttuple, ind, proj, unparse1, path_of, lean_strlist)
from py2lean_monmem import lean_type, trivial  # noqa: E402

M.RESERVED |= set(['w', 'asm', 'iat', 'fmtdis', 'dis', 'cmdhelp', 'reply', 'd'])
M.STORE_SITES.update({'byteWidth': '_reset', '_assembler': '_reset', '_disassembler': '_reset'})

# exception classes: constructor of MonAsmRt.AExc and the attributes the code may read
EXC_TABLE = {
    'KeyError': ('KeyError', [('args0', STR)]),
    'OverflowError': ('OverflowError', []),
    'SyntaxError': ('SyntaxError', []),
    'OSError': ('OSError', [('errno', INT), ('strerror', STR)]),
    'IOError': ('OSError', [('errno', INT), ('strerror', STR)]),      # alias of OSError in Python 3
    'IndexError': ('IndexError', []), 'TypeError': ('TypeError', []), 'ValueError': ('ValueError', []),
}
MM.EXC_TABLE.clear()
MM.EXC_TABLE.update(EXC_TABLE)          # process-local: MemFnTr.st_raise reads it by its global name

UNIT = dict(
    file='MonAsmGen.lean', ns='Py65.Gen.MonAsmGen', mode='flow', state='AsmSt',
    params=[('w', 'AWorld'), ('asm', 'Parser → Str → Int → Except AExc (List Int)'),
            ('iat', 'AsmSt → Int → Except AExc (Int × Str)'),
            ('fmtdis', 'AsmSt → Int → Int → Str → Except AExc Str'),
            ('dis', 'Str → AsmSt → AFlow AsmSt Unit'), ('cmdhelp', 'Str → AsmSt → AFlow AsmSt Unit'),
            ('reply', 'Reply'), ('d', 'Dev')],
    funcs=['help_assemble', 'help_cd', 'help_pwd', 'help_version', 'help_help', 'do_version', 'do_pwd', 'do_cd',
           'do_help', '_interactive_assemble', 'do_assemble'],
    sigs={'help_assemble': [], 'help_cd': [], 'help_pwd': [], 'help_version': [], 'help_help': [],
          'do_version': [('args', STR)], 'do_pwd': [('args', topt(STR))], 'do_cd': [('args', STR)],
          'do_help': [('args', STR)], '_interactive_assemble': [('args', STR)], 'do_assemble': [('args', STR)]},
    # parameters that have a default in the source: (value of the default, must the body leave it unread)
    defaults={'do_pwd': {'args': None}},
    attrs={
        ('self', 'addrFmt'): ('hexfmt', 'd.addrFmtW'),
        ('self', 'byteWidth'): ('cfg', '(d.BW : Int)', INT),
        ('self', '_mpu'): ('obj', 'mpu'),
        ('self', '_mpu', 'memory'): ('obj', 'omem'),
        ('self', '_mpu', 'pc'): ('field', ('regs', 'pc'), INT),
        ('self', '_mpu', 'ADDR_WIDTH'): ('cfgnat', 'd.AW'),
        ('self', '_address_parser'): ('obj', 'parser'),
        ('self', '_assembler'): ('obj', 'assembler'),
        ('self', '_disassembler'): ('obj', 'disassembler'),
        ('self', '_shortcuts'): ('obj', 'shortcuts'),
        ('self', 'stdin'): ('obj', 'ignored'),
        ('self', 'stdout'): ('obj', 'stdout'),
    },
    reset_facts=['self.byteWidth = self._mpu.BYTE_WIDTH', 'self.addrFmt = self._mpu.ADDR_FORMAT',
                 'self._address_parser = AddressParser(maxwidth=self.addrWidth)',
                 'self._disassembler = Disassembler(self._mpu, self._address_parser)',
                 'self._assembler = Assembler(self._mpu, self._address_parser)'],
    init_facts=['self._add_shortcuts()'],
    uses_output=True,
)
NL = '"\\n".toList'


class AsmFnTr(MM.MemFnTr):
    def __init__(self, *a, **kw):
        MM.MemFnTr.__init__(self, *a, **kw)
        self.loop_tail = []             # per enclosing while loop: is it the last statement of the method?

    def mangle(self, n):
        if n == '_':
            return 'underscore_'
        return MM.MemFnTr.mangle(self, n)

    # -- expressions -------------------------------------------------------------------------
    def attr_val(self, p, node, env):
        a = self.unit['attrs'].get(p)
        if a is not None and a[0] == 'cfgnat':
            return Val('(%s : Int)' % a[1], INT, True, nat=a[1])
        if a is not None and a[0] == 'obj' and a[1] == 'shortcuts':
            return Val('_shortcuts', tlist(ttuple([STR, STR])), True, alias=p)
        return MM.MemFnTr.attr_val(self, p, node, env)

    def binop(self, node, env, pre, ctl):
        if isinstance(node.op, (ast.Mult, ast.Pow)):
            l = self.ex(node.left, env, pre, ctl)
            r = self.ex(node.right, env, pre, ctl)
            if isinstance(node.op, ast.Mult) and l.ty == STR and r.ty == INT and l.text is not None:
                return Val('pyStrMul %s %s' % (l.p(), r.p()), STR)
            if isinstance(node.op, ast.Mult) and l.ty == INT and r.ty == INT:
                return Val('%s * %s' % (l.p(), r.p()), INT)
            if isinstance(node.op, ast.Pow) and l.ty == INT and r.ty == INT and 'nat' in r.static \
                    and isinstance(node.left, ast.Constant):
                # the exponent is a width constant of the device (a natural number)
                return Val('(%s : Int) ^ %s' % (l.text, r.static['nat']), INT)
            self.fail('operator %s on %s and %s' % (type(node.op).__name__, l.ty, r.ty), node)
        if isinstance(node.op, ast.Div):
            self.fail('true division outside `int(<const> + <int> / <const>)`', node)
        return MM.MemFnTr.binop(self, node, env, pre, ctl)

    @staticmethod
    def int_const(n):
        return isinstance(n, ast.Constant) and isinstance(n.value, int) and not isinstance(n.value, bool)

    def str_val(self, node, env, pre, ctl, what):
        v = self.ex(node, env, pre, ctl)
        if v.ty != STR or v.text is None:
            self.fail('%s of a %s' % (what, v.ty), node)
        return v

    def int_val(self, node, env, pre, ctl, what):
        v = self.ex(node, env, pre, ctl)
        if v.ty != INT or v.text is None:
            self.fail('%s of a %s' % (what, v.ty), node)
        return v

    def is_self_attr(self, node, env, kind):
        p = self.resolve_path(node, env)
        a = self.unit['attrs'].get(p) if p else None
        return a is not None and a[0] == 'obj' and a[1] == kind

    def call_expr(self, node, env, pre, ctl):
        f = node.func
        if isinstance(f, ast.Name) and f.id not in env and f.id == 'int' and len(node.args) == 1 and not node.keywords:
            a = node.args[0]
            # int(<c> + <x> / <c2>): Python 3 true division gives a float; exact as a fraction
            if isinstance(a, ast.BinOp) and isinstance(a.op, ast.Add) and self.int_const(a.left) \
                    and isinstance(a.right, ast.BinOp) and isinstance(a.right.op, ast.Div) \
                    and self.int_const(a.right.right) and a.right.right.value > 0:
                x = self.int_val(a.right.left, env, pre, ctl, 'true division')
                return Val('GenRt.fracToInt (GenRt.fracAddInt %d (GenRt.fracOfDiv %s %d))'
                           % (a.left.value, x.p(), a.right.right.value), INT)
        if isinstance(f, ast.Attribute):
            p = self.resolve_path(f, env)
            if p is not None:
                owner = self.unit['attrs'].get(p[:-1])
                okind = owner[1] if owner is not None and owner[0] == 'obj' else None
                if okind == 'parser' and p[-1] == 'number':
                    self.args_plain(node, 1, 'number')
                    a = self.str_val(node.args[0], env, pre, ctl, 'number()')
                    return self.except_bind('parseNumberA σ.parser %s' % a.p(), INT, env, pre, ctl, node)
                if okind == 'parser':
                    self.fail('unknown method %s of the address parser' % p[-1], node)
                if okind == 'assembler' and p[-1] == 'assemble':
                    given = list(node.args)
                    if len(node.keywords) == 1 and node.keywords[0].arg == 'pc' and len(given) == 1:
                        given.append(node.keywords[0].value)
                    elif node.keywords or len(given) != 2:
                        self.fail('assemble takes (statement, pc)', node)
                    s = self.str_val(given[0], env, pre, ctl, 'assemble()')
                    pc = self.int_val(given[1], env, pre, ctl, 'assemble() at')
                    return self.except_bind('asm σ.parser %s %s' % (s.p(), pc.p()), tlist(INT), env, pre, ctl, node)
                if okind == 'assembler':
                    self.fail('unknown method %s of the assembler' % p[-1], node)
                if okind == 'disassembler' and p[-1] == 'instruction_at':
                    self.args_plain(node, 1, 'instruction_at')
                    a = self.int_val(node.args[0], env, pre, ctl, 'instruction_at()')
                    return self.except_bind('iat σ %s' % a.p(), ttuple([INT, STR]), env, pre, ctl, node)
                if okind == 'disassembler':
                    self.fail('unknown method %s of the disassembler' % p[-1], node)
                if p == ('self', '_format_disassembly'):
                    self.args_plain(node, 3, '_format_disassembly')
                    a = self.int_val(node.args[0], env, pre, ctl, '_format_disassembly()')
                    n = self.int_val(node.args[1], env, pre, ctl, '_format_disassembly()')
                    s = self.str_val(node.args[2], env, pre, ctl, '_format_disassembly()')
                    return self.except_bind('fmtdis σ %s %s %s' % (a.p(), n.p(), s.p()), STR, env, pre, ctl, node)
                if okind == 'shortcuts' and p[-1] == 'get':
                    self.args_plain(node, 2, 'dict.get')
                    k = self.str_val(node.args[0], env, pre, ctl, 'dict.get()')
                    dflt = self.str_val(node.args[1], env, pre, ctl, 'dict.get() default')
                    return Val('pyDictGetD _shortcuts %s %s' % (k.p(), dflt.p()), STR)
                if okind == 'shortcuts':
                    self.fail('only self._shortcuts.get(key, default) is accepted', node)
                if p == ('os', 'getcwd') and 'os' not in env:
                    self.args_plain(node, 0, 'os.getcwd')
                    self.need_flow(node, 'os.getcwd')
                    return Val('σ.cwd', STR, True)
                if p == ('console', 'line_input') and 'console' not in env:
                    self.need_flow(node, 'console.line_input')
                    if ctl.phi:
                        raise NeedCPS()
                    kws = dict((k.arg, k.value) for k in node.keywords)
                    if len(node.args) != 1 or set(kws) != set(['stdin', 'stdout']) or \
                            not self.is_self_attr(kws['stdin'], env, 'ignored') or \
                            not self.is_self_attr(kws['stdout'], env, 'stdout'):
                        self.fail('only console.line_input(prompt, stdin=self.stdin, stdout=self.stdout) is accepted', node)
                    pr = self.str_val(node.args[0], env, pre, ctl, 'line_input()')
                    t = self.temp()

                    def w(lines, t=t, pr=pr):
                        return ['match pyLineInput %s σ with' % pr.p(),
                                '| none => .nofuel   -- stdin is exhausted: the call does not return',
                                '| some %s =>' % t] + ind(['let σ : AsmSt := %s.2' % t] + lines)
                    pre.append(w)
                    return Val('%s.1' % t, STR, True)
            else:
                m = f.attr
                if m in ('split', 'strip'):
                    ntemp = self.ntemp
                    try:
                        probe = self.ex(f.value, env, [], ctl.with_(phi=False))
                    except (Unsupported, NeedCPS):
                        probe = None
                    self.ntemp = ntemp
                    if probe is not None and probe.ty == STR and probe.text is not None:
                        if m == 'strip' and not node.args and not node.keywords:
                            recv = self.ex(f.value, env, pre, ctl)
                            return Val('MonCmd.pyStrip %s' % recv.p(), STR)
                        if m == 'split':
                            if node.keywords or len(node.args) != 2 or not (
                                    isinstance(node.args[0], ast.Constant) and node.args[0].value is None) or not (
                                    self.int_const(node.args[1]) and node.args[1].value == 1):
                                self.fail('only s.split(None, 1) is accepted', node)
                            recv = self.ex(f.value, env, pre, ctl)
                            return Val('pySplitWs1 %s' % recv.p(), tlist(STR))
        return MM.MemFnTr.call_expr(self, node, env, pre, ctl)

    # -- statements ----------------------------------------------------------------------------
    def block(self, stmts, env, k, ctl):
        if stmts and isinstance(stmts[0], ast.While):
            rest = stmts[1:]

            def restk(e):
                return self.block(rest, e, k, ctl)
            restk.trivial = (not rest) and trivial(k)       # (FnTr.block would drop the flag)
            return self.st_while(stmts[0], env, restk, ctl)
        return MM.MemFnTr.block(self, stmts, env, k, ctl)

    def st_assign(self, s, env, k, ctl):
        tg = s.targets[0] if len(s.targets) == 1 else None
        if isinstance(tg, ast.Subscript) and isinstance(tg.slice, ast.Slice):
            self.need_flow(s, 'a slice store')
            if ctl.phi:
                raise NeedCPS()
            if not self.is_self_attr(tg.value, env, 'omem'):
                self.fail('slice store to something other than the memory object', s)
            sl = tg.slice
            if sl.lower is None or sl.upper is None or sl.step is not None:
                self.fail('only the slice store memory[a:b] = values is accepted', s)
            pre = []
            # Python evaluates the right side first, then the target's slice bounds
            v = self.ex(s.value, env, pre, ctl)
            if v.ty != tlist(INT) or v.text is None:
                self.fail('slice store of a %s' % (v.ty,), s)
            lo = self.int_val(sl.lower, env, pre, ctl, 'slice bound')
            hi = self.int_val(sl.upper, env, pre, ctl, 'slice bound')
            nm = self.opt_bind('ObsMem.setSlice reply σ.memory (some %s) (some %s) none %s' % (lo.p(), hi.p(), v.p()),
                               'ValueError', ('obj', 'omemval'), env, pre, ctl, s)
            return ['-- %s' % unparse1(s)] + self.wrap(pre, ['let σ : AsmSt := { σ with memory := %s }' % nm.text] + k(env))
        return MM.MemFnTr.st_assign(self, s, env, k, ctl)

    def st_call(self, node, env, k, ctl, s):
        head = ['-- %s' % unparse1(s)]
        p = self.resolve_path(node.func, env)
        st = self.unit['state']
        pre = []
        if p == ('self', '_output') and len(node.args) == 1 and not node.keywords:
            self.need_flow(s, '_output')
            v = self.str_val(node.args[0], env, pre, ctl, '_output')
            upd = self.state_upd(('out',), 'σ.out ++ [%s ++ %s]' % (v.p(), NL))
            return head + self.wrap(pre, ['let σ : %s := %s' % (st, upd)] + k(env))
        if p is not None and p[-1] == 'write' and self.unit['attrs'].get(p[:-1]) == ('obj', 'stdout'):
            self.need_flow(s, 'stdout.write')
            self.args_plain(node, 1, 'stdout.write')
            v = self.str_val(node.args[0], env, pre, ctl, 'stdout.write')
            upd = self.state_upd(('out',), 'σ.out ++ [%s]' % v.text)
            return head + self.wrap(pre, ['let σ : %s := %s' % (st, upd)] + k(env))
        if p == ('self', 'do_disassemble'):
            self.need_flow(s, 'do_disassemble')
            if ctl.phi:
                raise NeedCPS()
            self.args_plain(node, 1, 'do_disassemble')
            v = self.str_val(node.args[0], env, pre, ctl, 'do_disassemble')
            return head + self.wrap(pre, ['(dis %s σ).bind fun _ σ =>' % v.p()] + k(env))
        if p == ('os', 'chdir') and 'os' not in env:
            self.need_flow(s, 'os.chdir')
            if ctl.phi:
                raise NeedCPS()
            self.args_plain(node, 1, 'os.chdir')
            v = self.str_val(node.args[0], env, pre, ctl, 'os.chdir')
            nd = self.except_bind('pyChdir w σ.cwd %s' % v.p(), STR, env, pre, ctl, s)
            return head + self.wrap(pre, ['let σ : %s := { σ with cwd := %s }' % (st, nd.text)] + k(env))
        return MM.MemFnTr.st_call(self, node, env, k, ctl, s)

    def internal_call(self, node, callee, env, pre, ctl):
        """as FnTr.internal_call; a parameter with a default may be left out (the default is passed)"""
        dfl = self.unit.get('defaults', {}).get(callee, {})
        sig = self.unit['sigs'][callee]
        given = {}
        if len(node.args) > len(sig):
            self.fail('too many arguments for %s' % callee, node)
        for (pn, pt), a in zip(sig, node.args):
            given[pn] = a
        for kw in node.keywords:
            if kw.arg is None or kw.arg in given or kw.arg not in [x for x, _ in sig]:
                self.fail('bad keyword argument for %s' % callee, node)
            given[kw.arg] = kw.value
        args = []
        for pn, pt in sig:
            if pn not in given:
                if pn in dfl and dfl[pn] is None:
                    args.append('none')
                    continue
                self.fail('missing argument %s for %s' % (pn, callee), node)
            v = self.coerce(self.ex(given[pn], env, pre, ctl), pt, node)
            if v.text is None:
                self.fail('static-only argument', node)
            args.append(v.p())
        return ' '.join(x for x in [callee, self.pnames(), 'fuel' if self.fuel_of[callee] else '', ' '.join(args), 'σ'] if x)

    def st_return(self, s, env, ctl):
        v = s.value
        is_none = v is None or (isinstance(v, ast.Constant) and v.value is None)
        if ctl.lc is not None and is_none and not self.in_try:
            if ctl.phi:
                raise NeedCPS()
            if not (self.loop_tail and self.loop_tail[-1]):
                self.fail('return inside a loop that is not the last statement of the method', s)
            return ['-- %s  (the loop is the last statement of the method: this ends it)' % unparse1(s)] + ctl.lc.brk(env)
        if isinstance(v, ast.Call) and path_of(v.func) == ('cmd', 'Cmd', 'do_help') and 'cmd' not in env:
            if ctl.phi:
                raise NeedCPS()
            if ctl.lc is not None or self.in_try:
                self.fail('call of cmd.Cmd.do_help inside a loop / try', s)
            if v.keywords or len(v.args) != 2 or not (isinstance(v.args[0], ast.Name) and v.args[0].id == 'self'):
                self.fail('only cmd.Cmd.do_help(self, <str>) is accepted', s)
            pre = []
            a = self.str_val(v.args[1], env, pre, ctl, 'cmd.Cmd.do_help')
            return ['-- %s  (cmd.Cmd.do_help is not translated: parameter `cmdhelp`; it returns None)' % unparse1(s)] + \
                self.wrap(pre, ['cmdhelp %s σ' % a.p()])
        return MM.MemFnTr.st_return(self, s, env, ctl)

    def st_while(self, s, env, k, ctl):
        self.loop_tail.append(trivial(k) and ctl.lc is None)
        try:
            return MM.MemFnTr.st_while(self, s, env, k, ctl)
        finally:
            self.loop_tail.pop()

    # -- try / except: MemFnTr.st_try, also INSIDE a while loop ------------------------------------
    def st_try(self, s, env, k, ctl):
        if ctl.lc is None:
            return MM.MemFnTr.st_try(self, s, env, k, ctl)
        self.need_flow(s, 'try')
        if ctl.phi:
            raise NeedCPS()
        if self.in_try:
            self.fail('try inside a try body', s)
        if s.finalbody or s.orelse:
            self.fail('try with else / finally inside a loop', s)
        st = self.unit['state']
        arms, seen = [], set()
        for h in s.handlers:
            if h.type is None or not isinstance(h.type, ast.Name) or h.type.id in env or h.type.id not in EXC_TABLE:
                self.fail('unsupported exception specification (inside a loop: one class of the table per clause)', s)
            con = EXC_TABLE[h.type.id][0]
            if con in seen:
                self.fail('exception class %s is handled twice' % con, s)
            seen.add(con)
            arms.append((h, con, h.type.id))
        # the body: an auxiliary function over the variables it reads
        self.ntry += 1
        name = '%s_try%d' % (self.fname, self.ntry)
        used = set(self.loaded(s.body))
        ps = [n for n in self.runtime_vars(env) if n in used]
        env_b = dict((n, (Bind(b.lean, b.ty) if b.lean is not None else b)) for n, b in env.items())
        asg = self.assigned(s.body)
        outs = {}

        def endk(e):
            cur = [(n, e[n].lean, e[n].ty) for n in asg if n in e and e[n].lean is not None]
            if 'v' not in outs:
                outs['v'] = cur
            elif outs['v'] != cur:
                self.fail('the paths through the try body assign different variables', s)
            if not cur:
                return ['.ok () σ']
            return ['.ok %s σ' % (cur[0][1] if len(cur) == 1 else '(%s)' % ', '.join(c[1] for c in cur))]
        endk.trivial = True
        self.in_try += 1
        try:
            body = self.block(s.body, env_b, endk, Ctl())
        finally:
            self.in_try -= 1
        ov = outs.get('v')
        if ov is None:
            self.fail('the try body never completes normally', s)
        rty = 'Unit' if not ov else ' × '.join(lean_type(t, False) for _, _, t in ov)
        decl = ' '.join([self.pdecl()] + self.fuel_decl() +
                        ['(%s : %s)' % (env[n].lean, lean_type(env[n].ty)) for n in ps] + ['(σ : %s)' % st])
        d = ['/-- the body of `try:` number %d of `%s` (inside its `while` loop); the value = the variables it assigns (%s). -/'
             % (self.ntry, self.fname, ', '.join(n for n, _, _ in ov) or 'none'),
             'def %s %s : Flow %s %s :=' % (name, decl, st, rty if len(ov) <= 1 else '(%s)' % rty)] + ind(body)
        self.aux.append('\n'.join(d))
        call = ' '.join([name, self.pnames()] + self.fuel_arg() + [env[n].lean for n in ps] + ['σ'])
        lines = ['-- try:  (body: %s)' % name, 'match %s with' % call]
        env_ok = dict(env)
        oklets = []
        for i, (n, ln, ty) in enumerate(ov):
            env_ok[n] = Bind(ln, ty)
            oklets.append(self.let(ln, ty, 'r_%s' % proj(len(ov), i)))
        lines.append('| .ok %s σ =>' % ('r_' if ov else '_'))
        lines += ind(oklets + k(env_ok))
        for h, con, cname in arms:
            env_h = dict(env)
            hn = h.name
            fields = EXC_TABLE[cname][1]
            if hn:
                if hn in env:
                    self.fail('exception name %s shadows a variable' % hn, s)
                binders = ['%s_%s' % (hn, fn) for fn, _ in fields]
                env_h[hn] = Bind(None, ('exc', con),
                                 {'payload': dict((fn, (bd, ty)) for (fn, ty), bd in zip(fields, binders))})
            else:
                binders = ['_' for _ in fields]

            def kh(e, hn=hn):
                return k(dict((n, b) for n, b in e.items() if n != hn))
            pat = '.%s' % con if not fields else '(.%s %s)' % (con, ' '.join(binders))
            lines.append('| .raise %s σ =>' % pat)
            lines += ind(['-- except %s%s:' % (cname, ' as %s' % hn if hn else '')] + self.block(h.body, env_h, kh, ctl))
        lines.append('| .raise e_ σ => .raise e_ σ')
        lines.append('| .nofuel => .nofuel')
        return lines

    # -- the function --------------------------------------------------------------------------
    def translate(self):
        fd = self.fd
        sig = self.unit['sigs'][self.fname]
        dfl = self.unit.get('defaults', {}).get(self.fname, {})
        a = fd.args
        if a.vararg or a.kwarg or a.kwonlyargs or a.posonlyargs or \
                [x.arg for x in a.args] != ['self'] + [n for n, _ in sig]:
            self.fail('signature differs from (self, %s)' % ', '.join(n for n, _ in sig), fd)
        names = [x.arg for x in a.args]
        have = dict(zip(names[len(names) - len(a.defaults):], a.defaults))
        if set(have) != set(dfl):
            self.fail('the parameters with a default are not %s' % (sorted(dfl) or 'none'), fd)
        for n, dv in have.items():
            if not (isinstance(dv, ast.Constant) and dv.value is dfl[n]):
                self.fail('the default of %s is not %r' % (n, dfl[n]), fd)
            if any(isinstance(x, ast.Name) and x.id == n for x in ast.walk(fd)):
                self.fail('parameter %s (default %r) is used in the body' % (n, dfl[n]), fd)
        if fd.decorator_list:
            self.fail('decorated method', fd)
        env = {}
        for n, t in sig:
            env[n] = Bind(self.mangle(n), t)
        st = self.unit['state']

        def endk(e):
            return ['.ok () σ']
        endk.trivial = True
        lines = self.block(fd.body, env, endk, Ctl())
        params = [self.pdecl()] + self.fuel_decl()
        params += ['(%s : %s)' % (self.mangle(n), lean_type(t)) for n, t in sig]
        params.append('(σ : %s)' % st)
        head = ['/-- `Monitor.%s` (py65/monitor.py), statement by statement. -/' % self.fname,
                'def %s %s : Flow %s Unit :=' % (self.fname, ' '.join(p for p in params if p), st)]
        return '\n\n'.join(self.aux + ['\n'.join(head + ind(lines))])


# ---------------------------------------------------------------------------------------
# the file
# ---------------------------------------------------------------------------------------

HEADER = '''/-
GENERATED by harness/py2lean_monasm.py from py65/monitor.py (class Monitor) -- do not edit.
Unit `asmc`: %s.
Shallow embedding, statement by statement (the Python statement is quoted above its translation);
loops, `try` bodies and join points are auxiliary functions `<method>_while<n> / _try<n> / _join<n>`.
Other translated code enters as parameters: `asm` = `self._assembler.assemble` (Gen/AsmGen.lean),
`iat` = `self._disassembler.instruction_at`, `fmtdis` = `self._format_disassembly` (Gen/DisasmGen.lean),
`dis` = `self.do_disassemble` (Gen/MonShowGen.lean); `cmdhelp` = `cmd.Cmd.do_help` of the standard library
(not translated).  Library / OS behaviour is the named helpers of Py65/Model/MonAsmRt.lean, MonGenRt.lean,
MonCmdRt.lean, ShowRt.lean, GenRt.lean and of the hand models (`ObsMem.setSlice` = the slice store of
py65/memory.py, C10).  Imported only by Py65/Proofs/MonAsmGenEq.lean and Py65/Props/C20a.lean.
-/
import Py65.Model.MonAsmRt

set_option linter.unusedVariables false

namespace Py65.Gen.MonAsmGen
open Py65 Py65.Model Py65.Model.PyStr Py65.Model.ObsMem Py65.Model.AddrParser Py65.Model.MonMem Py65.Model.MonGenRt
open Py65.Model.ShowRt Py65.Model.MonAsmRt
'''


def module_facts(tree, cls):
    """what the translation of `do_help` / `do_cd` relies on at module level"""
    bases = [ast.unparse(b) for b in cls.bases]
    if bases != ['cmd.Cmd'] or cls.keywords:
        raise Unsupported('class Monitor no longer derives from exactly cmd.Cmd (bases: %s)' % ', '.join(bases), cls)
    imported = {}
    for n in tree.body:
        if isinstance(n, ast.Import):
            for al in n.names:
                imported[al.asname or al.name.split('.')[0]] = al.name
        elif isinstance(n, ast.ImportFrom):
            for al in n.names:
                imported[al.asname or al.name] = '%s.%s' % (n.module, al.name)
    for nm, want in (('cmd', 'cmd'), ('os', 'os'), ('console', 'py65.utils.console')):
        if imported.get(nm) != want:
            raise Unsupported('the name `%s` is not the import of %s' % (nm, want), tree)
    for n in ast.walk(tree):
        if isinstance(n, (ast.Assign, ast.AugAssign, ast.AnnAssign, ast.For, ast.With, ast.NamedExpr)):
            tgts = n.targets if isinstance(n, ast.Assign) else [getattr(n, 'target', None)]
            for t in tgts:
                for x in ast.walk(t) if t is not None else []:
                    if isinstance(x, ast.Name) and x.id in ('cmd', 'os', 'console'):
                        raise Unsupported('the module name `%s` is rebound' % x.id, n)
        if isinstance(n, (ast.FunctionDef, ast.ClassDef)) and n.name in ('cmd', 'os', 'console'):
            raise Unsupported('the module name `%s` is rebound' % n.name, n)


def cmd_help_fact():
    """`cmd.Cmd.do_help` of the interpreter that runs the check returns None on every path"""
    import cmd as _cmd
    src = _cmd.__file__
    tree = ast.parse(open(src, 'rb').read().decode('utf-8'), filename=src)
    cls = [n for n in tree.body if isinstance(n, ast.ClassDef) and n.name == 'Cmd']
    fds = [n for n in (cls[0].body if cls else []) if isinstance(n, ast.FunctionDef) and n.name == 'do_help']
    if len(fds) != 1:
        raise Unsupported('%s: class Cmd has no single method do_help' % src)
    for n in ast.walk(fds[0]):
        if isinstance(n, ast.Return) and not (n.value is None or (isinstance(n.value, ast.Constant) and n.value.value is None)):
            raise Unsupported('%s: cmd.Cmd.do_help returns a value (line %d); the translation of Monitor.do_help '
                              'treats its result as None' % (src, n.lineno))
        if isinstance(n, (ast.Yield, ast.YieldFrom)):
            raise Unsupported('%s: cmd.Cmd.do_help is a generator' % src)
    return src


def translate_unit(tree, cls, methods):
    unit = UNIT
    module_facts(tree, cls)
    M.check_facts('asmc', unit, methods)
    for f in unit['funcs']:
        if f not in methods:
            raise Unsupported('method %s is missing' % f)
    for nm in ('do_disassemble', '_format_disassembly'):
        if nm not in methods:
            raise Unsupported('method %s (called by the translated commands) is missing' % nm)
    table = M.shortcut_table(methods)
    rows = ['(%s, %s)' % (lean_strlist(a), lean_strlist(b)) for a, b in table]
    chunks = ['/-- `self._shortcuts` as assigned by `Monitor._add_shortcuts`, in dict (insertion) order. -/\n'
              'def _shortcuts : List (Str × Str) :=\n  [' + ',\n   '.join(rows) + ']']

    def calls(fd, name):
        return any(isinstance(n, ast.Call) and path_of(n.func) == ('self', name) for n in ast.walk(fd))
    fuel = dict((f, any(isinstance(n, ast.While) for n in ast.walk(methods[f]))) for f in unit['funcs'])
    changed = True
    while changed:
        changed = False
        for f in unit['funcs']:
            if not fuel[f] and any(calls(methods[f], g) for g in unit['funcs'] if fuel[g]):
                fuel[f] = True
                changed = True
    for f in unit['funcs']:
        text = AsmFnTr('asmc', unit, methods, f, fuel, {'shortcuts': dict(table)}).translate()
        chunks.append(re.sub(r'\bFlow AsmSt\b', 'AFlow AsmSt', text))
    what = ', '.join('Monitor.' + f for f in ['_add_shortcuts'] + unit['funcs'])
    return HEADER % what + '\n' + '\n\n'.join(chunks) + '\n\nend %s\n' % unit['ns']


def main():
    ap = argparse.ArgumentParser()
    ap.add_argument('--out', required=True)
    ap.add_argument('--report', default=None)
    ap.add_argument('--source', default=None, help='monitor.py (default: $PY65_REPO/py65/monitor.py)')
    args = ap.parse_args()
    src = args.source or os.path.join(os.environ.get('PY65_REPO', '/repo'), 'py65', 'monitor.py')
    r = {'ok': False, 'file': UNIT['file'], 'functions': ['_add_shortcuts'] + UNIT['funcs']}
    report = {'ok': False, 'source': src, 'units': {'asmc': r}, 'written': []}
    rc = 0
    try:
        data = open(src, 'rb').read()
        report['source_sha256'] = hashlib.sha256(data).hexdigest()
        tree = ast.parse(data.decode('utf-8'), filename=src)
        cls, methods = M.class_methods(tree, src)
        report['cmd_source'] = cmd_help_fact()
        text = translate_unit(tree, cls, methods)
        r['ok'] = True
        os.makedirs(args.out, exist_ok=True)
        p = os.path.join(args.out, UNIT['file'])
        old = open(p).read() if os.path.exists(p) else None
        if old != text:
            with open(p, 'w') as f:
                f.write(text)
            report['written'].append(UNIT['file'])
    except Unsupported as ex:
        rc = 3
        r['error'] = report['error'] = ex.msg
        if ex.func:
            r['function'] = report['function'] = ex.func
        r['where'] = report['where'] = ('%s:%d' % (src, ex.node.lineno)) if ex.node is not None and \
            hasattr(ex.node, 'lineno') else src
        sys.stderr.write('py2lean_monasm: unit asmc unsupported: %s\n' % ex.msg)
    except (SyntaxError, OSError, UnicodeDecodeError) as ex:
        rc = 3
        r['error'] = report['error'] = str(ex)
        r['where'] = report['where'] = src
    report['ok'] = rc == 0
    if args.report:
        with open(args.report, 'w') as f:
            json.dump(report, f, indent=1)
    sys.exit(rc)


if __name__ == '__main__':
    main()
