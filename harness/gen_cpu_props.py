#!/usr/bin/env python3
"""Generate lean/Py65/Props/C01.lean and C03.lean (case analysis over the Spec table).
Static generator; output is committed and kernel-checked."""
import re
import sys

ISA = open(sys.argv[1]).read()
UNPROVED = [int(x, 16) for x in sys.argv[3].split(',') if x] if len(sys.argv) > 3 else []


def table(name):
    body = ISA.split('def %s' % name)[1].split(']')[0]
    return [(int(m.group(1), 16), m.group(2), m.group(4)) for m in
            re.finditer(r'\(0x([0-9a-f]{2}), \.(\w+)(?: (\d))?, \.(\w+)\)', body)]


NMOS = table('nmosTable')


def emit(pid, dev, W, title, extra_doc):
    L = []
    L.append('''/-
%(pid)s -- %(title)s

PROPERTY THEOREMS ONLY (helper lemmas live in Py65/Proofs).  GENERATED skeleton (harness/
gen_cpu_props.py): the case analysis over the 151 rows of `Spec.nmosTable`; every case is closed
by the per-opcode handler theorem `Py65.Proofs.H.hXX` and the translator's dispatch fact
`%(dev)s.instruct_XX`.
%(extra)s
-/
import Py65.Proofs.Handlers
import Py65.Proofs.Step

namespace Py65.Props.%(pid)s
open Py65 Py65.Gen Py65.Spec Py65.Proofs

/-- Opcodes whose handler theorem is not proved yet (the differential check still covers them).
When this list is empty `%(pid)s_partial` is the full property. -/
def unproved : List Int := [%(unp)s]

/-- The full statement of %(pid)s: for every documented opcode and every well-formed state (any
registers, flags, PC, memory contents), one `step()` of the generated model of the real device
is exactly one step of the programming model, on A X Y SP, the status flags (bits 4/5 ignored),
PC, every memory cell.  ADC/SBC: binary mode.  JSR: the two stack cells it writes are not its
own operand bytes (the only self-overwrite the proof needs to exclude). -/
def Statement : Prop :=
  ∀ (s : St), WF %(dev)s.cfg s → s.waiting = false →
  ∀ (mn : Mn) (mo : Mode), decode .nmos (s.mem s.pc) = some (mn, mo) →
  ((mn = .ADC ∨ mn = .SBC) → flag s.p bitD = false) →
  (mn = .JSR → NoSelfOverwriteJSR %(dev)s.cfg (afterFetch %(dev)s.cfg %(dev)s.tbl s)) →
  abs (%(dev)s.step s) = Spec.step %(W)d .nmos (abs s)

theorem %(pid)s_partial (s : St) (hs : WF %(dev)s.cfg s) (hw : s.waiting = false)
    (mn : Mn) (mo : Mode) (hd : decode .nmos (s.mem s.pc) = some (mn, mo))
    (hproved : s.mem s.pc ∉ unproved)
    (hdec : (mn = .ADC ∨ mn = .SBC) → flag s.p bitD = false)
    (hjsr : mn = .JSR → NoSelfOverwriteJSR %(dev)s.cfg (afterFetch %(dev)s.cfg %(dev)s.tbl s)) :
    abs (%(dev)s.step s) = Spec.step %(W)d .nmos (abs s) := by
  have hc : IsDev %(dev)s.cfg := %(isdev)s
  have hstep : %(dev)s.step s = Mpu6502.step %(dev)s.cfg %(dev)s.tbl s := by
    %(stepproof)s
  rw [hstep]
  have hm := lookup_mem hd
  simp only [nmosTable, List.mem_cons, List.mem_nil_iff, or_false, Prod.mk.injEq] at hm
  generalize hop : s.mem s.pc = op at hm hd hproved
''' % dict(pid=pid, dev=dev, W=W, title=title, extra=extra_doc,
           unp=', '.join('0x%02x' % o for o in UNPROVED),
           isdev='Or.inl rfl' if W == 8 else 'Or.inr rfl',
           stepproof='rfl' if W == 8 else 'simp only [dev65org16.step, Mpu65org16.step, hw]; rfl'))
    pats = ' | '.join('⟨rfl, rfl, rfl⟩' for _ in NMOS)
    L.append('  rcases hm with ' + pats)
    for op, mn, mo in NMOS:
        if op in UNPROVED:
            L.append('  · exact absurd (by decide) hproved')
        elif mn in ('ADC', 'SBC'):
            L.append('  · exact step_case _ hc _ .nmos s hs hw _ _ _ _ _ hop hd %s.instruct_%02x (H.h%02x _ hc .nmos) (hdec (Or.in%s rfl))'
                     % (dev, op, op, 'l' if mn == 'ADC' else 'r'))
        elif op == 0x20:
            L.append('  · exact step_case _ hc _ .nmos s hs hw _ _ _ _ _ hop hd %s.instruct_%02x (H.h20 _ hc .nmos) (hjsr rfl)'
                     % (dev, op))
        elif op in (0x00, 0x6c):
            L.append('  · exact step_case _ hc _ .nmos s hs hw _ _ _ _ (fun _ => True) hop hd %s.instruct_%02x ((H.h%02x _ hc).toP _) trivial'
                     % (dev, op, op))
        else:
            L.append('  · exact step_case _ hc _ .nmos s hs hw _ _ _ _ (fun _ => True) hop hd %s.instruct_%02x ((H.h%02x _ hc .nmos).toP _) trivial'
                     % (dev, op, op))
    L.append('')
    if not UNPROVED:
        L.append('''/-- %(pid)s in full: `unproved` is empty, so the partial theorem is the statement. -/
theorem %(pid)s_full : Statement := fun s hs hw mn mo hd hdec hjsr =>
  %(pid)s_partial s hs hw mn mo hd (by simp [unproved]) hdec hjsr
''' % dict(pid=pid))
    L.append('''/-- Non-vacuity: a concrete well-formed state executing LDA #$80 satisfies every hypothesis. -/
example : ∃ s : St, WF %(dev)s.cfg s ∧ s.waiting = false ∧
    decode .nmos (s.mem s.pc) = some (.LDA, .imm) ∧ s.mem s.pc ∉ unproved := by
  refine ⟨{ (default : St) with mem := fun k => if k = 0 then 0xa9 else 0x80 }, ?_, rfl, by decide, by decide⟩
  refine ⟨by decide, by decide, by decide, by decide, by decide, by decide, ?_⟩
  intro k; dsimp only; split <;> decide

end Py65.Props.%(pid)s
''' % dict(dev=dev, pid=pid))
    return '\n'.join(L)


out = sys.argv[2]
open(out + '/C01.lean', 'w').write(emit('C01', 'dev6502', 8,
    'NMOS 6502: every documented instruction executes per the programming model', ''))
open(out + '/C03.lean', 'w').write(emit('C03', 'dev65org16', 16,
    '65Org16: the 6502 instruction set at 16-bit bytes and 32-bit addresses',
    'The same handler theorems as C01, instantiated at the 16-bit configuration: every helper lemma is\n'
    'proved for both widths, so an 8-bit literal slipped into shared code breaks the W=16 case.'))
