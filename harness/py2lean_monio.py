#!/usr/bin/env python3
"""py2lean_monio.py -- translator (tie 1) for the character-I/O set-up of py65/monitor.py (C18).

    py2lean_monio.py --out lean/Py65/Gen --report r.json [--units io,con]

Two independent units (a refusal in one does not touch the file of the other):

  con  Py65/Gen/ConsoleGen.lean  from py65/utils/console.py: `getch_noblock` of the POSIX branch (the `else:`
       of `if sys.platform[:3] == 'win':`) and from py65/compat.py: `as_string` of the Python-3 branch
       (the `else:` of `if PY2:`).  `select([stdin], [], [], t)`, `stdin.read(n)`, `bytes.decode(codec)` are
       the OS / library helpers `osSelect`, `osRead`, `pyDecode`; the codec name given to `as_string` must be
       a LITERAL among KNOWN_CODECS ('latin-1', 'utf-8': both have a run-time model, so 'utf-8' is
       translated and then fails the equality proof); `isinstance(s, str)` narrows the value `read`
       returned; exceptions out of the OS calls have a class only known at run time and are matched
       against the handlers in order (`except KeyboardInterrupt: raise`, bare `except: pass`);
       `if a and <raising b>:` is nested; `noncanonical_mode(stdin)` is skipped by name after checking that
       it is one `try: ... except: pass`.
  io   Py65/Gen/MonIOGen.lean    from py65/monitor.py, see below.

Unit `io` parses `$PY65_REPO/py65/monitor.py` with `ast` and emits `Py65/Gen/MonIOGen.lean`, a
shallow embedding that follows the Python statement by statement, of

    Monitor.Microprocessors            the class-level table name -> device class (via the imports)
    Monitor._get_mpu                   (pure)
    Monitor._install_mpu_observers     with its closures `putc(address, value)` / `getc(address)`
                                       (one Lean definition each + the dispatcher `call` that says
                                       how `callback(address)` / `callback(address, value)` reach them)
    Monitor._reset, do_reset, do_mpu   (+ the nested `available_mpus`)
    Monitor._parse_args                (getopt itself is the uninterpreted `Env.getopt`)
    Monitor.__init__                   the slice that sets mpu_type / memory / putc_addr / getc_addr,
                                       parses the arguments and calls `_reset`; the bookkeeping of
                                       other units is skipped BY EXACT STATEMENT TEXT (INIT_SKIP), the
                                       start-up actions `-l / -g / -r` after `_reset` are uninterpreted
                                       state transformers `Env.startup k` guarded by the translated
                                       `if x is not None:`

It reuses the machinery of `py2lean_mon.py` (class `FnTr`: continuation-passing translation of
if / for / try with static exception resolution, phi-`let`s, `%`-templates) and adds what this unit
needs; the run-time vocabulary is `lean/Py65/Model/MonIORt.lean`.  Deterministic; comments,
docstrings and layout never matter; Lean binders carry the Python names.

Additions to the accepted subset of py2lean_mon.py (anything else -> exit 3 and a JSON report):
  functions    default values of parameters (emitted as `<f>.default_<param>`, used when a call
               omits the argument), value-returning methods (`return a, b, c`), one pure method
               among state-passing ones, nested `def`s: callbacks (parameters are ints, result
               `None` or an int; identified by their position) and parameterless procedures
  statements   `x = None` later assigned a T (typed Option T by a retry), `l.sort()`,
               `m.subscribe_to_write/_read([self.a], closure)`, `self.stdout.write(s)`,
               `self.stdout.flush()`, `self._usage()`, `self._exit(n)`, `sys.exit(n)`,
               `a, b = getopt.getopt(...)`, `a, b, c = self.f(...)`,
               `try ... except getopt.GetoptError as exc` (+ `exc.args[0]`),
               `try ... except: console.restore_mode(); raise` (transparent),
               `self.x = Ctor(...)` for the constructors of CTORS (objects get a fresh identity)
  expressions  `int(s, 16)`, `chr`, `ord`, `sorted`, `list`, `s.lower()`, `sep.join(l)`,
               `self.Microprocessors.keys() / .items()`, `self._get_mpu(x)`, `self._mpu.__class__`,
               `mpu_type(memory=self.memory)`, `console.getch_noblock(self.stdin)`, `sys.argv`,
               truth value of an Optional int / str (None, 0 and '' are false)
Facts the translation relies on are checked (imports, `_output` / `_exit` / `_usage` bodies, where
the attributes are assigned, where `_reset` / `_install_mpu_observers` / `_parse_args` are called).
"""
import argparse
import ast
import hashlib
import json
import os
import sys

HERE = os.path.dirname(os.path.abspath(__file__))
if HERE not in sys.path:
    sys.path.insert(0, HERE)
import py2lean_mon as M  # noqa: E402
from py2lean_mon import (Unsupported, NeedCPS, Val, Bind, Ctl, Handler, INT, BOOL, PROP, STR, CHAR, UNIT,  # noqa: E402,F401
                         NONE, tlist, topt, ttuple, lean_str, lean_strlist, ind, proj, unparse1, path_of)

# ---------------------------------------------------------------------------------------
# types of this unit
# ---------------------------------------------------------------------------------------

CLS, OMT, CELLS, MPUOBJ, MEMOBJ, PARSEROBJ, TOOLOBJ = 'cls', 'om', 'cells', 'mpuobj', 'memobj', 'parserobj', 'toolobj'
PYVAL, BYTES = 'pyval', 'bytes'      # unit `con`: what stdin.read() returns; a bytes object (its byte values)
EXTRA_TYPES = {CLS: 'MpuCls', OMT: 'OM', MPUOBJ: 'MpuObj', MEMOBJ: 'MemObj', PARSEROBJ: 'ParserObj',
               TOOLOBJ: 'ToolObj', PYVAL: 'PyVal'}
_base_lean_type = M.lean_type


def lean_type(t, top=True):
    if t in EXTRA_TYPES:
        return EXTRA_TYPES[t]
    if t == CELLS:
        return 'Int → Int' if top else '(Int → Int)'
    if t == BYTES:
        return 'List Int' if top else '(List Int)'
    if isinstance(t, tuple) and t[0] in ('list', 'opt', 'tuple'):
        if t[0] == 'list':
            s = 'List %s' % lean_type(t[1], False)
        elif t[0] == 'opt':
            s = 'Option %s' % lean_type(t[1], False)
        else:
            if not t[1]:
                return 'Unit'
            s = ' × '.join(lean_type(x, False) for x in t[1])
        return s if top else '(%s)' % s
    return _base_lean_type(t, top)


M.lean_type = lean_type          # FnTr's methods look the function up in their module

CP = tlist(INT)                  # a Python string given by its code points (chr / ord / getch / write)
OPTS = tlist(ttuple([STR, STR]))
TABLE = tlist(ttuple([STR, CLS]))
PARSED = ttuple([topt(STR), topt(STR), topt(STR)])

# the modules monitor.py must import its collaborators from
DEVICE_MODULES = {'py65.devices.mpu6502': 'mpu6502', 'py65.devices.mpu65c02': 'mpu65c02',
                  'py65.devices.mpu65org16': 'mpu65org16'}
IMPORT_FACTS = {'AddressParser': ('py65.utils.addressing', 'AddressParser'),
                'Disassembler': ('py65.disassembler', 'Disassembler'),
                'Assembler': ('py65.assembler', 'Assembler'),
                'ObservableMemory': ('py65.memory', 'ObservableMemory'),
                'console': ('py65.utils', 'console')}
PLAIN_IMPORTS = ('getopt', 'sys', 'cmd')

OUTPUT_BODY = M.OUTPUT_BODY
EXIT_BODY = 'sys.exit(exitcode)'
USAGE_BODY = ['usage = __doc__ % sys.argv[0]', 'self._output(usage)']

# __init__: statements outside the modelled state, skipped by their exact (unparsed) text
INIT_SKIP = [
    'self._breakpoints = []',
    'self._width = 78',
    "self.prompt = '.'",
    'self._add_shortcuts()',
    'console.save_mode(sys.stdin)',
    'self.unbuffered_stdin = console.get_unbuffered_stdin(stdin)',
    'cmd.Cmd.__init__(self, stdin=self.unbuffered_stdin, stdout=stdout)',
]
STARTUP_CALLS = ('do_load', 'do_goto')

# where an attribute may be assigned / a method may be called (the theorems about `reset` / `mpu`
# sequences rely on nothing else touching the mapping)
STORE_SITES = {
    'putc_addr': ('__init__', '_parse_args'), 'getc_addr': ('__init__', '_parse_args'),
    'mpu_type': ('__init__', '_parse_args'), 'memory': ('__init__',), '_mpu': ('_reset',),
    'addrWidth': ('_reset',), 'byteWidth': ('_reset',), 'addrFmt': ('_reset',), 'byteFmt': ('_reset',),
    'addrMask': ('_reset',), 'byteMask': ('_reset',), '_address_parser': ('_reset',),
    '_disassembler': ('_reset',), '_assembler': ('_reset',), 'Microprocessors': (),
    'stdout': (), 'stdin': (),
}
REGISTERS_SETATTR = 'setattr(self._mpu, register, intval)'
REGISTERS_GUARD = "if register not in ('pc', 'sp', 'a', 'x', 'y', 'p'):"
CALL_SITES = {'_reset': ('__init__', 'do_reset', 'do_mpu'), '_install_mpu_observers': ('_reset',),
              '_parse_args': ('__init__',)}

IO_UNIT = dict(
    name='io', file='MonIOGen.lean', ns='Py65.Gen.MonIOGen', mode='flow', state='IoSt',
    params=[('E', 'Env')],
    funcs=['_get_mpu', '_install_mpu_observers', '_reset', 'do_reset', 'do_mpu', '_parse_args', '__init__'],
    pure=['_get_mpu'],
    # (name, type); a type of None = the parameter is outside the modelled state (dropped)
    sigs={
        '_get_mpu': [('name', STR)],
        '_install_mpu_observers': [('getc_addr', topt(INT)), ('putc_addr', topt(INT))],
        '_reset': [('mpu_type', CLS), ('getc_addr', topt(INT)), ('putc_addr', topt(INT))],
        'do_reset': [('args', STR)],
        'do_mpu': [('args', STR)],
        '_parse_args': [('argv', tlist(STR))],
        '__init__': [('argv', topt(tlist(STR))), ('stdin', None), ('stdout', None), ('mpu_type', CLS),
                     ('memory', topt(CELLS)), ('putc_addr', topt(INT)), ('getc_addr', topt(INT))],
    },
    rets={'_get_mpu': topt(CLS), '_parse_args': PARSED},
    attrs={
        ('self', 'mpu_type'): ('field', ('mpu_type',), CLS),
        ('self', 'memory'): ('field', ('memory',), topt(CELLS)),
        ('self', 'putc_addr'): ('field', ('putc_addr',), topt(INT)),
        ('self', 'getc_addr'): ('field', ('getc_addr',), topt(INT)),
        ('self', '_mpu'): ('field', ('_mpu',), MPUOBJ),
        ('self', '_mpu', 'memory'): ('field', ('_mpu', 'memory'), MEMOBJ),
        ('self', '_mpu', '__class__'): ('cfg', 'σ._mpu.cls', CLS),
        ('self', '_mpu', 'name'): ('cfg', 'σ._mpu.cls.name', STR),
        ('self', '_mpu', 'ADDR_WIDTH'): ('cfg', 'σ._mpu.cls.ADDR_WIDTH', INT),
        ('self', '_mpu', 'BYTE_WIDTH'): ('cfg', 'σ._mpu.cls.BYTE_WIDTH', INT),
        ('self', '_mpu', 'ADDR_FORMAT'): ('cfg', 'σ._mpu.cls.ADDR_FORMAT', STR),
        ('self', '_mpu', 'BYTE_FORMAT'): ('cfg', 'σ._mpu.cls.BYTE_FORMAT', STR),
        ('self', '_mpu', 'addrMask'): ('cfg', 'σ._mpu.cls.addrMask', INT),
        ('self', '_mpu', 'byteMask'): ('cfg', 'σ._mpu.cls.byteMask', INT),
        ('self', 'addrWidth'): ('field', ('addrWidth',), INT),
        ('self', 'byteWidth'): ('field', ('byteWidth',), INT),
        ('self', 'addrFmt'): ('field', ('addrFmt',), STR),
        ('self', 'byteFmt'): ('field', ('byteFmt',), STR),
        ('self', 'addrMask'): ('field', ('addrMask',), INT),
        ('self', 'byteMask'): ('field', ('byteMask',), INT),
        ('self', '_address_parser'): ('field', ('_address_parser',), PARSEROBJ),
        ('self', '_disassembler'): ('field', ('_disassembler',), TOOLOBJ),
        ('self', '_assembler'): ('field', ('_assembler',), TOOLOBJ),
        ('self', 'stdin'): ('obj', 'stdin'),
        ('self', 'stdout'): ('obj', 'stdout'),
        ('self', 'Microprocessors'): ('obj', 'mputable'),
        ('sys', 'argv'): ('cfg', 'E.sys_argv', tlist(STR)),
    },
    reset_facts=[], init_facts=[], uses_output=True,
)
# unit `con`: py65/utils/console.py getch_noblock (POSIX branch) + py65/compat.py as_string (Python-3 branch)
CON_UNIT = dict(
    name='con', file='ConsoleGen.lean', ns='Py65.Gen.ConsoleGen', mode='flow', state='ConSt',
    params=[('F', 'ConEnv')],
    funcs=['as_string', 'getch_noblock'], pure=[],
    sigs={'as_string': [('s', PYVAL), ('encoding', STR)], 'getch_noblock': [('stdin', None)]},
    rets={'as_string': tlist(INT), 'getch_noblock': tlist(INT)},
    attrs={}, reset_facts=[], init_facts=[], uses_output=False,
)
# codec name literals the run-time model `pyDecode` knows; any other literal is refused
KNOWN_CODECS = ('latin-1', 'utf-8')
EXC_NULLARY = ('IndexError', 'TypeError', 'ValueError', 'KeyError', 'AttributeError', 'UnicodeEncodeError',
               'KeyboardInterrupt', 'UnicodeDecodeError', 'LookupError', 'OSError')
API_NAMES = True     # parameter names of the methods are part of their interface (keyword callers)


class Retype(Exception):
    """internal: a variable initialised with None is later assigned a T: retry with Option T"""

    def __init__(self, name, ty):
        Exception.__init__(self, name)
        self.name, self.ty = name, ty


class Ctl2(Ctl):
    """control context that also knows the exception being handled (`cur`: its Lean text)"""

    def __init__(self, hs=(), lc=None, phi=False, cur=None):
        Ctl.__init__(self, hs, lc, phi)
        self.cur = cur

    def with_(self, **kw):
        c = Ctl2(self.hs, self.lc, self.phi, self.cur)
        for a, b in kw.items():
            setattr(c, a, b)
        return c


def with_cur(ctl, cur):
    c = Ctl2(ctl.hs, ctl.lc, ctl.phi, cur)
    return c


class AsHandler(Handler):
    def __init__(self, names, body, after, ctl, asname=None):
        Handler.__init__(self, names, body, after, ctl)
        self.asname = asname


def is_opt(t):
    return isinstance(t, tuple) and t[0] == 'opt'


def is_list(t):
    return isinstance(t, tuple) and t[0] == 'list'


# ---------------------------------------------------------------------------------------
# one function (method, closure or nested procedure)
# ---------------------------------------------------------------------------------------

class IoTr(M.FnTr):
    def __init__(self, unit, info, methods, fname, fd, sig, ret, pure, hints, kind='method'):
        self.info = info                 # module facts: class aliases, the Microprocessors table
        self.sig, self.ret, self.kind, self.hints = sig, ret, kind, hints
        ms = dict(methods)
        ms[fname] = fd
        fuel = dict((f, False) for f in list(unit['funcs']) + [fname])
        M.FnTr.__init__(self, unit['name'], unit, ms, fname, fuel, {})
        self.mode = 'pure' if pure else 'flow'
        self.con = unit['name'] == 'con'
        self.closures = []               # (python name, lean name, nparams) of the callbacks, by identity
        self.startup_ids = {}            # start-up action (by statement) -> its number

    # -- small helpers -------------------------------------------------------------------
    def alloc(self, pre, lean_ty, text):
        """bind a freshly created object that needs an identity; the allocation counter moves on"""
        t = self.temp()
        st = self.unit['state']

        def w(lines):
            return ['let %s : %s := %s σ.nextId' % (t, lean_ty, text),
                    'let σ : %s := { σ with nextId := σ.nextId + 1 }' % st] + lines
        pre.append(w)
        return t

    def raise_lines(self, exc, env, ctl, node, excval=None):
        """`raise exc` here: the statically matching handler, else leave.  `exc` may carry an
        argument (SystemExit code / GetoptError message: `excval` = its Lean text)."""
        self.need_flow(node, 'a construct that can raise %s' % exc)
        if ctl.phi:
            raise NeedCPS()
        for h in ctl.hs:
            catches = exc in h.names or None in h.names or 'BaseException' in h.names or \
                ('Exception' in h.names and exc != 'SystemExit')
            if catches:
                e2 = env
                if getattr(h, 'asname', None):
                    e2 = dict(env)
                    e2[h.asname] = Bind(excval, ('exc', exc), {})
                cur = '(.%s %s)' % (exc, excval) if excval is not None else '.%s' % exc
                return self.block(h.body, e2, h.after, with_cur(h.ctl, cur))
        if excval is not None:
            return ['.raise (.%s %s) σ' % (exc, excval)]
        return ['.raise .%s σ' % exc]

    def dyn_raise(self, evar, env, ctl, node):
        """an exception whose class is only known at run time (Lean variable `evar`) is raised here:
        the enclosing handlers are tried in order, by comparing `evar` with their classes"""
        self.need_flow(node, 'a construct that can raise')
        if ctl.phi:
            raise NeedCPS()

        def go(hs):
            if not hs:
                return ['.raise %s σ' % evar]
            h = hs[0]
            if getattr(h, 'asname', None):
                self.fail('`except ... as name` for an exception whose class is only known at run time', node)
            if None in h.names or 'BaseException' in h.names:
                return self.block(h.body, env, h.after, with_cur(h.ctl, evar))
            for n in h.names:
                if n not in EXC_NULLARY:
                    self.fail('handler for %s: not a class the run-time model can compare with' % n, node)
            cond = ' ∨ '.join('%s = .%s' % (evar, n) for n in h.names)
            return ['if %s then' % cond] + ind(self.block(h.body, env, h.after, with_cur(h.ctl, evar))) + \
                ['else'] + ind(go(hs[1:]))
        return go(list(ctl.hs))

    def coerce(self, v, ty, node):
        if v.ty == ty:
            return v
        if ty == MEMOBJ and v.ty == OMT:
            return Val('.obs %s' % v.p(), MEMOBJ)
        if ty == CP and v.ty == STR and 'const' in v.static:
            return Val('[%s]' % ', '.join(str(ord(c)) for c in v.static['const']), CP, True)
        if is_opt(ty) and v.ty == ty[1] and v.text is not None:
            return Val('some %s' % v.p(), ty)
        if ty == STR and v.ty == CP and 'const' in v.static:
            c = v.static['const']
            return Val(lean_strlist(c), STR, True, const=c, template=[('lit', c)])
        return M.FnTr.coerce(self, v, ty, node)

    def truthy(self, v, node):
        if is_opt(v.ty):
            inner = v.ty[1]
            if inner == INT:
                return '%s ≠ none ∧ %s ≠ some 0' % (v.p(), v.p())
            if inner == STR or is_list(inner):
                return '%s ≠ none ∧ %s ≠ some []' % (v.p(), v.p())
            if inner in (CLS, MPUOBJ) or v.ty == M.MATCH:
                return '%s ≠ none' % v.p()
            self.fail('truth value of an Optional %s' % (inner,), node)
        return M.FnTr.truthy(self, v, node)

    def narrowing(self, test, env):
        r = M.FnTr.narrowing(self, test, env)
        if r is None:
            return None
        # `if x:` / `if not x:` only narrows when every non-None value is true
        plain = isinstance(test, ast.Name) or (isinstance(test, ast.UnaryOp) and isinstance(test.op, ast.Not))
        if plain:
            inner = env[r[0]].ty[1]
            if not (inner in (CLS, MPUOBJ) or env[r[0]].ty == M.MATCH):
                return None
        return r

    # -- expressions ---------------------------------------------------------------------
    def ex(self, node, env, pre, ctl):
        if self.con and isinstance(node, ast.Constant) and isinstance(node.value, str):
            for ch in node.value:
                if ord(ch) > 126:
                    self.fail('non-ASCII character in a string constant', node)
            return Val('([%s] : List Int)' % ', '.join(str(ord(c)) for c in node.value), CP, True, const=node.value)
        if isinstance(node, ast.Name) and node.id not in env and node.id in self.info['classes']:
            return Val('MpuCls.%s' % self.info['classes'][node.id], CLS, True)
        if isinstance(node, ast.Name) and node.id in env and 'closure' in env[node.id].static:
            b = env[node.id]
            return Val(None, ('closure',), True, **b.static)
        return M.FnTr.ex(self, node, env, pre, ctl)

    def attr_val(self, p, node, env):
        a = self.unit['attrs'].get(p)
        if a is not None and a[0] == 'obj' and a[1] == 'mputable':
            return Val('Microprocessors', TABLE, True)
        return M.FnTr.attr_val(self, p, node, env)

    def subscript(self, node, env, pre, ctl):
        # exc.args[0] of a `GetoptError as exc`: the message
        v = node.value
        if isinstance(v, ast.Attribute) and v.attr == 'args' and isinstance(v.value, ast.Name) \
                and v.value.id in env and isinstance(env[v.value.id].ty, tuple) and env[v.value.id].ty[0] == 'exc':
            if env[v.value.id].ty[1] != 'GetoptError' or not (isinstance(node.slice, ast.Constant) and node.slice.value == 0):
                self.fail('only `.args[0]` of a GetoptError is modelled', node)
            return Val(env[v.value.id].lean, STR, True)
        return M.FnTr.subscript(self, node, env, pre, ctl)

    def compare(self, node, env, pre, ctl):
        # a one-character string read from the terminal (code points) compared with a string constant
        if len(node.ops) == 1 and isinstance(node.ops[0], (ast.Eq, ast.NotEq)) and \
                isinstance(node.comparators[0], ast.List) and not node.comparators[0].elts:
            l = self.ex(node.left, env, pre, ctl)
            if not is_list(l.ty) or l.text is None:
                self.fail('comparison of a %s with []' % (l.ty,), node)
            return Val('%s %s []' % (l.p(), '=' if isinstance(node.ops[0], ast.Eq) else '≠'), PROP)
        if len(node.ops) == 1 and isinstance(node.ops[0], (ast.Eq, ast.NotEq)):
            scratch = []
            l = self.ex(node.left, env, scratch, ctl)
            r = self.ex(node.comparators[0], env, scratch, ctl)
            if CP in (l.ty, r.ty) and STR in (l.ty, r.ty) and not scratch:
                l, r = self.coerce(l, CP, node), self.coerce(r, CP, node)
                return Val('%s %s %s' % (l.p(), '=' if isinstance(node.ops[0], ast.Eq) else '≠', r.p()), PROP)
        return M.FnTr.compare(self, node, env, pre, ctl)

    def str_arg(self, node, env, pre, ctl, what):
        a = self.ex(node, env, pre, ctl)
        if a.ty != STR or a.text is None:
            self.fail('%s of a %s' % (what, a.ty), node)
        return a

    def con_call(self, node, env, pre, ctl):
        """unit con: select(...), stdin.read(1), as_string(...), <bytes>.decode(...); None = not one of them"""
        f = node.func
        st = self.unit['state']
        stdin = self.unit['sigs']['getch_noblock'][0][0]

        def bind_except(call, ty, state=False):
            self.need_flow(node, 'a call that can raise')
            if ctl.phi:
                raise NeedCPS()
            t = self.temp()
            rl = self.dyn_raise('e_', env, ctl, node)

            def w(lines):
                upd = ['let σ : %s := %s.2' % (st, t)] if state else []
                return ['match %s with' % call, '| .error e_ =>'] + ind(rl) + ['| .ok %s =>' % t] + ind(upd + lines)
            pre.append(w)
            return Val('%s.1' % t if state else t, ty, True)
        if isinstance(f, ast.Name) and f.id == 'select' and f.id not in env and self.fname == 'getch_noblock':
            a = node.args
            ok = len(a) == 4 and not node.keywords and isinstance(a[0], ast.List) and len(a[0].elts) == 1 \
                and isinstance(a[0].elts[0], ast.Name) and a[0].elts[0].id == stdin \
                and all(isinstance(x, ast.List) and not x.elts for x in a[1:3]) \
                and isinstance(a[3], ast.Constant) and isinstance(a[3].value, (int, float)) \
                and not isinstance(a[3].value, bool)
            if not ok:
                self.fail('select is called as select([%s], [], [], <timeout>) only' % stdin, node)
            return bind_except('osSelect %s σ' % self.pnames(), ttuple([tlist(UNIT)] * 3))
        if isinstance(f, ast.Attribute) and isinstance(f.value, ast.Name) and f.value.id == stdin \
                and f.value.id not in env and f.attr == 'read' and self.fname == 'getch_noblock':
            self.args_plain(node, 1, 'stdin.read')
            n = node.args[0]
            if not (isinstance(n, ast.Constant) and isinstance(n.value, int) and not isinstance(n.value, bool)):
                self.fail('stdin.read(n) with n not an integer constant', node)
            return bind_except('osRead %s σ %d' % (self.pnames(), n.value), PYVAL, state=True)
        if isinstance(f, ast.Name) and f.id == 'as_string' and f.id not in env and self.fname != 'as_string':
            if node.keywords or not 1 <= len(node.args) <= 2:
                self.fail('as_string(s[, encoding]) with positional arguments only', node)
            a = self.ex(node.args[0], env, pre, ctl)
            if a.ty != PYVAL:
                self.fail('as_string of a %s' % (a.ty,), node)
            if len(node.args) == 2:
                e = node.args[1]
                if not (isinstance(e, ast.Constant) and isinstance(e.value, str)):
                    self.fail('the codec name given to as_string must be a string literal', node)
                if e.value not in KNOWN_CODECS:
                    self.fail('codec %r is not one the run-time model knows (%s)' % (e.value, ', '.join(KNOWN_CODECS)), node)
                enc = lean_strlist(e.value)
            else:
                enc = 'as_string.default_encoding'
            self.need_flow(node, 'a call that can raise')
            if ctl.phi:
                raise NeedCPS()
            t = self.temp()
            rl = self.dyn_raise('e_', env, ctl, node)

            def w(lines, t=t, rl=rl):
                return ['match as_string %s %s %s σ with' % (self.pnames(), a.p(), enc), '| .ok %s σ =>' % t] + ind(lines) + \
                    ['| .raise e_ σ =>'] + ind(rl) + ['| .nofuel => .nofuel']
            pre.append(w)
            return Val(t, CP, True)
        if isinstance(f, ast.Attribute) and f.attr == 'decode':
            recv = self.ex(f.value, env, pre, ctl)
            if recv.ty != BYTES:
                self.fail('.decode() of a %s' % (recv.ty,), node)
            self.args_plain(node, 1, 'bytes.decode')
            e = self.coerce(self.ex(node.args[0], env, pre, ctl), STR, node)
            if 'const' in e.static and e.static['const'] not in KNOWN_CODECS:
                self.fail('codec %r is not one the run-time model knows' % e.static['const'], node)
            return bind_except('pyDecode %s %s' % (recv.p(), e.p()), CP)
        return None

    def call_expr(self, node, env, pre, ctl):
        f = node.func
        st = self.unit['state']
        if self.con:
            v = self.con_call(node, env, pre, ctl)
            if v is not None:
                return v
        if isinstance(f, ast.Name) and f.id in env:
            b = env[f.id]
            if b.ty == CLS:
                # mpu_type(memory=self.memory): the device constructor
                if node.args or [k.arg for k in node.keywords] != ['memory']:
                    self.fail('a device class is called as `cls(memory=...)` only', node)
                mem = self.coerce(self.ex(node.keywords[0].value, env, pre, ctl), topt(CELLS), node)
                self.need_flow(node, 'an object creation')
                t = self.alloc(pre, 'MpuObj', 'mpuNew %s %s' % (b.lean, mem.p()))
                return Val(t, MPUOBJ, True)
            self.fail('call of the local %s in an expression' % f.id, node)
        if isinstance(f, ast.Name):
            if f.id == 'int' and len(node.args) == 2 and not node.keywords:
                a = self.str_arg(node.args[0], env, pre, ctl, 'int()')
                bs = node.args[1]
                if not (isinstance(bs, ast.Constant) and isinstance(bs.value, int) and not isinstance(bs.value, bool)
                        and 2 <= bs.value <= 36):
                    self.fail('int(s, base) with a base that is not a constant 2..36', node)
                return self.opt_bind('pyIntL %s %d' % (a.p(), bs.value), 'ValueError', INT, env, pre, ctl, node)
            if f.id == 'chr':
                self.args_plain(node, 1, 'chr')
                a = self.ex(node.args[0], env, pre, ctl)
                if a.ty != INT:
                    self.fail('chr() of a %s' % (a.ty,), node)
                return self.opt_bind('pyChr %s' % a.p(), 'ValueError', CP, env, pre, ctl, node)
            if f.id == 'ord':
                self.args_plain(node, 1, 'ord')
                a = self.ex(node.args[0], env, pre, ctl)
                if a.ty != CP:
                    self.fail('ord() of a %s' % (a.ty,), node)
                return self.opt_bind('pyOrd %s' % a.p(), 'TypeError', INT, env, pre, ctl, node)
            if f.id in ('sorted', 'list'):
                self.args_plain(node, 1, f.id)
                a = self.ex(node.args[0], env, pre, ctl)
                if f.id == 'sorted' and a.ty != tlist(STR):
                    self.fail('sorted() of a %s' % (a.ty,), node)
                if not is_list(a.ty) or a.text is None:
                    self.fail('%s() of a %s' % (f.id, a.ty), node)
                return Val('%s %s' % ('pySorted' if f.id == 'sorted' else 'pyList', a.p()), a.ty)
            if f.id in CTORS:
                return self.ctor(node, env, pre, ctl)
        if isinstance(f, ast.Attribute):
            p = self.resolve_path(f, env)
            if p == ('self', '_get_mpu'):
                self.args_plain(node, 1, '_get_mpu')
                a = self.str_arg(node.args[0], env, pre, ctl, '_get_mpu()')
                return Val('_get_mpu %s %s' % (self.pnames(), a.p()), topt(CLS))
            if p == ('console', 'getch_noblock'):
                self.args_plain(node, 1, 'getch_noblock')
                ap = self.resolve_path(node.args[0], env)
                if ap != ('self', 'stdin'):
                    self.fail('getch_noblock of something other than self.stdin', node)
                self.need_flow(node, 'a read of the terminal')
                t = self.temp()

                def w(lines, t=t):
                    return ['let %s : List Int × List Int := getchNoblock σ.stdin' % t,
                            'let σ : %s := { σ with stdin := %s.2 }' % (st, t)] + lines
                pre.append(w)
                return Val('%s.1' % t, CP, True)
            if p == ('getopt', 'getopt'):
                self.args_plain(node, 3, 'getopt.getopt')
                a = self.ex(node.args[0], env, pre, ctl)
                b = self.str_arg(node.args[1], env, pre, ctl, 'getopt shortopts')
                c = self.ex(node.args[2], env, pre, ctl)
                if a.ty != tlist(STR) or c.ty != tlist(STR):
                    self.fail('getopt.getopt(args, shortopts, longopts) with other types', node)
                self.need_flow(node, 'getopt')
                if ctl.phi:
                    raise NeedCPS()
                t, msg = self.temp(), self.temp()
                rl = self.raise_lines('GetoptError', env, ctl, node, excval=msg)

                def w(lines, t=t, msg=msg, rl=rl):
                    return ['match E.getopt %s %s %s with' % (a.p(), b.p(), c.p()), '| .error %s =>' % msg] + ind(rl) + \
                        ['| .ok %s =>' % t] + ind(lines)
                pre.append(w)
                return Val(t, ttuple([OPTS, tlist(STR)]), True)
            if p is not None and len(p) == 3 and p[:2] == ('self', 'Microprocessors') and p[2] in ('keys', 'items'):
                self.args_plain(node, 0, p[2])
                if p[2] == 'items':
                    return Val('Microprocessors', TABLE, True)
                return Val('pyKeys Microprocessors', tlist(STR))
            if p is None or (p[0] in env and env[p[0]].lean is not None):
                # method of a computed value / of a local
                if f.attr == 'lower':
                    self.args_plain(node, 0, 'str.lower')
                    recv = self.str_arg(f.value, env, pre, ctl, '.lower()')
                    return Val('pyLower %s' % recv.p(), STR)
                if f.attr == 'join':
                    self.args_plain(node, 1, 'str.join')
                    recv = self.str_arg(f.value, env, pre, ctl, '.join()')
                    a = self.ex(node.args[0], env, pre, ctl)
                    if a.ty != tlist(STR) or a.text is None:
                        self.fail('join of a %s' % (a.ty,), node)
                    return Val('pyJoin %s %s' % (recv.p(), a.p()), STR)
        return M.FnTr.call_expr(self, node, env, pre, ctl)

    def ctor(self, node, env, pre, ctl):
        name = node.func.id
        spec = CTORS[name]
        self.need_flow(node, 'an object creation')
        if spec['kw']:
            if node.args or [k.arg for k in node.keywords] != [k for k, _ in spec['kw']]:
                self.fail('%s is called as %s(%s) only' % (name, name, ', '.join('%s=...' % k for k, _ in spec['kw'])), node)
            given = [k.value for k in node.keywords]
            tys = [t for _, t in spec['kw']]
        else:
            if node.keywords or len(node.args) != len(spec['pos']):
                self.fail('%s takes %d positional arguments' % (name, len(spec['pos'])), node)
            given, tys = node.args, spec['pos']
        args = [self.coerce(self.ex(g, env, pre, ctl), t, node).p() for g, t in zip(given, tys)]
        text = ' '.join([spec['helper']] + args)
        if spec['id']:
            return Val(self.alloc(pre, lean_type(spec['ty']), text), spec['ty'], True)
        return Val(text, spec['ty'])

    # -- statements ----------------------------------------------------------------------
    def bind_name(self, env, name, v, node):
        b = env.get(name)
        if name in self.hints:
            v = self.coerce(v, self.hints[name], node)
        elif b is not None and b.ty == NONE and v.ty != NONE and v.text is not None and b.lean is not None:
            raise Retype(name, topt(v.ty))
        if 'closure' in v.static:
            self.fail('a closure is bound to another name', node)
        return M.FnTr.bind_name(self, env, name, v, node)

    def block(self, stmts, env, k, ctl):
        if stmts:
            s, rest = stmts[0], stmts[1:]
            if isinstance(s, ast.FunctionDef):
                return self.st_nested(s, env, lambda e: self.block(rest, e, k, ctl), ctl)
            if self.fname == '__init__' and ast.unparse(s) in INIT_SKIP:
                return ['-- %s  (outside the modelled state: skipped by its exact text)' % unparse1(s)] + \
                    self.block(rest, env, k, ctl)
            if isinstance(s, ast.Raise):
                if s.exc is None and s.cause is None and getattr(ctl, 'cur', None) and not ctl.phi:
                    return ['-- raise  (the exception being handled)', '.raise %s σ' % ctl.cur]
                if ctl.phi:
                    raise NeedCPS()
                self.fail('a raise statement (only a bare `raise` inside a handler is accepted)', s)
            if self.con and isinstance(s, ast.Expr) and isinstance(s.value, ast.Call) \
                    and isinstance(s.value.func, ast.Name) and s.value.func.id == 'noncanonical_mode' \
                    and 'noncanonical_mode' not in env:
                return ['-- %s  (termios mode switching; swallows every error: no effect on the modelled state, '
                        'skipped by name)' % unparse1(s)] + self.block(rest, env, k, ctl)
        return M.FnTr.block(self, stmts, env, k, ctl)

    def st_nested(self, s, env, k, ctl):
        if ctl.phi or ctl.lc is not None or ctl.hs or self.kind != 'method':
            self.fail('a nested def inside a branch, loop, try or another nested def', s)
        if s.name in env or s.name in [c[0] for c in self.closures]:
            self.fail('nested def %s shadows a name' % s.name, s)
        a = s.args
        if a.vararg or a.kwarg or a.kwonlyargs or a.posonlyargs or a.defaults or s.decorator_list:
            self.fail('nested def %s: only plain positional parameters' % s.name, s)
        # how is it used?  passed to subscribe_to_* (callback) or called (procedure)
        called = passed = False
        for n in ast.walk(self.fd):
            if isinstance(n, ast.Call):
                if isinstance(n.func, ast.Name) and n.func.id == s.name:
                    called = True
                for x in n.args:
                    if isinstance(x, ast.Name) and x.id == s.name:
                        passed = True
        if called == passed:
            self.fail('nested def %s must be either called or passed as a callback' % s.name, s)
        lname = '%s.%s' % (self.fname, s.name)
        sig = [(x.arg, INT) for x in a.args]
        if called and sig:
            self.fail('a nested procedure with parameters', s)
        ret = topt(INT) if passed else None
        text = translate_function(self.unit, self.info, self.methods, lname, s, sig, ret, False,
                                  'callback' if passed else 'procedure')
        self.aux.append(text)
        env = dict(env)
        if passed:
            cid = len(self.closures)
            self.closures.append((s.name, lname, len(sig)))
            env[s.name] = Bind(None, ('closure',), {'closure': cid})
            note = 'callback identity %d' % cid
        else:
            env[s.name] = Bind(None, ('procedure',), {'procedure': lname})
            note = 'nested procedure'
        return ['-- def %s(%s): ...  (`%s` above; %s)' % (s.name, ', '.join(x.arg for x in a.args), lname, note)] + k(env)

    def st_assign(self, s, env, k, ctl):
        if len(s.targets) == 1 and isinstance(s.value, ast.Call):
            p = self.resolve_path(s.value.func, env)
            if p and p[0] == 'self' and len(p) == 2 and p[1] in self.unit['funcs'] and p[1] not in self.unit['pure']:
                return self.assign_from_call(s, p[1], env, k, ctl)
        return M.FnTr.st_assign(self, s, env, k, ctl)

    def assign_from_call(self, s, callee, env, k, ctl):
        rt = self.unit['rets'].get(callee)
        if rt is None:
            self.fail('%s returns nothing' % callee, s)
        if ctl.phi:
            raise NeedCPS()
        if ctl.hs:
            self.fail('call of a translated method inside try', s)
        pre = []
        call = self.internal_call(s.value, callee, env, pre, ctl)
        tg = s.targets[0]
        lines = ['(%s).bind fun r_ σ =>' % call]
        env2 = env
        if isinstance(tg, ast.Name):
            env2, ls = self.bind_name(env2, tg.id, Val('r_', rt, True), s)
            lines += ls
        elif isinstance(tg, ast.Tuple) and all(isinstance(e, ast.Name) for e in tg.elts) and \
                isinstance(rt, tuple) and rt[0] == 'tuple' and len(rt[1]) == len(tg.elts):
            n = len(tg.elts)
            for i, e in enumerate(tg.elts):
                env2, ls = self.bind_name(env2, e.id, Val('r_%s' % proj(n, i), rt[1][i], True), s)
                lines += ls
        else:
            self.fail('unsupported target for the result of %s' % callee, s)
        return ['-- %s' % unparse1(s)] + self.wrap(pre, lines + k(env2))

    def internal_call(self, node, callee, env, pre, ctl):
        sig = [(n, t) for n, t in self.unit['sigs'][callee] if t is not None]
        full = [n for n, _ in self.unit['sigs'][callee]]
        defaults = self.info['defaults'].get(callee, {})
        given = {}
        if len(node.args) > len(full):
            self.fail('too many arguments for %s' % callee, node)
        for pn, a in zip(full, node.args):
            given[pn] = a
        for kw in node.keywords:
            if kw.arg is None or kw.arg in given or kw.arg not in full:
                self.fail('bad keyword argument for %s' % callee, node)
            given[kw.arg] = kw.value
        args = []
        for pn, pt in sig:
            if pn not in given:
                if pn not in defaults:
                    self.fail('missing argument %s for %s' % (pn, callee), node)
                args.append('%s.default_%s' % (callee, pn))
                continue
            v = self.coerce(self.ex(given[pn], env, pre, ctl), pt, node)
            if v.text is None:
                self.fail('static-only argument', node)
            args.append(v.p())
        return ' '.join(x for x in [callee, self.pnames(), ' '.join(args), 'σ'] if x)

    def st_call(self, node, env, k, ctl, s):
        head = ['-- %s' % unparse1(s)]
        st = self.unit['state']
        f = node.func
        p = self.resolve_path(f, env)
        pre = []
        if p == ('self', 'stdout', 'write'):
            self.args_plain(node, 1, 'stdout.write')
            self.need_flow(s, 'a write to the terminal')
            a = self.coerce(self.ex(node.args[0], env, pre, ctl), CP, s)
            if ctl.phi:
                raise NeedCPS()
            t = self.temp()
            rl = self.raise_lines('UnicodeEncodeError', env, ctl, s)
            lines = ['match stdoutWrite E.enc %s σ.stdout with' % a.p(), '| none =>'] + ind(rl) + \
                ['| some %s =>' % t] + ind(['let σ : %s := { σ with stdout := %s }' % (st, t)] + k(env))
            return head + self.wrap(pre, lines)
        if p == ('self', 'stdout', 'flush'):
            self.args_plain(node, 0, 'stdout.flush')
            self.need_flow(s, 'a flush of the terminal')
            return head + ['let σ : %s := { σ with stdout := stdoutFlush σ.stdout }' % st] + k(env)
        if p == ('self', '_usage'):
            self.args_plain(node, 0, '_usage')
            self.need_flow(s, '_usage')
            return head + ['let σ : %s := { σ with out := σ.out ++ [E.usage] }' % st] + k(env)
        if p in (('self', '_exit'), ('sys', 'exit')):
            self.need_flow(s, 'an exit')
            if node.keywords or len(node.args) > 1:
                self.fail('exit with other than one positional argument', s)
            code = '0'
            if node.args:
                a = node.args[0]
                if not (isinstance(a, ast.Constant) and isinstance(a.value, int) and not isinstance(a.value, bool)):
                    self.fail('exit code that is not an integer constant', s)
                code = str(a.value) if a.value >= 0 else '(%d)' % a.value
            return head + self.raise_lines('SystemExit', env, ctl, s, excval=code)
        if isinstance(f, ast.Name) and f.id in env and 'procedure' in env[f.id].static:
            self.args_plain(node, 0, f.id)
            if ctl.phi:
                raise NeedCPS()
            if ctl.hs:
                self.fail('call of a nested procedure inside try', s)
            return head + ['(%s %s σ).bind fun _ σ =>' % (env[f.id].static['procedure'], self.pnames())] + k(env)
        if isinstance(f, ast.Attribute) and isinstance(f.value, ast.Name) and f.value.id in env \
                and env[f.value.id].lean is not None:
            b = env[f.value.id]
            if b.ty == tlist(STR) and f.attr == 'sort':
                self.args_plain(node, 0, 'list.sort')
                env2, ls = M.FnTr.bind_name(self, env, f.value.id, Val('pySorted %s' % b.lean, b.ty), s)
                return head + ls + k(env2)
            if b.ty == OMT and f.attr in ('subscribe_to_write', 'subscribe_to_read'):
                self.args_plain(node, 2, f.attr)
                rng, cb = node.args
                if not (isinstance(rng, ast.List) and len(rng.elts) == 1):
                    self.fail('%s with an address range that is not a one-element list display' % f.attr, s)
                a = self.ex(rng.elts[0], env, pre, ctl)
                if a.ty == topt(INT):
                    # `address &= self.physMask` inside subscribe_to_*: None & int is a TypeError
                    a = self.opt_bind(a.p(), 'TypeError', INT, env, pre, ctl, s)
                if a.ty != INT:
                    self.fail('an address of type %s' % (a.ty,), s)
                c = self.ex(cb, env, pre, ctl)
                if 'closure' not in c.static:
                    self.fail('the callback must be a nested def of this method', s)
                h = 'subscribeWrite' if f.attr == 'subscribe_to_write' else 'subscribeRead'
                env2, ls = M.FnTr.bind_name(self, env, f.value.id,
                                            Val('%s %s [%s] %d' % (h, b.lean, a.text, c.static['closure']), OMT), s)
                return head + self.wrap(pre, ls + k(env2))
        if p is not None and p[0] == 'self' and len(p) == 2 and p[1] in self.unit['funcs'] \
                and p[1] not in self.unit['pure'] and p[1] != '_output':
            self.need_flow(s, 'a call statement')
            if ctl.phi:
                raise NeedCPS()
            if ctl.hs:
                self.fail('call of a translated method inside try', s)
            call = self.internal_call(node, p[1], env, pre, ctl)
            return head + self.wrap(pre, ['(%s).bind fun _ σ =>' % call] + k(env))
        return M.FnTr.st_call(self, node, env, k, ctl, s)

    def st_return(self, s, env, ctl):
        if self.mode == 'pure' or self.ret is None:
            return M.FnTr.st_return(self, s, env, ctl)
        if ctl.phi:
            raise NeedCPS()
        if ctl.lc is not None:
            self.fail('return inside a loop', s)
        pre = []
        if s.value is None:
            v = self.coerce(Val('none', NONE, True), self.ret, s)
        else:
            v = self.coerce(self.ex(s.value, env, pre, ctl), self.ret, s)
        return ['-- %s' % unparse1(s)] + self.wrap(pre, ['.ok %s σ' % v.p()])

    def st_if(self, s, env, k, ctl):
        t = s.test
        if isinstance(t, ast.Call) and isinstance(t.func, ast.Name) and t.func.id == 'isinstance' and \
                'isinstance' not in env and len(t.args) == 2 and not t.keywords and \
                isinstance(t.args[0], ast.Name) and t.args[0].id in env and env[t.args[0].id].ty == PYVAL:
            if not (isinstance(t.args[1], ast.Name) and t.args[1].id == 'str' and 'str' not in env):
                self.fail('isinstance(x, <something other than str>)', s)
            if ctl.phi:
                raise NeedCPS()
            b = env[t.args[0].id]
            e1, e2 = dict(env), dict(env)
            e1[t.args[0].id] = Bind(b.lean, CP)
            e2[t.args[0].id] = Bind(b.lean, BYTES)
            return ['-- if %s:' % unparse1(t), 'match %s with' % b.lean, '| .str %s =>' % b.lean] + \
                ind(self.block(s.body, e1, k, ctl)) + ['| .bytes %s =>' % b.lean] + ind(self.block(s.orelse, e2, k, ctl))
        if isinstance(t, ast.BoolOp) and isinstance(t.op, ast.And):
            # `if a and b:` where b can raise: `if a: (if b: body else: orelse) else: orelse`
            try:
                return self.st_if_plain(s, env, k, ctl)
            except Unsupported as ex:
                if 'short-circuit order not modelled' not in ex.msg:
                    raise
            rest = t.values[1] if len(t.values) == 2 else ast.BoolOp(op=ast.And(), values=t.values[1:])
            inner = ast.If(test=rest, body=s.body, orelse=s.orelse)
            outer = ast.If(test=t.values[0], body=[inner], orelse=s.orelse)
            for n in (rest, inner, outer):
                ast.copy_location(n, s)
            ast.fix_missing_locations(outer)
            return ['-- if %s:  (short-circuit `and`: the right operand is evaluated only when the left is true)'
                    % unparse1(t)] + self.st_if_plain(outer, env, k, ctl)
        return self.st_if_plain(s, env, k, ctl)

    def st_if_plain(self, s, env, k, ctl):
        # __init__: the start-up actions -l / -g / -r (after _reset) are uninterpreted
        if self.fname == '__init__' and not s.orelse and self.is_startup(s):
            nf = self.narrowing(s.test, env)
            if not nf or not nf[1] or env[nf[0]].ty != topt(STR):
                self.fail('a start-up action must be guarded by `<option value> is not None`', s)
            if ctl.phi:
                raise NeedCPS()
            if ctl.hs:
                self.fail('a start-up action inside try', s)
            b = env[nf[0]]
            idx = self.startup_ids.setdefault(id(s), len(self.startup_ids))
            return ['-- if %s: ...  (start-up action #%d, uninterpreted: `E.startup %d`; its statements: %s)'
                    % (unparse1(s.test), idx, idx, '; '.join(unparse1(x) for x in s.body)),
                    'match %s with' % b.lean, '| some %s =>' % b.lean] + \
                ind(['(E.startup %d %s σ).bind fun _ σ =>' % (idx, b.lean)] + k(env)) + ['| none =>'] + ind(k(env))
        # `if x is None: x = <default>`: a phi-`let` that takes the Optional away (no duplication of what follows)
        nf = self.narrowing(s.test, env)
        if nf and not nf[1] and not s.orelse and len(s.body) == 1 and isinstance(s.body[0], ast.Assign) \
                and len(s.body[0].targets) == 1 and isinstance(s.body[0].targets[0], ast.Name) \
                and s.body[0].targets[0].id == nf[0] and nf[0] not in self.hints and isinstance(s.test, ast.Compare):
            b = env[nf[0]]
            pre = []
            v = self.ex(s.body[0].value, env, pre, ctl.with_(phi=True))
            if not pre and v.ty == b.ty[1] and v.text is not None:
                env2 = dict(env)
                env2[nf[0]] = Bind(b.lean, v.ty)
                return ['-- if %s:' % unparse1(s.test),
                        'let %s : %s :=' % (b.lean, lean_type(v.ty)),
                        '  match %s with' % b.lean,
                        '  | some %s => %s' % (b.lean, b.lean),
                        '  | none =>',
                        '    -- %s' % unparse1(s.body[0]),
                        '    %s' % v.text] + k(env2)
        return M.FnTr.st_if(self, s, env, k, ctl)

    def is_startup(self, s):
        calls = [n for n in ast.walk(s) if isinstance(n, ast.Call) and path_of(n.func)
                 and path_of(n.func)[0] == 'self' and len(path_of(n.func)) == 2]
        if not any(path_of(c.func)[1] in STARTUP_CALLS for c in calls):
            return False
        for c in calls:
            if path_of(c.func)[1] not in STARTUP_CALLS:
                self.fail('a start-up action calls self.%s' % path_of(c.func)[1], s)
        for n in ast.walk(s):
            if isinstance(n, (ast.Attribute, ast.Subscript)) and isinstance(n.ctx, (ast.Store, ast.Del)):
                self.fail('a start-up action stores to an attribute or item', s)
        return True

    def st_try(self, s, env, k, ctl):
        self.need_flow(s, 'try')
        if ctl.phi:
            raise NeedCPS()
        if s.orelse or s.finalbody:
            self.fail('try with else/finally', s)
        # `except: <console mode calls>; raise` re-raises whatever came: no effect on the modelled state
        if len(s.handlers) == 1 and s.handlers[0].type is None and s.handlers[0].name is None:
            hb = s.handlers[0].body
            if hb and isinstance(hb[-1], ast.Raise) and hb[-1].exc is None and hb[-1].cause is None and \
                    all(isinstance(x, ast.Expr) and isinstance(x.value, ast.Call)
                        and self.resolve_path(x.value.func, env) in M.SKIPPED_CALLS and not x.value.args
                        and not x.value.keywords for x in hb[:-1]):
                return ['-- try: ... except: %s  (re-raises every exception: transparent for the modelled state)'
                        % '; '.join(unparse1(x) for x in hb)] + self.block(s.body, env, k, ctl)
        hs = []
        for h in s.handlers:
            if h.type is None:
                names = [None]
            elif isinstance(h.type, ast.Name):
                names = [h.type.id]
            elif isinstance(h.type, ast.Attribute) and path_of(h.type) == ('getopt', 'GetoptError'):
                names = ['GetoptError']
            elif isinstance(h.type, ast.Tuple) and all(isinstance(e, ast.Name) for e in h.type.elts):
                names = [e.id for e in h.type.elts]
            else:
                self.fail('unsupported exception specification', s)
            if h.name is not None and names != ['GetoptError']:
                self.fail('`except ... as name` for something other than getopt.GetoptError', s)
            if h.name is not None and h.name in env:
                self.fail('`except ... as %s` shadows a variable' % h.name, s)
            hs.append(AsHandler(names, h.body, k, ctl, h.name))
        return ['-- try:  (handlers: %s; a raise of a known class is resolved statically, a run-time exception `e_` '
                'is compared with the handlers in order)' % ', '.join('/'.join(str(n) for n in h.names) for h in hs)] + \
            self.block(s.body, env, k, ctl.with_(hs=tuple(hs) + ctl.hs))

    # -- the function ----------------------------------------------------------------------
    def translate(self):
        fd = self.fd
        a = fd.args
        if a.vararg or a.kwarg or a.kwonlyargs or a.posonlyargs or fd.decorator_list:
            self.fail('unsupported kind of signature', fd)
        got = [x.arg for x in a.args]
        if self.kind == 'method':
            if got != ['self'] + [n for n, _ in self.sig]:
                self.fail('signature differs from (self, %s)' % ', '.join(n for n, _ in self.sig), fd)
        elif self.kind == 'function':
            if got != [n for n, _ in self.sig]:
                self.fail('signature differs from (%s)' % ', '.join(n for n, _ in self.sig), fd)
        elif len(got) != len(self.sig):
            self.fail('unexpected number of parameters', fd)
        env = {}
        for n, t in self.sig:
            if t is not None:
                env[n] = Bind(self.mangle(n), t)
        flow = self.mode == 'flow'
        st = self.unit['state']

        def endk(e):
            if not flow:
                self.fail('the function may fall off its end without a value', fd)
            if self.ret is None:
                return ['.ok () σ']
            if is_opt(self.ret):
                return ['.ok none σ']
            self.fail('the function may fall off its end without a value', fd)
        lines = self.block(fd.body, env, endk, Ctl2())
        params = [self.pdecl()] + ['(%s : %s)' % (self.mangle(n), lean_type(t)) for n, t in self.sig if t is not None]
        if flow:
            params.append('(σ : %s)' % st)
            res = 'Flow %s %s' % (st, 'Unit' if self.ret is None else lean_type(self.ret, False))
        else:
            res = lean_type(self.unit['rets'][self.fname])
        what = {'method': '`Monitor.%s`' % self.fname, 'function': '`%s`' % self.fname,
                'callback': 'closure `%s` (a callback of the ObservableMemory)' % self.fname,
                'procedure': 'nested procedure `%s`' % self.fname}[self.kind]
        head = ['/-- %s (%s), statement by statement. -/' % (what, self.unit.get('srcnote', {}).get(self.fname, 'py65/monitor.py')),
                'def %s %s : %s :=' % (self.fname, ' '.join(p for p in params if p), res)]
        chunks = self.aux + ['\n'.join(head + ind(lines))]
        if self.closures:
            chunks.append(self.dispatcher())
        return '\n\n'.join(chunks)

    def dispatcher(self):
        ps = self.pnames()
        st = self.unit['state']
        out = ['/-- How the ObservableMemory reaches the closures of `%s`: callback identity `cb` called as' % self.fname,
               '`callback(address)` (`value = none`) or `callback(address, value)`; a call with the wrong number of',
               'arguments is Python\'s `TypeError`.  Identities: %s. -/'
               % ', '.join('%d = `%s`' % (i, c[0]) for i, c in enumerate(self.closures)),
               'def %s.call %s (cb : Nat) (address : Int) (value : Option Int) (σ : %s) : Flow %s (Option Int) :='
               % (self.fname, self.pdecl(), st, st)]
        for i, (pn, ln, n) in enumerate(self.closures):
            kw = 'if' if i == 0 else 'else if'
            if n == 1:
                body = 'match value with | none => %s %s address σ | some _ => .raise .TypeError σ' % (ln, ps)
            elif n == 2:
                body = 'match value with | some value => %s %s address value σ | none => .raise .TypeError σ' % (ln, ps)
            else:
                body = '.raise .TypeError σ'
            out.append('  %s cb = %d then %s' % (kw, i, body))
        out.append('  else .raise .TypeError σ')
        return '\n'.join(out)


CTORS = {
    'ObservableMemory': dict(kw=[('subject', topt(CELLS)), ('addrWidth', INT)], pos=None, helper='omNew', ty=OMT, id=False),
    'AddressParser': dict(kw=[('maxwidth', INT)], pos=None, helper='parserNew', ty=PARSEROBJ, id=True),
    'Disassembler': dict(kw=None, pos=[MPUOBJ, PARSEROBJ], helper='toolNew', ty=TOOLOBJ, id=True),
    'Assembler': dict(kw=None, pos=[MPUOBJ, PARSEROBJ], helper='toolNew', ty=TOOLOBJ, id=True),
}


def translate_function(unit, info, methods, fname, fd, sig, ret, pure, kind):
    hints = {}
    for _ in range(8):
        try:
            return IoTr(unit, info, methods, fname, fd, sig, ret, pure, hints, kind).translate()
        except Retype as r:
            if r.name in hints:
                raise Unsupported('variable %s is assigned values of different types in %s' % (r.name, fname), fd, fname)
            hints[r.name] = r.ty
    raise Unsupported('could not type the None-initialised variables of %s' % fname, fd, fname)


# ---------------------------------------------------------------------------------------
# module facts
# ---------------------------------------------------------------------------------------

def module_facts(tree, cls, methods):
    info = {'classes': {}, 'defaults': {}}
    imported = {}
    plain = set()
    for n in tree.body:
        if isinstance(n, ast.ImportFrom) and n.level == 0:
            for al in n.names:
                imported[al.asname or al.name] = (n.module, al.name)
        elif isinstance(n, ast.Import):
            for al in n.names:
                plain.add(al.asname or al.name)
    for name, (mod, orig) in imported.items():
        if mod in DEVICE_MODULES and orig == 'MPU':
            info['classes'][name] = DEVICE_MODULES[mod]
    for name, want in IMPORT_FACTS.items():
        if imported.get(name) != want:
            raise Unsupported('monitor.py no longer has `from %s import %s`' % want)
    for name in PLAIN_IMPORTS:
        if name not in plain:
            raise Unsupported('monitor.py no longer has `import %s`' % name)
    # names bound at module level other than by these imports must not shadow what we resolved
    for n in tree.body:
        if isinstance(n, (ast.Assign, ast.FunctionDef, ast.ClassDef)):
            names = [n.name] if not isinstance(n, ast.Assign) else [t.id for t in n.targets if isinstance(t, ast.Name)]
            for x in names:
                if x in info['classes'] or x in IMPORT_FACTS or x in PLAIN_IMPORTS:
                    raise Unsupported('module-level name %s is rebound' % x, n)
    # the class-level table
    table = None
    for n in cls.body:
        if isinstance(n, ast.Assign) and len(n.targets) == 1 and isinstance(n.targets[0], ast.Name):
            if n.targets[0].id == 'Microprocessors':
                if table is not None or not isinstance(n.value, ast.Dict):
                    raise Unsupported('Monitor.Microprocessors is not one dict display', n)
                table = []
                for kx, vx in zip(n.value.keys, n.value.values):
                    if not (isinstance(kx, ast.Constant) and isinstance(kx.value, str) and isinstance(vx, ast.Name)
                            and vx.id in info['classes']):
                        raise Unsupported('a Microprocessors entry is not `str: <imported device class>`', n)
                    if kx.value in [a for a, _ in table]:
                        raise Unsupported('duplicate Microprocessors key %r' % kx.value, n)
                    table.append((kx.value, info['classes'][vx.id]))
            elif n.targets[0].id in STORE_SITES:
                raise Unsupported('class attribute %s shadows a modelled instance attribute' % n.targets[0].id, n)
    if table is None:
        raise Unsupported('class attribute Monitor.Microprocessors is missing')
    info['table'] = table
    return info


def check_facts(tree, methods):
    def body_texts(name):
        fd = methods.get(name)
        if fd is None:
            raise Unsupported('method %s is missing' % name)
        return fd, [ast.unparse(s) for s in fd.body
                    if not (isinstance(s, ast.Expr) and isinstance(s.value, ast.Constant))]
    fd, b = body_texts('_output')
    if [a.arg for a in fd.args.args] != ['self', 'stuff'] or fd.args.defaults or b != [OUTPUT_BODY]:
        raise Unsupported('_output is no longer `def _output(self, stuff): %s`' % OUTPUT_BODY, fd, '_output')
    fd, b = body_texts('_exit')
    if [a.arg for a in fd.args.args] != ['self', 'exitcode'] or b != [EXIT_BODY]:
        raise Unsupported('_exit is no longer `def _exit(self, exitcode=0): %s`' % EXIT_BODY, fd, '_exit')
    fd, b = body_texts('_usage')
    if [a.arg for a in fd.args.args] != ['self'] or b != USAGE_BODY:
        raise Unsupported('_usage is no longer `%s`' % '; '.join(USAGE_BODY), fd, '_usage')

    def enclosing_methods():
        for mname, fd in methods.items():
            for n in ast.walk(fd):
                yield mname, n
    for mname, n in enclosing_methods():
        if isinstance(n, ast.Attribute) and isinstance(n.ctx, (ast.Store, ast.Del)):
            p = path_of(n)
            if p and p[0] == 'self' and len(p) == 2 and p[1] in STORE_SITES and mname not in STORE_SITES[p[1]]:
                raise Unsupported('self.%s is assigned in %s (the translation assumes: only in %s)'
                                  % (p[1], mname, ', '.join(STORE_SITES[p[1]]) or 'the class body'), n, mname)
            if p and len(p) >= 2 and p[-1] == 'memory' and p[-2] == '_mpu' and mname != '_install_mpu_observers':
                raise Unsupported('the device\'s memory object is replaced in %s (the translation assumes: only in '
                                  '_install_mpu_observers)' % mname, n, mname)
        if isinstance(n, ast.Call):
            p = path_of(n.func)
            if p and p[0] == 'self' and len(p) == 2 and p[1] in CALL_SITES and mname not in CALL_SITES[p[1]]:
                raise Unsupported('self.%s is called from %s (the translation assumes: only from %s)'
                                  % (p[1], mname, ', '.join(CALL_SITES[p[1]])), n, mname)
            if isinstance(n.func, ast.Name) and n.func.id in ('setattr', 'delattr') or \
                    (p and p[-1] in ('__setattr__', '__dict__')):
                # the one known use: do_registers sets a REGISTER of the device, guarded by the literal tuple
                if mname == 'do_registers' and ast.unparse(n) == REGISTERS_SETATTR and \
                        REGISTERS_GUARD in ast.unparse(methods[mname]):
                    continue
                raise Unsupported('%s uses setattr / __dict__ (attribute stores must be visible)' % mname, n, mname)
    # module-level code / other classes must not touch a Monitor's mapping either
    for n in tree.body:
        if isinstance(n, (ast.FunctionDef, ast.ClassDef)) and not (isinstance(n, ast.ClassDef) and n.name == 'Monitor'):
            for x in ast.walk(n):
                if isinstance(x, ast.Attribute) and isinstance(x.ctx, (ast.Store, ast.Del)) and \
                        x.attr in ('putc_addr', 'getc_addr', 'mpu_type', '_mpu'):
                    raise Unsupported('%s assigns .%s outside class Monitor' % (n.name, x.attr), x, n.name)


def default_text(info, fname, pname, ty, node):
    if isinstance(node, ast.Constant) and node.value is None:
        if not is_opt(ty):
            raise Unsupported('default None for the non-optional parameter %s of %s' % (pname, fname), node, fname)
        return 'none'
    if isinstance(node, ast.Constant) and isinstance(node.value, int) and not isinstance(node.value, bool):
        if ty == INT:
            return '%d' % node.value
        if ty == topt(INT):
            return 'some %s' % (node.value if node.value >= 0 else '(%d)' % node.value)
    if isinstance(node, ast.Name) and node.id in info['classes'] and ty == CLS:
        return '.%s' % info['classes'][node.id]
    raise Unsupported('unsupported default value for parameter %s of %s' % (pname, fname), node, fname)


HEADER = '''/-
GENERATED by harness/py2lean_monio.py from py65/monitor.py (class Monitor) -- do not edit.
Unit `io`: %s.
Shallow embedding, statement by statement (the Python statement is quoted above its translation);
library / operating-system behaviour is the named helpers of Py65/Model/MonIORt.lean and the hand model
of the ObservableMemory (Py65/Model/ObsMem.lean).
-/
import Py65.Model.MonIORt

set_option linter.unusedVariables false

namespace %s
open Py65 Py65.Model.PyStr Py65.Model.ObsMem Py65.Model.MonIORt
'''


def translate_unit(tree):
    cls, methods = M.class_methods(tree, 'monitor.py')
    info = module_facts(tree, cls, methods)
    check_facts(tree, methods)
    for f in IO_UNIT['funcs']:
        if f not in methods:
            raise Unsupported('method %s is missing' % f)
    chunks = []
    rows = ['(%s, .%s)' % (lean_strlist(a), b) for a, b in info['table']]
    chunks.append('/-- `Monitor.Microprocessors` (class attribute), in dict (insertion) order; the classes are resolved\n'
                  'through the `from py65.devices.<module> import MPU as <name>` lines. -/\n'
                  'def Microprocessors : List (Str × MpuCls) :=\n  [' + ',\n   '.join(rows) + ']')
    # default values of parameters
    for f in IO_UNIT['funcs']:
        fd = methods[f]
        a = fd.args
        names = [x.arg for x in a.args]
        sig = dict(IO_UNIT['sigs'][f])
        ds = {}
        for pn, dn in zip(names[len(names) - len(a.defaults):], a.defaults):
            if pn not in sig:
                raise Unsupported('signature differs from (self, %s)' % ', '.join(n for n, _ in IO_UNIT['sigs'][f]), fd, f)
            if sig[pn] is None:
                continue
            ds[pn] = default_text(info, f, pn, sig[pn], dn)
        info['defaults'][f] = ds
        for pn, t in IO_UNIT['sigs'][f]:
            if pn in ds:
                chunks.append('/-- default value of the parameter `%s` of `Monitor.%s` -/\ndef %s.default_%s : %s := %s'
                              % (pn, f, f, pn, lean_type(sig[pn]), ds[pn]))
    for f in IO_UNIT['funcs']:
        chunks.append(translate_function(IO_UNIT, info, methods, f, methods[f], IO_UNIT['sigs'][f], IO_UNIT['rets'].get(f),
                                         f in IO_UNIT['pure'], 'method'))
    what = 'Monitor.Microprocessors, ' + ', '.join('Monitor.' + f for f in IO_UNIT['funcs'])
    return HEADER % (what, IO_UNIT['ns']) + '\n' + '\n\n'.join(chunks) + '\n\nend %s\n' % IO_UNIT['ns']


CON_HEADER = """/-
GENERATED by harness/py2lean_monio.py from py65/utils/console.py and py65/compat.py -- do not edit.
Unit `con`: `as_string` (py65/compat.py, the Python-3 branch `else:` of `if PY2:`) and `getch_noblock`
(py65/utils/console.py, the POSIX branch `else:` of `if sys.platform[:3] == 'win':`).
Shallow embedding, statement by statement (the Python statement is quoted above its translation); the
operating system (select, stdin.read, termios) and `bytes.decode` are the named helpers of
Py65/Model/MonIORt.lean.  An exception whose class is only known at run time (`e_`) is matched against
the handlers in their order.
-/
import Py65.Model.MonIORt

set_option linter.unusedVariables false

namespace %s
open Py65 Py65.Model.PyStr Py65.Model.MonIORt
"""


def top_branch(tree, test_text, fname):
    """the `else:` statements of the one top-level `if <test_text>:` of a module"""
    hits = [n for n in tree.body if isinstance(n, ast.If) and ast.unparse(n.test) == test_text]
    if len(hits) != 1 or not hits[0].orelse:
        raise Unsupported('%s no longer has exactly one top-level `if %s: ... else: ...`' % (fname, test_text))
    return hits[0].orelse


def one_def(stmts, name, fname):
    ds = [n for n in stmts if isinstance(n, ast.FunctionDef) and n.name == name]
    if len(ds) != 1:
        raise Unsupported('%s: expected exactly one `def %s` in the branch' % (fname, name))
    return ds[0]


def translate_con_unit(console_tree, compat_tree):
    unit = CON_UNIT
    # compat.py
    if 'PY2 = sys.version_info[0] == 2' not in [ast.unparse(n) for n in compat_tree.body]:
        raise Unsupported('py65/compat.py no longer has `PY2 = sys.version_info[0] == 2`')
    py3 = top_branch(compat_tree, 'PY2', 'py65/compat.py')
    as_string = one_def(py3, 'as_string', 'py65/compat.py')
    # console.py
    imps = [ast.unparse(n) for n in console_tree.body if isinstance(n, (ast.Import, ast.ImportFrom))]
    if 'from py65.compat import as_string' not in imps:
        raise Unsupported('py65/utils/console.py no longer has `from py65.compat import as_string`')
    posix = top_branch(console_tree, "sys.platform[:3] == 'win'", 'py65/utils/console.py')
    if 'from select import select' not in [ast.unparse(n) for n in posix]:
        raise Unsupported('the POSIX branch of console.py no longer has `from select import select`')
    getch = one_def(posix, 'getch_noblock', 'py65/utils/console.py')
    ncm = one_def(posix, 'noncanonical_mode', 'py65/utils/console.py')
    body = [x for x in ncm.body if not (isinstance(x, ast.Expr) and isinstance(x.value, ast.Constant))]
    if not (len(body) == 1 and isinstance(body[0], ast.Try) and not body[0].orelse and not body[0].finalbody
            and len(body[0].handlers) == 1 and body[0].handlers[0].type is None
            and [ast.unparse(x) for x in body[0].handlers[0].body] == ['pass']):
        raise Unsupported('noncanonical_mode is no longer one `try: ... except: pass` (it is skipped by name because '
                          'it cannot raise)', ncm, 'noncanonical_mode')
    for n in console_tree.body + posix:
        if isinstance(n, (ast.Assign, ast.FunctionDef, ast.ClassDef)):
            names = [n.name] if not isinstance(n, ast.Assign) else [t.id for t in n.targets if isinstance(t, ast.Name)]
            if set(names) & set(['select', 'as_string', 'len', 'ord', 'isinstance', 'str']):
                raise Unsupported('console.py rebinds %s' % ', '.join(names), n)
    info = {'classes': {}, 'defaults': {}}
    methods = {'as_string': as_string, 'getch_noblock': getch}
    unit['srcnote'] = {'as_string': 'py65/compat.py', 'getch_noblock': 'py65/utils/console.py'}
    chunks = []
    # the default codec of as_string
    a = as_string.args
    if [x.arg for x in a.args] != ['s', 'encoding'] or len(a.defaults) != 1 or not (
            isinstance(a.defaults[0], ast.Constant) and isinstance(a.defaults[0].value, str)):
        raise Unsupported('as_string is no longer `def as_string(s, encoding=<literal>)`', as_string, 'as_string')
    if a.defaults[0].value not in KNOWN_CODECS:
        raise Unsupported('default codec %r of as_string is not one the run-time model knows' % a.defaults[0].value,
                          as_string, 'as_string')
    chunks.append('/-- default value of the parameter `encoding` of `as_string` -/\n'
                  'def as_string.default_encoding : Str := %s' % lean_strlist(a.defaults[0].value))
    as_string.args.defaults = []          # recorded above; the translated body does not depend on it
    for f in unit['funcs']:
        chunks.append(translate_function(unit, info, methods, f, methods[f], unit['sigs'][f], unit['rets'].get(f),
                                         False, 'function'))
    return CON_HEADER % unit['ns'] + '\n' + '\n\n'.join(chunks) + '\n\nend %s\n' % unit['ns']


def run_unit(name, unit, make_text, out, srcs, report):
    r = {'ok': False, 'file': unit['file'], 'functions': unit['funcs']}
    report['units'][name] = r
    try:
        text = make_text()
        r['ok'] = True
        os.makedirs(out, exist_ok=True)
        p = os.path.join(out, unit['file'])
        old = open(p).read() if os.path.exists(p) else None
        if old != text:
            with open(p, 'w') as f:
                f.write(text)
            report['written'].append(unit['file'])
        return 0
    except (Unsupported, SyntaxError, OSError, UnicodeDecodeError) as ex:
        msg = getattr(ex, 'msg', None) or str(ex)
        r['error'] = msg
        fn = getattr(ex, 'func', None)
        if fn:
            r['function'] = fn
        node = getattr(ex, 'node', None)
        r['where'] = '%s:%d' % (srcs[0], node.lineno) if node is not None and hasattr(node, 'lineno') else srcs[0]
        sys.stderr.write('py2lean_monio: unit %s unsupported: %s\n' % (name, msg))
        if 'error' not in report:
            report['error'], report['where'] = msg, r['where']
            if fn:
                report['function'] = fn
        return 3


def main():
    ap = argparse.ArgumentParser()
    ap.add_argument('--out', required=True)
    ap.add_argument('--report', default=None)
    ap.add_argument('--units', default='io,con')
    ap.add_argument('--source', default=None, help='monitor.py (default: $PY65_REPO/py65/monitor.py)')
    args = ap.parse_args()
    root = os.path.join(os.environ.get('PY65_REPO', '/repo'), 'py65')
    src = args.source or os.path.join(root, 'monitor.py')
    csrc, psrc = os.path.join(root, 'utils', 'console.py'), os.path.join(root, 'compat.py')
    report = {'ok': False, 'source': src, 'units': {}, 'written': []}
    units = [u for u in args.units.split(',') if u]
    rc = 0

    def parse(path):
        data = open(path, 'rb').read()
        report.setdefault('sha256', {})[os.path.relpath(path, root)] = hashlib.sha256(data).hexdigest()
        return ast.parse(data.decode('utf-8'), filename=path)
    if 'io' in units:
        rc = max(rc, run_unit('io', IO_UNIT, lambda: translate_unit(parse(src)), args.out, [src], report))
        report['source_sha256'] = report.get('sha256', {}).get('monitor.py')
    if 'con' in units:
        rc = max(rc, run_unit('con', CON_UNIT, lambda: translate_con_unit(parse(csrc), parse(psrc)), args.out,
                              [csrc, psrc], report))
    report['ok'] = rc == 0
    if args.report:
        with open(args.report, 'w') as f:
            json.dump(report, f, indent=1)
    sys.exit(rc)


if __name__ == '__main__':
    main()
