"""Shared pieces of the Python harness: paths, driver pipe, background memory, recording
memory, CPU state generator, real-device runner.  Stdlib only; run with /venv/bin/python."""
import json
import os
import random
import subprocess
import sys
import time

VERIF = os.path.dirname(os.path.dirname(os.path.abspath(__file__)))
REPO = os.environ.get('PY65_REPO', '/repo')
if REPO not in sys.path:
    sys.path.insert(0, REPO)
LEAN = os.path.join(VERIF, 'lean')
DRIVER = os.path.join(LEAN, '.lake', 'build', 'bin', 'driver')
WORK = os.path.join(VERIF, '.work')

DEVNAMES = ['6502', '65C02', '65Org16']


def device_classes():
    from py65.devices.mpu6502 import MPU as A
    from py65.devices.mpu65c02 import MPU as B
    from py65.devices.mpu65org16 import MPU as C
    return {'6502': A, '65C02': B, '65Org16': C}


def widths(dev):
    return (16, 32) if dev == '65Org16' else (8, 16)


def bg(seed, W, addr):
    h = ((addr + 1) * 2654435761 + seed * 2246822519 + 97) % 4294967296
    h2 = (h * (h // 65536 + 1)) % 4294967296
    return (h2 // 8192) % (1 << W)


class RecMem(object):
    """Total memory over all integers (background `bg` + overrides) that records every item
    access in order.  Deliberately *not* a list: out-of-range and negative addresses are
    answered (and logged) rather than raising, so that the generated model, whose memory is a
    total function, can be compared exactly; range discipline is C05's job."""

    def __init__(self, seed, W, ov=None):
        self.seed, self.W = seed, W
        self.cells = dict(ov or {})
        self.log = []

    def __getitem__(self, a):
        if isinstance(a, slice):
            raise TypeError('slice access on RecMem')
        self.log.append('r:%d' % a)
        v = self.cells.get(a)
        if v is None:
            v = bg(self.seed, self.W, a)
        return v

    def __setitem__(self, a, v):
        if isinstance(a, slice):
            raise TypeError('slice access on RecMem')
        self.log.append('w:%d:%d' % (a, v))
        self.cells[a] = v

    def peek(self, a):
        v = self.cells.get(a)
        return bg(self.seed, self.W, a) if v is None else v


def run_driver(lines, timeout=3600):
    """Send request lines to the compiled Lean driver; return reply lines."""
    if not lines:
        return []
    data = ('\n'.join(lines) + '\n').encode('latin-1')
    p = subprocess.run([os.environ.get("PY65_DRIVER", DRIVER)], input=data, stdout=subprocess.PIPE, stderr=subprocess.PIPE,
                       timeout=timeout)
    if p.returncode != 0:
        raise RuntimeError('driver failed rc=%s: %s' % (p.returncode, p.stderr.decode()[:2000]))
    out = p.stdout.decode('latin-1').split('\n')
    if out and out[-1] == '':
        out.pop()
    if len(out) != len(lines):
        raise RuntimeError('driver returned %d lines for %d requests' % (len(out), len(lines)))
    return out


def tohex(s):
    if isinstance(s, str):
        s = s.encode('latin-1')
    return s.hex() if s else '-'


# ---------------------------------------------------------------------------------------
# CPU cases
# ---------------------------------------------------------------------------------------

def byte_classes(W):
    top = (1 << W) - 1
    vals = [0, 1, 2, 0x0f, 0x10, 0x7f, 0x80, 0xfe, 0xff]
    if W == 16:
        vals += [0x100, 0x7fff, 0x8000, 0xfffe, 0xffff, 0x0fff, 0x1000]
    return [v for v in vals if v <= top]


def rnd_byte(rng, W):
    r = rng.random()
    if r < 0.55:
        return rng.choice(byte_classes(W))
    return rng.randrange(1 << W)


def rnd_pc(rng, W):
    AW = 2 * W
    top = (1 << AW) - 1
    page = 1 << W
    r = rng.random()
    if r < 0.25:
        return rng.choice([top, top - 1, top - 2, top - 3, 0, 1, 2])
    if r < 0.5:
        base = rng.choice([page, 2 * page, 3 * page, rng.randrange(1, 1 << W) * page]) & top
        return (base + rng.choice([-3, -2, -1, 0, 1])) & top
    if r < 0.6:
        return (top - 6 + rng.randrange(7)) & top     # vectors
    if r < 0.7:
        return (page + rng.randrange(page)) & top     # inside the stack page
    return rng.randrange(1 << AW)


class Case(object):
    __slots__ = ('dev', 'ops', 'a', 'x', 'y', 'sp', 'p', 'pc', 'cycles', 'excycles',
                 'addcycles', 'waiting', 'seed', 'startpc', 'ov', 'tag')

    def line(self, kind='cpu'):
        ov = ','.join('%d:%d' % kv for kv in sorted(self.ov.items())) or '-'
        return '%s %s %s %d %d %d %d %d %d %d %d %d %d %d %s %s' % (
            kind, self.dev, ','.join(self.ops), self.a, self.x, self.y, self.sp, self.p, self.pc,
            self.cycles, self.excycles, self.addcycles, 1 if self.waiting else 0, self.seed,
            '-' if self.startpc is None else str(self.startpc), ov)

    def to_json(self):
        d = {k: getattr(self, k) for k in self.__slots__}
        d['ov'] = {str(k): v for k, v in self.ov.items()}
        return d

    @staticmethod
    def from_json(d):
        c = Case()
        for k in Case.__slots__:
            setattr(c, k, d.get(k))
        c.ov = {int(k): v for k, v in d['ov'].items()}
        return c


def gen_case(rng, dev, opcode=None, modes=None, ops=('step',), decimal=None):
    """One boundary-biased machine state.  `modes`: the device's live disassemble table (to aim
    operands and pointers at page/wrap boundaries)."""
    W, AW = widths(dev)
    bm, am = (1 << W) - 1, (1 << AW) - 1
    c = Case()
    c.dev, c.ops = dev, list(ops)
    c.a, c.x, c.y, c.sp = (rnd_byte(rng, W) for _ in range(4))
    c.p = rnd_byte(rng, W) if rng.random() < 0.3 else rng.randrange(1 << W)
    if dev != '65Org16':
        c.p &= 0xff
    if decimal is not None:
        c.p = (c.p | 8) if decimal else (c.p & ~8)
    elif dev == '65Org16':
        c.p &= ~8
    c.pc = rnd_pc(rng, W)
    c.cycles = rng.choice([0, 1, 7, rng.randrange(1 << 20)])
    c.excycles = rng.choice([0, 0, 1, 2])
    c.addcycles = rng.choice([0, 0, 1, 2])
    c.waiting = False
    c.seed = rng.randrange(1 << 30)
    c.startpc = None
    c.ov = {}
    c.tag = ''
    if opcode is None:
        return c
    c.ov[c.pc] = opcode
    mode = modes[opcode][1] if modes else 'imp'
    o1, o2 = (c.pc + 1) & am, (c.pc + 2) & am
    page = 1 << W

    def near_carry(idx):
        # operand low byte chosen so that lo + idx sits on/around the byte boundary
        return (bm - idx + rng.choice([-1, 0, 1, 2])) & bm

    r = rng.random()
    if mode in ('abx', 'aby', 'abs', 'ind', 'iax'):
        idx = c.x if mode in ('abx', 'iax') else c.y
        lo = near_carry(idx) if r < 0.5 else rnd_byte(rng, W)
        hi = rng.choice([0, 1, bm, bm - 1, rnd_byte(rng, W)])
        if mode in ('ind',) and r < 0.6:
            lo = bm  # JMP ($xxFF)
        c.ov[o1], c.ov[o2] = lo, hi
        ea = (lo + (hi << W) + (idx if mode in ('abx', 'aby', 'iax') else 0)) & am
        if rng.random() < 0.5:
            c.ov.setdefault(ea, rnd_byte(rng, W))
        if mode in ('ind', 'iax') and rng.random() < 0.7:
            c.ov.setdefault((ea + 1) & am, rnd_byte(rng, W))
            c.ov.setdefault((ea & ~bm) | ((ea + 1) & bm), rnd_byte(rng, W))
    elif mode in ('zpg', 'zpx', 'zpy', 'inx', 'iny', 'zpi'):
        idx = c.x if mode in ('zpx', 'inx') else (c.y if mode == 'zpy' else 0)
        zp = near_carry(idx) if r < 0.5 else rng.choice([bm, bm - 1, 0, rnd_byte(rng, W)])
        c.ov[o1] = zp
        ptr = (zp + idx) & bm
        if mode in ('inx', 'iny', 'zpi'):
            lo = near_carry(c.y) if (mode == 'iny' and rng.random() < 0.5) else rnd_byte(rng, W)
            hi = rng.choice([0, 1, bm, rnd_byte(rng, W)])
            c.ov.setdefault(ptr, lo)
            c.ov.setdefault((ptr + 1) & bm, hi)
            c.ov.setdefault(ptr + 1, rnd_byte(rng, W))   # the cell a non-wrapping fetch would hit
        else:
            if rng.random() < 0.6:
                c.ov.setdefault(ptr, rnd_byte(rng, W))
    elif mode == 'imm':
        c.ov[o1] = rnd_byte(rng, W)
    elif mode == 'rel':
        c.ov[o1] = rnd_byte(rng, W)
        if rng.random() < 0.5:
            # put pc near a page edge so that taken branches cross or just do not cross
            base = (c.pc & ~bm & am)
            newpc = (base + rng.choice([bm - 2, bm - 1, bm, 0, 1, (1 << (W - 1)) - 2,
                                        (1 << (W - 1))])) & am
            del c.ov[c.pc]
            if o1 in c.ov:
                d = c.ov.pop(o1)
            else:
                d = rnd_byte(rng, W)
            c.pc = newpc
            c.ov[c.pc] = opcode
            c.ov[(c.pc + 1) & am] = d
    # stack cells
    if rng.random() < 0.5:
        for k in (1, 2, 3):
            c.ov.setdefault(page + ((c.sp + k) & bm), rnd_byte(rng, W))
    # vectors
    if rng.random() < 0.3:
        for v in (0xfffa, 0xfffb, 0xfffc, 0xfffd, 0xfffe, 0xffff):
            c.ov.setdefault(v, rnd_byte(rng, W))
    # make sure the opcode survived operand placement at wrap-around
    c.ov[c.pc] = opcode
    return c


def real_run(case, classes=None):
    """Run the real device on `case`; same canonical text as the driver's reply."""
    classes = classes or device_classes()
    W, AW = widths(case.dev)
    mem = RecMem(case.seed, W, case.ov)
    mpu = classes[case.dev](memory=mem, pc=case.startpc)
    if case.startpc is None:
        pass
    mem.log = []
    mem.cells = dict(case.ov)
    mpu.a, mpu.x, mpu.y, mpu.sp, mpu.p, mpu.pc = case.a, case.x, case.y, case.sp, case.p, case.pc
    mpu.processorCycles = case.cycles
    mpu.excycles = case.excycles
    mpu.addcycles = case.addcycles
    if hasattr(mpu, 'waiting'):
        mpu.waiting = bool(case.waiting)
    outs = []
    try:
        for op in case.ops:
            if op == 'step' and not getattr(mpu, 'waiting', False) \
                    and not (0 <= mem.peek(mpu.pc) <= 255):
                outs.append('oob')
                break
            getattr(mpu, op)()
            outs.append('%d %d %d %d %d %d %d %d %d %d' % (
                mpu.a, mpu.x, mpu.y, mpu.sp, mpu.p, mpu.pc, mpu.processorCycles, mpu.excycles,
                int(mpu.addcycles), 1 if getattr(mpu, 'waiting', case.waiting) else 0))
    except Exception as ex:  # the model is total; a raise is a disagreement by itself
        return 'raise:%s:%s' % (type(ex).__name__, ex)
    return ';'.join(outs) + ' | ' + ' '.join(mem.log)


class Timer(object):
    def __init__(self):
        self.t0 = time.time()

    def s(self):
        return round(time.time() - self.t0, 3)


# ---------------------------------------------------------------------------------------
# monitor session history prologue (used by every monitor check)
# ---------------------------------------------------------------------------------------

_PROLOGUE_N = [0]


def history_prologue(dev):
    """-> (device to construct the Monitor with, [command lines to run before the scenario]).

    `mpu <dev>` and `reset` re-create the machine (`Monitor._reset`): a monitor started on another
    device and switched, or reset, is *documented* to be in the same state as one started with
    `-m <dev>` (fresh device, fresh zeroed memory, fresh address parser / assembler / disassembler of
    the device's widths, I/O mapped at the configured addresses); breakpoints and the mem width are
    session state that the prologue does not touch.  So every monitor scenario may be preceded by
    such a history without changing what it must do; state that wrongly survives a switch (a parser
    of the old width, a disassembler bound to the discarded device, ...) then shows up in the
    ordinary comparison.  Deterministic: derived from VERIF_SEED and a per-process counter."""
    _PROLOGUE_N[0] += 1
    seed = int(os.environ.get('VERIF_SEED', '0') or 0)
    h = ((_PROLOGUE_N[0] * 2654435761) ^ (seed * 40503 + 12345)) % 1000003
    r = h % 100
    others = [d for d in DEVNAMES if d != dev]
    o = others[(h // 100) % len(others)]
    if os.environ.get('VERIF_NO_PROLOGUE'):
        return dev, []
    listing = (h // 7) % 5 == 0
    f = os.environ.get('VERIF_FORCE_PROLOGUE')
    if f:                       # replays try every variant (check.py --replay)
        r = [0, 60, 80, 90, 97][int(f) % 5]
        o = others[(int(f) // 5) % len(others)]
        listing = (int(f) // 10) % 2 == 1
    # display commands change nothing: a listing of the LAST cell of the address space holding a 3-byte opcode
    # (its operand bytes wrap to address 0), with that cell restored afterwards, leaves the documented state
    # of a fresh monitor (seeded change C12-5 swapped the device's memory for the listing and did not put it
    # back when the listing raised)
    top = 'ffffffff' if dev == '65Org16' else 'ffff'
    tail = ['fill %s ad' % top, 'disassemble %s' % top, 'fill %s 0' % top] if listing else []
    if r < 50:
        return dev, tail
    if r < 75:
        return o, ['mpu %s' % dev] + tail
    if r < 85:
        return dev, ['reset'] + tail
    if r < 95:
        return o, ['mpu %s' % dev.lower(), 'reset'] + tail
    return dev, ['mpu %s' % o, 'mpu %s' % dev] + tail
