#!/usr/bin/env python3
"""py2lean_asm -- translate py65/assembler.py (class Assembler) to Lean 4.

    py2lean_asm.py --out <dir> --report <json> [--source <assembler.py>]

Reads `$PY65_REPO/py65/assembler.py` (default /repo), parses it with `ast` (comments, docstrings,
blank lines and formatting never matter) and writes `<dir>/AsmGen.lean`, namespace `Py65.Gen.AsmGen`:

  Statement            the class attribute: `re.compile(<literal>)`; the literal must be, character for
                       character, a key of REGEX_TABLE (-> the hand model's scanner `AsmRt.reStatement`)
  Addressing           the ordered (mode, template) table, element by element from the AST
  init_addressing      `self._addressing` as built by `__init__` (a fold over `Addressing`; the template
                       -> pattern construction, recognised SYMBOLICALLY -- "^" + re.escape(format) + "$",
                       .replace('00', '0{%d}' % numchars), .replace('FF', '([0-9A-F]{%d})' % numchars),
                       re.compile -- maps to the ONE helper `AsmRt.templatePattern numchars format`)
  normalize_and_split  statement by statement
  assemble             statement by statement

Translation scheme (shallow embedding; the run-time support is lean/Py65/Model/AsmRt.lean):
  * a function body is `AsmRt.runFn do …` in the monad `PyM ρ = Except (Sig ρ)` whose abrupt completions
    are a raised exception, `continue` and `return v`;
  * a simple statement becomes one `let` (preceded by the `let _tN ← …` of its sub-expressions that can
    raise, in CPython's evaluation order -- A-normal form);
  * `if` / `try` / `if <match object>` become ONE expression yielding the tuple of the variables that
    are assigned inside and still needed afterwards (SSA phi-tuple); a branch that does not assign such a
    variable yields its current value, and it is a refusal when there is none;
  * `for x, y in <list>:` becomes `AsmRt.forEach <list> (fun (x, y) => do …)`; a variable assigned in the
    body and needed after the loop or in a later iteration is a refusal;
  * `try: … except E: …` (one handler, E in {ValueError, IndexError}, handler ends in raise/continue);
  * Lean binders carry the Python names (a consistent rename of a local changes nothing for the proofs).

LIBRARY behaviour is not translated but mapped to a named helper of the hand model (AsmRt.*): the
`Statement` regular expression, the template patterns, `str.split()`, `sep.join`, `s[i]`, `s[i:]`, `ord`,
`startswith`, `split(" ", 1)`, 2-unpacking, `fmt % n`, `int(s, 16)`, `list.index`, `len`, `strip`,
`upper`, `AddressParser.number`.  Everything else -- an unknown statement kind, attribute, method, call,
operator, a different regex literal, different replace strings or order, extra class or instance state,
a decorator, a new method, a write to `self` outside `__init__` -- is a REFUSAL: exit code 3 and
`{"ok": false, "error": …, "where": "file:line", "function": …}` in the report.
"""
import argparse
import ast
import hashlib
import json
import os
import sys

REL = 'py65/assembler.py'


class Refuse(Exception):
    def __init__(self, msg, node=None, func=None):
        Exception.__init__(self, msg)
        self.msg, self.node, self.func = msg, node, func


# ---------------------------------------------------------------------------------------
# tables of the accepted library surface
# ---------------------------------------------------------------------------------------

# regex literal (exact pattern text) -> (Lean helper, type of the match result)
REGEX_TABLE = {
    r'^([A-z]{3}[0-7]?\s+\(?\s*)([^,\s\)]+)(\s*[,xXyY\s]*\)?[,xXyY\s]*)$': ('AsmRt.reStatement', 'Opt3'),
}

# attributes of the MPU object the assembler may read: python name -> (Lean field, type)
MPU_ATTRS = {
    'byteMask': ('byteMask', 'Int'), 'addrMask': ('addrMask', 'Int'),
    'BYTE_WIDTH': ('byteWidth', 'Nat'), 'ADDR_WIDTH': ('addrWidth', 'Nat'),
    'BYTE_FORMAT': ('byteFmt', 'Str'), 'ADDR_FORMAT': ('addrFmt', 'Str'),
    'disassemble': ('table', 'Table'),
}

# the translated methods: name -> (parameter types, result type)
METHODS = {
    'normalize_and_split': (['Str'], 'PairStr'),
    'assemble': (['Str', 'Int'], 'ListInt'),
}
LEAN_TYPE = {
    'Str': 'Str', 'Int': 'Int', 'Nat': 'Nat', 'PairStr': 'Str × Str', 'ListInt': 'List Int',
    'ListStr': 'List Str', 'Dev': 'Dev', 'Parser': 'Parser',
}
EXC = {'SyntaxError': '.syntaxError', 'OverflowError': '.overflowError', 'ValueError': '(.valueError "")',
       'IndexError': '.indexError'}
HANDLERS = {'ValueError': 'AsmRt.Exc.isValueError', 'IndexError': 'AsmRt.Exc.isIndexError'}

# the template -> pattern construction of __init__, as a symbolic value ('F' = the template variable,
# 'N' = the numchars variable)
TEMPLATE_SYM = ('replace',
                ('replace',
                 ('add', ('add', ('const', '^'), ('escape', 'F')), ('const', '$')),
                 '00', ('pct', '0{%d}', 'N')),
                'FF', ('pct', '([0-9A-F]{%d})', 'N'))

LEAN_RESERVED = set('''
at by calc class def deriving do else end example export extends for from fun have if import in
inductive infix infixl infixr instance let match mut mutual namespace nomatch nofun notation open
partial postfix prefix private protected return section set_option show structure syntax then theorem
unless universe using variable where with macro attribute break continue try catch finally unsafe
noncomputable abbrev axiom opaque Type Prop Sort pure strip upperS Statement Addressing init_addressing
AsmRt Asm Py Str Dev Parser List Int Nat Option Except some none true false
'''.split())


def lname(py):
    if not py.isascii() or not py.isidentifier():
        raise Refuse('identifier %r is not plain ASCII' % py)
    if py.startswith('_t') and py[2:].isdigit():
        raise Refuse('identifier %r collides with the translator\'s temporaries' % py)
    if py in LEAN_RESERVED:
        return py + '_'
    return py


def lstr(s):
    """Lean term for a Python str constant, as a character list."""
    out = []
    for c in s:
        if c in '\\"':
            out.append('\\' + c)
        elif 32 <= ord(c) < 127:
            out.append(c)
        elif c == '\n':
            out.append('\\n')
        elif c == '\t':
            out.append('\\t')
        else:
            out.append('\\u{%x}' % ord(c))
    return '"%s".toList' % ''.join(out)


def strip_outer(code):
    """Remove one pair of parentheses that encloses the whole term."""
    if len(code) >= 2 and code[0] == '(' and code[-1] == ')':
        depth = 0
        instr = False
        i = 0
        while i < len(code):
            c = code[i]
            if instr:
                if c == '\\':
                    i += 1
                elif c == '"':
                    instr = False
            elif c == '"':
                instr = True
            elif c == '(':
                depth += 1
            elif c == ')':
                depth -= 1
                if depth == 0 and i != len(code) - 1:
                    return code
            i += 1
        return code[1:-1]
    return code


def loads(nodes):
    out = set()
    for n in nodes:
        for m in ast.walk(n):
            if isinstance(m, ast.Name) and isinstance(m.ctx, ast.Load):
                out.add(m.id)
    return out


def stores(nodes):
    """Names assigned anywhere inside the statements, in order of first occurrence."""
    out = []

    def add(t):
        if isinstance(t, ast.Name):
            if t.id not in out:
                out.append(t.id)
        elif isinstance(t, (ast.Tuple, ast.List)):
            for e in t.elts:
                add(e)

    class V(ast.NodeVisitor):
        def visit_Assign(self, n):
            for t in n.targets:
                add(t)
            self.generic_visit(n)

        def visit_AugAssign(self, n):
            add(n.target)
            self.generic_visit(n)

        def visit_For(self, n):
            add(n.target)
            self.generic_visit(n)

        def visit_Expr(self, n):
            # NAME.extend(...) rebinds NAME in the embedding
            c = n.value
            if (isinstance(c, ast.Call) and isinstance(c.func, ast.Attribute) and c.func.attr in ('extend', 'append')
                    and isinstance(c.func.value, ast.Name)):
                add(c.func.value)
            self.generic_visit(n)

        def visit_NamedExpr(self, n):
            raise Refuse('assignment expression', n)

    for n in nodes:
        V().visit(n)
    return out


# ---------------------------------------------------------------------------------------
# method bodies
# ---------------------------------------------------------------------------------------

class Fn(object):
    """Translator of one method body.  env: python name -> (lean name, type)."""

    def __init__(self, cls, name):
        self.cls, self.name = cls, name
        self.ntmp = 0
        self.loop = 0

    def tmp(self):
        self.ntmp += 1
        return '_t%d' % self.ntmp

    def refuse(self, msg, node=None):
        raise Refuse(msg, node, self.name)

    # ----- expressions: (pre-statements, term, type) -----

    def ex(self, n, env):
        if isinstance(n, ast.Constant):
            if isinstance(n.value, bool) or n.value is None:
                self.refuse('constant %r' % (n.value,), n)
            if isinstance(n.value, str):
                return [], lstr(n.value), 'Str'
            if isinstance(n.value, int):
                return [], ('(%d : Int)' % n.value), 'Int'
            self.refuse('constant of type %s' % type(n.value).__name__, n)
        if isinstance(n, ast.Name):
            if n.id not in env:
                self.refuse('name %r is not a bound local here' % n.id, n)
            ln, ty = env[n.id]
            return [], ln, ty
        if isinstance(n, ast.Attribute):
            return self.ex_attr(n, env)
        if isinstance(n, ast.BinOp):
            return self.ex_binop(n, env)
        if isinstance(n, ast.UnaryOp):
            pre, a, ta = self.ex(n.operand, env)
            if isinstance(n.op, ast.USub) and ta == 'Int':
                return pre, '(-%s)' % a, 'Int'
            if isinstance(n.op, ast.Not) and ta == 'Cond':
                return pre, '(¬ %s)' % a, 'Cond'
            self.refuse('unary operator %s on %s' % (type(n.op).__name__, ta), n)
        if isinstance(n, ast.BoolOp):
            sym = ' ∨ ' if isinstance(n.op, ast.Or) else ' ∧ '
            pre, parts = [], []
            for i, v in enumerate(n.values):
                p, c, t = self.ex(v, env)
                if t != 'Cond':
                    self.refuse('truth value of a %s in and/or' % t, v)
                if p and i > 0:
                    self.refuse('an operand of and/or after the first one can raise (short-circuit evaluation)', v)
                pre += p
                parts.append(c)
            return pre, '(' + sym.join(parts) + ')', 'Cond'
        if isinstance(n, ast.Compare):
            return self.ex_compare(n, env)
        if isinstance(n, ast.Subscript):
            return self.ex_subscript(n, env)
        if isinstance(n, ast.Call):
            return self.ex_call(n, env)
        if isinstance(n, ast.Tuple):
            # a tuple of strings held in a variable is a sequence of strings
            pre, cs = [], []
            for e in n.elts:
                p, c, t = self.ex(e, env)
                if t != 'Str':
                    self.refuse('tuple element of type %s' % t, e)
                pre += p
                cs.append(strip_outer(c))
            return pre, '[' + ', '.join(cs) + ']', 'ListStr'
        if isinstance(n, ast.List):
            pre, cs, ts = [], [], set()
            for e in n.elts:
                p, c, t = self.ex(e, env)
                pre += p
                cs.append(strip_outer(c))
                ts.add(t)
            if ts == {'Str'}:
                return pre, '[' + ', '.join(cs) + ']', 'ListStr'
            if ts == {'Int'}:
                return pre, '[' + ', '.join(cs) + ']', 'ListInt'
            self.refuse('list display with element types %s' % sorted(ts), n)
        if isinstance(n, ast.ListComp):
            return self.ex_listcomp(n, env)
        self.refuse('expression %s' % type(n).__name__, n)

    def ex_attr(self, n, env):
        v = n.value
        if isinstance(v, ast.Name) and v.id == 'self':
            if n.attr in self.cls.selfattrs:
                ln, ty = self.cls.selfattrs[n.attr]
                return [], ln, ty
            self.refuse('unknown attribute self.%s' % n.attr, n)
        pre, a, ta = self.ex(v, env)
        if ta == 'Dev':
            if n.attr in MPU_ATTRS:
                f, ty = MPU_ATTRS[n.attr]
                return pre, '%s.%s' % (a, f), ty
            self.refuse('unknown MPU attribute .%s' % n.attr, n)
        self.refuse('attribute .%s of a %s' % (n.attr, ta), n)

    def ex_binop(self, n, env):
        op = type(n.op).__name__
        p1, a, ta = self.ex(n.left, env)
        p2, b, tb = self.ex(n.right, env)
        pre = p1 + p2
        if op == 'Add' and ta == tb == 'Str':
            return pre, '(%s ++ %s)' % (a, b), 'Str'
        if op in ('Add', 'Sub') and ta == tb == 'Int':
            return pre, '(%s %s %s)' % (a, '+' if op == 'Add' else '-', b), 'Int'
        if op in ('BitAnd', 'BitOr', 'BitXor') and ta == tb == 'Int':
            f = {'BitAnd': 'Py.land', 'BitOr': 'Py.lor', 'BitXor': 'Py.lxor'}[op]
            return pre, '(%s %s %s)' % (f, a, b), 'Int'
        if op in ('RShift', 'LShift') and ta == 'Int':
            k = n.right
            if not (isinstance(k, ast.Constant) and isinstance(k.value, int) and not isinstance(k.value, bool)
                    and k.value >= 0):
                self.refuse('shift by a non-literal count', n)
            return p1, '(%s %s %d)' % ('Py.shr' if op == 'RShift' else 'Py.shl', a, k.value), 'Int'
        if op == 'Pow' and tb == 'Nat':
            k = n.left
            if isinstance(k, ast.Constant) and isinstance(k.value, int) and not isinstance(k.value, bool) \
                    and k.value >= 0:
                return p2, '((%d : Int) ^ %s)' % (k.value, b), 'Int'
            self.refuse('power with a non-literal base', n)
        if op == 'Mod' and ta == 'Str' and tb == 'Int':
            t = self.tmp()
            return pre + ['let %s ← AsmRt.fmt %s %s' % (t, a, b)], t, 'Str'
        self.refuse('operator %s on (%s, %s)' % (op, ta, tb), n)

    def ex_compare(self, n, env):
        if len(n.ops) != 1:
            self.refuse('chained comparison', n)
        op = type(n.ops[0]).__name__
        right = n.comparators[0]
        p1, a, ta = self.ex(n.left, env)
        if op in ('In', 'NotIn'):
            if not isinstance(right, ast.Tuple) or not right.elts:
                self.refuse('`in` with something that is not a tuple display', n)
            pre, alts = list(p1), []
            for e in right.elts:
                p, c, t = self.ex(e, env)
                if t != ta or t != 'Str':
                    self.refuse('`in` between %s and %s' % (ta, t), e)
                pre += p
                alts.append('%s = %s' % (a, c))
            body = '(' + ' ∨ '.join(alts) + ')'
            return pre, (body if op == 'In' else '(¬ %s)' % body), 'Cond'
        p2, b, tb = self.ex(right, env)
        pre = p1 + p2
        rel = {'Lt': '<', 'LtE': '≤', 'Gt': '>', 'GtE': '≥'}
        if op in rel and ta == tb == 'Int':
            return pre, '(%s %s %s)' % (a, rel[op], b), 'Cond'
        if op in ('Eq', 'NotEq') and ta == tb and ta in ('Str', 'Int'):
            return pre, '(%s %s %s)' % (a, '=' if op == 'Eq' else '≠', b), 'Cond'
        self.refuse('comparison %s on (%s, %s)' % (op, ta, tb), n)

    def ex_subscript(self, n, env):
        pre, a, ta = self.ex(n.value, env)
        s = n.slice
        if isinstance(s, ast.Slice):
            if s.upper is not None or s.step is not None or not self.natlit(s.lower) or ta != 'Str':
                self.refuse('slice other than str[<literal>:]', n)
            return pre, '(AsmRt.sliceFrom %s %d)' % (a, s.lower.value), 'Str'
        if not self.natlit(s):
            self.refuse('subscript that is not a literal index >= 0', n)
        t = self.tmp()
        if ta == 'Str':
            return pre + ['let %s ← AsmRt.strGet %s %d' % (t, a, s.value)], t, 'Str'
        if ta == 'ListStr':
            return pre + ['let %s ← AsmRt.listGet %s %d' % (t, a, s.value)], t, 'Str'
        self.refuse('indexing of a %s' % ta, n)

    @staticmethod
    def natlit(n):
        return (isinstance(n, ast.Constant) and isinstance(n.value, int) and not isinstance(n.value, bool)
                and n.value >= 0)

    def ex_call(self, n, env):
        if n.keywords:
            self.refuse('keyword arguments', n)
        f = n.func
        args = n.args
        if isinstance(f, ast.Name):
            if f.id in env:
                self.refuse('call of the local %r' % f.id, n)
            if f.id == 'ord' and len(args) == 1:
                pre, a, ta = self.ex(args[0], env)
                if ta != 'Str':
                    self.refuse('ord of a %s' % ta, n)
                t = self.tmp()
                return pre + ['let %s ← AsmRt.ord %s' % (t, a)], t, 'Int'
            if f.id == 'len' and len(args) == 1:
                pre, a, ta = self.ex(args[0], env)
                if ta not in ('ListStr', 'ListInt'):
                    self.refuse('len of a %s' % ta, n)
                return pre, '(AsmRt.len %s)' % a, 'Int'
            if f.id == 'int' and len(args) == 2 and self.natlit(args[1]) and 2 <= args[1].value <= 36:
                pre, a, ta = self.ex(args[0], env)
                if ta != 'Str':
                    self.refuse('int() of a %s' % ta, n)
                t = self.tmp()
                return pre + ['let %s ← AsmRt.int %s %d' % (t, a, args[1].value)], t, 'Int'
            self.refuse('call of %s/%d' % (f.id, len(args)), n)
        if not isinstance(f, ast.Attribute):
            self.refuse('call of a computed function', n)
        meth = f.attr
        recv = f.value
        # self.<method>(...)
        if isinstance(recv, ast.Name) and recv.id == 'self':
            if meth in self.cls.methods and meth in METHODS:
                ptys, rty = METHODS[meth]
                if len(args) != len(ptys):
                    self.refuse('self.%s called with %d arguments' % (meth, len(args)), n)
                pre, cs = [], []
                for a, want in zip(args, ptys):
                    p, c, t = self.ex(a, env)
                    if t != want:
                        self.refuse('argument of type %s for a %s parameter of %s' % (t, want, meth), a)
                    pre += p
                    cs.append(c)
                t = self.tmp()
                return (pre + ['let %s ← AsmRt.call (%s %s %s)' % (t, meth, self.cls.state_args(), ' '.join(cs))],
                        t, rty)
            self.refuse('unknown method self.%s' % meth, n)
        # string constant receiver: sep.join(x)
        if isinstance(recv, ast.Constant) and isinstance(recv.value, str) and meth == 'join' and len(args) == 1:
            pre, a, ta = self.ex(args[0], env)
            if ta != 'ListStr':
                self.refuse('join over a %s' % ta, n)
            return pre, '(AsmRt.join %s %s)' % (lstr(recv.value), a), 'Str'
        pre, r, tr = self.ex(recv, env)
        if tr == 'Str':
            if meth == 'split' and not args:
                return pre, '(AsmRt.split %s)' % r, 'ListStr'
            if (meth == 'split' and len(args) == 2 and isinstance(args[0], ast.Constant) and args[0].value == ' '
                    and self.natlit(args[1]) and args[1].value == 1):
                return pre, '(AsmRt.splitSp1L %s)' % r, 'ListStr'
            if meth == 'startswith' and len(args) == 1 and isinstance(args[0], ast.Constant) \
                    and isinstance(args[0].value, str):
                return pre, '(AsmRt.startswith %s %s)' % (r, lstr(args[0].value)), 'Cond'
            if meth == 'strip' and not args:
                return pre, '(strip %s)' % r, 'Str'
            if meth == 'upper' and not args:
                return pre, '(upperS %s)' % r, 'Str'
            self.refuse('str method .%s/%d' % (meth, len(args)), n)
        if tr in ('Regex3', 'Pattern') and meth == 'match' and len(args) == 1:
            p, a, ta = self.ex(args[0], env)
            if ta != 'Str':
                self.refuse('match against a %s' % ta, n)
            return pre + p, '(%s %s)' % (r, a), ('Opt3' if tr == 'Regex3' else 'OptL')
        if tr in ('Match3', 'MatchL') and meth == 'groups' and not args:
            return pre, r, ('G3' if tr == 'Match3' else 'ListStr')
        if tr == 'Parser' and meth == 'number' and len(args) == 1:
            p, a, ta = self.ex(args[0], env)
            if ta != 'Str':
                self.refuse('number() of a %s' % ta, n)
            t = self.tmp()
            return pre + p + ['let %s ← AsmRt.number %s %s' % (t, r, a)], t, 'Int'
        if tr == 'Table' and meth == 'index' and len(args) == 1 and isinstance(args[0], ast.Tuple) \
                and len(args[0].elts) == 2:
            p1, a, ta = self.ex(args[0].elts[0], env)
            p2, b, tb = self.ex(args[0].elts[1], env)
            if ta != 'Str' or tb != 'Str':
                self.refuse('index of a (%s, %s) pair' % (ta, tb), n)
            t = self.tmp()
            return pre + p1 + p2 + ['let %s ← AsmRt.index %s (%s, %s)' % (t, r, a, b)], t, 'Int'
        self.refuse('method .%s/%d of a %s' % (meth, len(args), tr), n)

    def ex_listcomp(self, n, env):
        if len(n.generators) != 1:
            self.refuse('comprehension with several generators', n)
        g = n.generators[0]
        if g.ifs or g.is_async or not isinstance(g.target, ast.Name):
            self.refuse('comprehension with a condition or a structured target', n)
        pre, xs, tx = self.ex(g.iter, env)
        if tx != 'ListStr':
            self.refuse('comprehension over a %s' % tx, n)
        v = lname(g.target.id)
        env2 = dict(env)
        env2[g.target.id] = (v, 'Str')
        p, c, t = self.ex(n.elt, env2)
        if t != 'Int':
            self.refuse('comprehension producing %s' % t, n)
        tmp = self.tmp()
        if len(p) == 1 and p[0].startswith('let %s ← ' % c):
            body = p[0][len('let %s ← ' % c):]
            return pre + ['let %s ← AsmRt.listComp (fun %s => %s) %s' % (tmp, v, body, xs)], tmp, 'ListInt'
        if not p:
            return pre + ['let %s ← AsmRt.listComp (fun %s => pure %s) %s' % (tmp, v, c, xs)], tmp, 'ListInt'
        body = '; '.join(p + ['pure %s' % c])
        return pre + ['let %s ← AsmRt.listComp (fun %s => do %s) %s' % (tmp, v, body, xs)], tmp, 'ListInt'

    # ----- statements -----

    def tup(self, names, env, node=None):
        for v in names:
            if v not in env:
                self.refuse('variable %r may be unbound where its value is needed' % v, node)
        if not names:
            return '()'
        if len(names) == 1:
            return env[names[0]][0]
        return '(' + ', '.join(env[v][0] for v in names) + ')'

    def pat(self, names):
        if len(names) == 1:
            return lname(names[0])
        return '(' + ', '.join(lname(v) for v in names) + ')'

    def block(self, stmts, env, out, ind, node=None):
        """Translate a statement list.  Returns (lines, completes normally, env at the end)."""
        lines = []
        env = dict(env)
        alive = True
        for i, st in enumerate(stmts):
            if not alive:
                self.refuse('statement after raise/return/continue', st)
            later = loads(stmts[i + 1:]) | set(out)
            self.unit_expr = False
            alive = self.stmt(st, env, later, ind, lines)
        if alive and not (stmts and not out and self.unit_expr):
            # (a block whose last statement is a compound statement without phi variables already has type Unit)
            lines.append(ind + 'pure ' + self.tup(out, env, node or (stmts[-1] if stmts else None)))
        return lines, alive, env

    def emit_pre(self, pre, ind, lines):
        for p in pre:
            lines.append(ind + p)

    def phi(self, st, bodies, later):
        return [v for v in stores(bodies) if v in later]

    def merge_types(self, names, envs, node):
        out = {}
        for v in names:
            ts = set(e[v][1] for e in envs if v in e)
            if len(ts) != 1:
                self.refuse('variable %r has different types on different paths: %s' % (v, sorted(ts)), node)
            out[v] = ts.pop()
        return out

    def stmt(self, st, env, later, ind, lines):
        """Append the translation of one statement; update env; return False if it never completes normally."""
        if isinstance(st, ast.Expr):
            c = st.value
            if isinstance(c, ast.Constant) and isinstance(c.value, str):
                return True                      # docstring
            if (isinstance(c, ast.Call) and isinstance(c.func, ast.Attribute) and c.func.attr == 'extend'
                    and isinstance(c.func.value, ast.Name) and len(c.args) == 1 and not c.keywords):
                x = c.func.value.id
                if x not in env or env[x][1] != 'ListInt' or x not in env['#fresh']:
                    self.refuse('extend on something that is not a local list built in this function', st)
                pre, a, ta = self.ex(c.args[0], env)
                if ta != 'ListInt':
                    self.refuse('extend with a %s' % ta, st)
                self.emit_pre(pre, ind, lines)
                lines.append(ind + 'let %s := %s ++ %s' % (env[x][0], env[x][0], a))
                return True
            self.refuse('expression statement', st)
        if isinstance(st, ast.Pass):
            return True
        if isinstance(st, ast.Assign):
            if len(st.targets) != 1:
                self.refuse('chained assignment', st)
            tg = st.targets[0]
            if isinstance(tg, ast.Name):
                if tg.id == 'self':
                    self.refuse('assignment to self', st)
                pre, c, t = self.ex(st.value, env)
                if t in ('Cond', 'Regex3', 'Pattern', 'Match3', 'MatchL', 'Dev', 'Parser', 'Table'):
                    self.refuse('a value of type %s stored in a variable' % t, st)
                self.emit_pre(pre, ind, lines)
                ln = lname(tg.id)
                lines.append(ind + 'let %s := %s' % (ln, strip_outer(c)))
                env[tg.id] = (ln, t)
                fr = set(env['#fresh'])
                if isinstance(st.value, ast.List):
                    fr.add(tg.id)           # a list display is a new, unaliased list object
                else:
                    fr.discard(tg.id)
                if isinstance(st.value, ast.Name):
                    fr.discard(st.value.id)  # aliased from now on
                env['#fresh'] = frozenset(fr)
                return True
            if isinstance(tg, ast.Tuple) and all(isinstance(e, ast.Name) for e in tg.elts):
                names = [e.id for e in tg.elts]
                if len(set(names)) != len(names) or 'self' in names:
                    self.refuse('unpacking target', st)
                pre, c, t = self.ex(st.value, env)
                self.emit_pre(pre, ind, lines)
                if t == 'G3' and len(names) == 3:
                    tys = ['Str'] * 3
                elif t == 'PairStr' and len(names) == 2:
                    tys = ['Str'] * 2
                elif t == 'ListStr' and len(names) == 2:
                    tt = self.tmp()
                    lines.append(ind + 'let %s ← AsmRt.unpack2 %s' % (tt, c))
                    c, tys = tt, ['Str'] * 2
                else:
                    self.refuse('unpacking a %s into %d names' % (t, len(names)), st)
                lines.append(ind + 'let %s := %s' % (self.pat(names), strip_outer(c)))
                for v, ty in zip(names, tys):
                    env[v] = (lname(v), ty)
                env['#fresh'] = env['#fresh'] - set(names)
                return True
            self.refuse('assignment target %s' % type(tg).__name__, st)
        if isinstance(st, ast.AugAssign):
            if not isinstance(st.target, ast.Name) or st.target.id not in env:
                self.refuse('augmented assignment target', st)
            x = st.target.id
            ln, tx = env[x]
            pre, c, t = self.ex(st.value, env)
            if tx != 'Int' or t != 'Int' or not isinstance(st.op, (ast.Add, ast.Sub)):
                self.refuse('augmented assignment %s on (%s, %s)' % (type(st.op).__name__, tx, t), st)
            self.emit_pre(pre, ind, lines)
            lines.append(ind + 'let %s := %s %s %s' % (ln, ln, '+' if isinstance(st.op, ast.Add) else '-', c))
            return True
        if isinstance(st, ast.Raise):
            if st.cause is not None or st.exc is None:
                self.refuse('raise form', st)
            e = st.exc
            if isinstance(e, ast.Call) and isinstance(e.func, ast.Name) and not e.keywords:
                for a in e.args:
                    p, _, _ = self.ex(a, env)
                    if p:
                        self.refuse('exception argument that can raise', st)
                e = e.func
            if not (isinstance(e, ast.Name) and e.id in EXC and e.id not in env):
                self.refuse('raise of something that is not SyntaxError/OverflowError/ValueError/IndexError', st)
            lines.append(ind + 'AsmRt.raise %s' % EXC[e.id])
            return False
        if isinstance(st, ast.Continue):
            if not self.loop:
                self.refuse('continue outside a loop', st)
            lines.append(ind + 'AsmRt.continue_')
            return False
        if isinstance(st, ast.Return):
            if self.name not in METHODS or st.value is None:
                self.refuse('return form', st)
            rty = METHODS[self.name][1]
            if rty == 'PairStr':
                v = st.value
                if not (isinstance(v, ast.Tuple) and len(v.elts) == 2):
                    self.refuse('return value is not a pair', st)
                p1, a, ta = self.ex(v.elts[0], env)
                p2, b, tb = self.ex(v.elts[1], env)
                if ta != 'Str' or tb != 'Str':
                    self.refuse('return of a (%s, %s) pair' % (ta, tb), st)
                self.emit_pre(p1 + p2, ind, lines)
                lines.append(ind + 'AsmRt.return_ (%s, %s)' % (strip_outer(a), strip_outer(b)))
            else:
                pre, c, t = self.ex(st.value, env)
                if t != rty:
                    self.refuse('return of a %s, expected %s' % (t, rty), st)
                self.emit_pre(pre, ind, lines)
                lines.append(ind + 'AsmRt.return_ %s' % c)
            return False
        if isinstance(st, ast.If):
            return self.stmt_if(st, env, later, ind, lines)
        if isinstance(st, ast.Try):
            return self.stmt_try(st, env, later, ind, lines)
        if isinstance(st, ast.For):
            return self.stmt_for(st, env, later, ind, lines)
        self.refuse('statement %s' % type(st).__name__, st)

    def bind_phi(self, names, ind):
        if not names:
            return ind
        return ind + 'let %s ← ' % self.pat(names)

    def finish_phi(self, names, envs, env, st):
        self.unit_expr = not names
        tys = self.merge_types(names, envs, st)
        fr = set(env['#fresh'])
        for v in names:
            env[v] = (lname(v), tys[v])
            if envs and all(v in e['#fresh'] for e in envs):
                fr.add(v)
            else:
                fr.discard(v)
        env['#fresh'] = frozenset(fr)

    def stmt_if(self, st, env, later, ind, lines):
        names = self.phi(st, st.body + st.orelse, later)
        # `if <match object>:`
        if isinstance(st.test, ast.Name) and st.test.id in env and env[st.test.id][1] in ('Opt3', 'OptL'):
            ln, t = env[st.test.id]
            if st.test.id in stores(st.body + st.orelse):
                self.refuse('the match object is reassigned inside the if that tests it', st)
            g = ln.rstrip('_') + '_g'
            if any(k != '#fresh' and v[0] == g for k, v in env.items()) or g in stores([st]):
                self.refuse('local name %r collides with the name of the match groups' % g, st)
            env1 = dict(env)
            env1[st.test.id] = (g, 'Match3' if t == 'Opt3' else 'MatchL')
            b1, a1, e1 = self.block(st.body, env1, names, ind + '    ', st)
            lines.append(self.bind_phi(names, ind) + '(match %s with' % ln)
            lines.append(ind + '  | some %s => do' % g)
            lines += b1
            if st.orelse:
                b2, a2, e2 = self.block(st.orelse, env, names, ind + '    ', st)
                lines.append(ind + '  | none => do')
                lines += b2
            else:
                a2, e2 = True, env
                lines.append(ind + '  | none => pure %s' % self.tup(names, env, st))
            lines[-1] += ')'
            self.finish_phi(names, [e for e, a in ((e1, a1), (e2, a2)) if a], env, st)
            return a1 or a2
        pre, c, t = self.ex(st.test, env)
        if t != 'Cond':
            self.refuse('truth value of a %s' % t, st.test)
        self.emit_pre(pre, ind, lines)
        envs = []
        alive = False
        head = self.bind_phi(names, ind) + '(if %s then do' % strip_outer(c)
        cur = st
        while True:
            b1, a1, e1 = self.block(cur.body, env, names, ind + '    ', cur)
            lines.append(head)
            lines += b1
            if a1:
                envs.append(e1)
                alive = True
            orelse = cur.orelse
            if len(orelse) == 1 and isinstance(orelse[0], ast.If) and not (
                    isinstance(orelse[0].test, ast.Name) and orelse[0].test.id in env
                    and env[orelse[0].test.id][1] in ('Opt3', 'OptL')):
                saved = self.ntmp
                p2, c2, t2 = self.ex(orelse[0].test, env)
                if t2 != 'Cond':
                    self.refuse('truth value of a %s' % t2, orelse[0].test)
                if not p2:
                    cur = orelse[0]
                    head = ind + '  else if %s then do' % strip_outer(c2)
                    continue
                # the elif condition can raise: it is evaluated inside the else branch
                self.ntmp = saved
            if orelse:
                b2, a2, e2 = self.block(orelse, env, names, ind + '    ', cur)
                lines.append(ind + '  else do')
                lines += b2
                if a2:
                    envs.append(e2)
                    alive = True
            else:
                lines.append(ind + '  else pure %s' % self.tup(names, env, cur))
                envs.append(env)
                alive = True
            break
        lines[-1] += ')'
        self.finish_phi(names, envs, env, st)
        return alive

    def stmt_try(self, st, env, later, ind, lines):
        if st.orelse or st.finalbody or len(st.handlers) != 1:
            self.refuse('try with else/finally or several handlers', st)
        h = st.handlers[0]
        if h.name is not None or not (isinstance(h.type, ast.Name) and h.type.id in HANDLERS):
            self.refuse('exception handler other than `except ValueError:` / `except IndexError:`', h)
        assigned = stores(st.body)
        if set(assigned) & loads(h.body):
            self.refuse('the handler reads a variable assigned in the try body', h)
        names = self.phi(st, st.body + h.body, later)
        b1, a1, e1 = self.block(st.body, env, names, ind + '    ', st)
        b2, a2, e2 = self.block(h.body, env, names, ind + '    ', h)
        if a2:
            self.refuse('an exception handler that does not end in raise/continue/return', h)
        lines.append(self.bind_phi(names, ind) + 'AsmRt.tryExcept (do')
        lines += b1
        lines[-1] += ')'
        lines.append(ind + '  %s (do' % HANDLERS[h.type.id])
        lines += b2
        lines[-1] += ')'
        self.finish_phi(names, [e1] if a1 else [], env, st)
        return a1

    def stmt_for(self, st, env, later, ind, lines):
        if st.orelse:
            self.refuse('for ... else', st)
        tg = st.target
        if not (isinstance(tg, ast.Tuple) and len(tg.elts) == 2 and all(isinstance(e, ast.Name) for e in tg.elts)):
            self.refuse('loop target that is not a pair of names', st)
        pre, it, ti = self.ex(st.iter, env)
        if ti != 'Addressing':
            self.refuse('loop over a %s' % ti, st)
        for m in ast.walk(st):
            if isinstance(m, ast.Break):
                self.refuse('break', m)
        names = [e.id for e in tg.elts]
        assigned = stores(st.body) + names
        for v in assigned:
            if v in env:
                self.refuse('the loop assigns %r, which is bound before the loop (loop-carried state)' % v, st)
            if v in later:
                self.refuse('variable %r assigned in the loop is needed after it' % v, st)
        self.emit_pre(pre, ind, lines)
        env1 = dict(env)
        env1[names[0]] = (lname(names[0]), 'Str')
        env1[names[1]] = (lname(names[1]), 'Pattern')
        self.loop += 1
        b, a, _ = self.block(st.body, env1, [], ind + '  ', st)
        self.loop -= 1
        lines.append(ind + 'AsmRt.forEach %s (fun %s => do' % (it, self.pat(names)))
        lines += b
        lines[-1] += ')'
        self.unit_expr = True
        return True

    def translate(self, fdef, params, env):
        env = dict(env)
        env['#fresh'] = frozenset()
        if fdef.decorator_list:
            self.refuse('decorator', fdef)
        lines, alive, _ = self.block(fdef.body, env, [], '    ', fdef)
        if alive:
            self.refuse('the function can fall off its end (implicit return None)', fdef)
        ptys, rty = METHODS[self.name]
        sig = ' '.join('(%s : %s)' % (ln, LEAN_TYPE[t]) for ln, t in params)
        head = ['def %s %s %s :' % (self.name, self.cls.state_params(), sig),
                '    Except AsmRt.Exc (%s) :=' % LEAN_TYPE[rty],
                '  AsmRt.runFn (ρ := %s) do' % LEAN_TYPE[rty]]
        return head + lines


# ---------------------------------------------------------------------------------------
# the class
# ---------------------------------------------------------------------------------------

class Cls(object):
    def __init__(self, cdef):
        self.cdef = cdef
        self.selfattrs = {}     # attribute of self -> (Lean term, type)
        self.methods = {}
        self.state = []         # [(lean parameter, type)] standing for the instance state
        self.out = []

    def state_params(self):
        return ' '.join('(%s : %s)' % (n, LEAN_TYPE[t]) for n, t in self.state)

    def state_args(self):
        return ' '.join(n for n, t in self.state)

    def run(self):
        cdef = self.cdef
        if cdef.bases or cdef.keywords or cdef.decorator_list:
            raise Refuse('class Assembler has bases, keywords or decorators', cdef)
        statement = addressing = None
        for st in cdef.body:
            if isinstance(st, ast.Expr) and isinstance(st.value, ast.Constant) and isinstance(st.value.value, str):
                continue
            if isinstance(st, ast.FunctionDef):
                if st.name in self.methods:
                    raise Refuse('method %s defined twice' % st.name, st)
                self.methods[st.name] = st
                continue
            if isinstance(st, ast.Assign) and len(st.targets) == 1 and isinstance(st.targets[0], ast.Name):
                nm = st.targets[0].id
                if nm == 'Statement' and statement is None:
                    statement = st
                    continue
                if nm == 'Addressing' and addressing is None:
                    addressing = st
                    continue
                raise Refuse('unexpected class attribute %s (extra class state)' % nm, st)
            raise Refuse('unexpected %s in the class body' % type(st).__name__, st)
        want = {'__init__', 'assemble', 'normalize_and_split'}
        if set(self.methods) != want:
            extra = sorted(set(self.methods) - want)
            missing = sorted(want - set(self.methods))
            raise Refuse('methods of Assembler: unexpected %s, missing %s' % (extra, missing),
                         self.methods[extra[0]] if extra else cdef)
        if statement is None or addressing is None:
            raise Refuse('class attribute Statement / Addressing is missing', cdef)
        self.do_statement(statement)
        self.do_addressing(addressing)
        self.do_init(self.methods['__init__'])
        for name in ('normalize_and_split', 'assemble'):
            self.do_method(self.methods[name])
        return self.out

    def do_statement(self, st):
        v = st.value
        ok = (isinstance(v, ast.Call) and isinstance(v.func, ast.Attribute) and v.func.attr == 'compile'
              and isinstance(v.func.value, ast.Name) and v.func.value.id == 're' and len(v.args) == 1
              and not v.keywords and isinstance(v.args[0], ast.Constant) and isinstance(v.args[0].value, str))
        if not ok:
            raise Refuse('Statement is not re.compile(<string literal>)', st, 'Statement')
        patt = v.args[0].value
        if patt not in REGEX_TABLE:
            raise Refuse('regular expression %r is not in the translator\'s table (the hand model only has a '
                         'scanner for the pinned pattern)' % patt, st, 'Statement')
        helper, ty = REGEX_TABLE[patt]
        self.out += ['/-- `Assembler.Statement = re.compile(%s)`, `.match` as a function to the groups -/'
                     % json.dumps(patt).replace('-/', '- /'),
                     'def Statement : Str → Option (Str × Str × Str) := %s' % helper, '']
        self.selfattrs['Statement'] = ('Statement', 'Regex3')

    def do_addressing(self, st):
        v = st.value
        if not isinstance(v, (ast.Tuple, ast.List)):
            raise Refuse('Addressing is not a tuple display', st, 'Addressing')
        rows = []
        for e in v.elts:
            if not (isinstance(e, (ast.Tuple, ast.List)) and len(e.elts) == 2
                    and all(isinstance(x, ast.Constant) and isinstance(x.value, str) for x in e.elts)):
                raise Refuse('Addressing entry is not a pair of string literals', e, 'Addressing')
            rows.append('  (%s, %s)' % (lstr(e.elts[0].value), lstr(e.elts[1].value)))
        self.out += ['/-- `Assembler.Addressing`: (mode, template), in source order -/',
                     'def Addressing : List (Str × Str) := [']
        self.out += [r + (',' if i < len(rows) - 1 else ' ]') for i, r in enumerate(rows)] if rows else ['  ]']
        self.out.append('')
        self.selfattrs['Addressing'] = ('Addressing', 'AddrTable')

    # ----- __init__ -----

    def do_init(self, fdef):
        fn = '__init__'

        def refuse(msg, node):
            raise Refuse(msg, node, fn)

        if fdef.decorator_list:
            refuse('decorator', fdef)
        a = fdef.args
        if (a.vararg or a.kwarg or a.kwonlyargs or a.posonlyargs or len(a.args) != 3 or a.args[0].arg != 'self'
                or len(a.defaults) != 1 or not (isinstance(a.defaults[0], ast.Constant) and a.defaults[0].value is None)):
            refuse('signature of __init__ is not (self, mpu, address_parser=None)', fdef)
        p_mpu, p_parser = a.args[1].arg, a.args[2].arg
        env = {p_mpu: (lname(p_mpu), 'Dev'), p_parser: (lname(p_parser), 'OptParser')}
        sym = {}                # local -> symbolic pattern string
        listattr = None         # (attribute, lean accumulator) of the list under construction
        body_lines = []
        built = None
        ex = Fn(self, fn)
        for st in fdef.body:
            if isinstance(st, ast.Expr) and isinstance(st.value, ast.Constant) and isinstance(st.value.value, str):
                continue
            if built is not None:
                refuse('statement after the loop that builds self.%s' % built[0], st)
            # if address_parser is None: address_parser = AddressParser()
            if isinstance(st, ast.If):
                t = st.test
                ok = (isinstance(t, ast.Compare) and len(t.ops) == 1 and isinstance(t.ops[0], ast.Is)
                      and isinstance(t.left, ast.Name) and t.left.id == p_parser
                      and isinstance(t.comparators[0], ast.Constant) and t.comparators[0].value is None
                      and not st.orelse and len(st.body) == 1 and isinstance(st.body[0], ast.Assign)
                      and len(st.body[0].targets) == 1 and isinstance(st.body[0].targets[0], ast.Name)
                      and st.body[0].targets[0].id == p_parser and isinstance(st.body[0].value, ast.Call)
                      and isinstance(st.body[0].value.func, ast.Name) and st.body[0].value.func.id == 'AddressParser'
                      and not st.body[0].value.args and not st.body[0].value.keywords)
                if not ok or env[p_parser][1] != 'OptParser':
                    refuse('if statement other than the default-parser idiom', st)
                env[p_parser] = (lname(p_parser), 'Parser')
                continue
            if isinstance(st, ast.Assign) and len(st.targets) == 1:
                tg, v = st.targets[0], st.value
                if isinstance(tg, ast.Attribute) and isinstance(tg.value, ast.Name) and tg.value.id == 'self':
                    if tg.attr in self.selfattrs:
                        refuse('self.%s assigned twice / shadows a class attribute' % tg.attr, st)
                    if isinstance(v, ast.Name) and v.id in env and env[v.id][1] in ('Dev', 'Parser', 'OptParser'):
                        ty = env[v.id][1]
                        if ty == 'OptParser':
                            refuse('self.%s = %s before the None default is resolved' % (tg.attr, v.id), st)
                        if any(t == ty for _, t in self.state):
                            refuse('a second instance attribute holding the %s (extra state)' % ty, st)
                        ln = lname(tg.attr.lstrip('_'))
                        self.state.append((ln, ty))
                        self.selfattrs[tg.attr] = (ln, ty)
                        continue
                    if isinstance(v, ast.List) and not v.elts and listattr is None:
                        listattr = (tg.attr, lname(tg.attr))
                        continue
                    refuse('instance attribute self.%s = <%s> (extra state)' % (tg.attr, type(v).__name__), st)
                if isinstance(tg, ast.Name):
                    # numchars = mpu.BYTE_WIDTH / 4
                    if (isinstance(v, ast.BinOp) and isinstance(v.op, ast.Div) and Fn.natlit(v.right)
                            and v.right.value > 0):
                        p, c, t = ex.ex(v.left, env)
                        if p or t != 'Nat':
                            refuse('true division of a %s' % t, st)
                        ln = lname(tg.id)
                        body_lines.append('  let %s := AsmRt.truedivD %s %d' % (ln, c, v.right.value))
                        env[tg.id] = (ln, 'NatQ')
                        continue
                    refuse('local assignment other than <name> = <mpu width> / <literal>', st)
                refuse('assignment target', st)
            if isinstance(st, ast.For):
                if listattr is None:
                    refuse('loop before the list attribute is created', st)
                built = self.init_loop(st, env, listattr, body_lines, refuse)
                continue
            refuse('statement %s' % type(st).__name__, st)
        if built is None:
            refuse('__init__ does not build the template list', fdef)
        if [t for _, t in self.state] != ['Dev', 'Parser']:
            refuse('__init__ does not store exactly the mpu and the address parser', fdef)
        attr, acc = listattr
        self.out += ['/-- `self.%s` as built by `__init__` (the default `address_parser=None` -> `AddressParser()` is'
                     % attr,
                     'one instance of the parser parameter of the two methods) -/',
                     'def init_addressing (%s : Dev) : List (Str × (Str → Option (List Str))) :=' % env[p_mpu][0],
                     '  let %s : List (Str × (Str → Option (List Str))) := []' % acc]
        self.out += body_lines
        self.out.append('')
        mpu_param = [n for n, t in self.state if t == 'Dev'][0]
        self.selfattrs[attr] = ('(init_addressing %s)' % mpu_param, 'Addressing')

    def init_loop(self, st, env, listattr, out, refuse):
        attr, acc = listattr
        tg = st.target
        if st.orelse or not (isinstance(tg, ast.Tuple) and len(tg.elts) == 2
                             and all(isinstance(e, ast.Name) for e in tg.elts)):
            refuse('loop form in __init__', st)
        it = st.iter
        if not (isinstance(it, ast.Attribute) and isinstance(it.value, ast.Name) and it.value.id == 'self'
                and it.attr == 'Addressing'):
            refuse('__init__ loops over something other than self.Addressing', st)
        v_mode, v_fmt = tg.elts[0].id, tg.elts[1].id
        if v_mode in env or v_fmt in env or v_mode == v_fmt:
            refuse('loop variables shadow a local', st)
        sym = {}
        steps = []
        appended = False
        for s in st.body:
            if appended:
                refuse('statement after the append', s)
            if isinstance(s, ast.Assign) and len(s.targets) == 1 and isinstance(s.targets[0], ast.Name):
                x = s.targets[0].id
                if x in env or x in (v_mode, v_fmt):
                    refuse('assignment to %r inside the loop' % x, s)
                sym[x] = self.symstr(s.value, sym, env, v_fmt, refuse)
                steps.append(ast.unparse(s))
                continue
            c = s.value if isinstance(s, ast.Expr) else None
            ok = (isinstance(c, ast.Call) and isinstance(c.func, ast.Attribute) and c.func.attr == 'append'
                  and isinstance(c.func.value, ast.Attribute) and isinstance(c.func.value.value, ast.Name)
                  and c.func.value.value.id == 'self' and c.func.value.attr == attr and len(c.args) == 1
                  and not c.keywords and isinstance(c.args[0], (ast.List, ast.Tuple)) and len(c.args[0].elts) == 2)
            if not ok:
                refuse('statement in the __init__ loop other than a local assignment or self.%s.append([mode, pattern])'
                       % attr, s)
            e_mode, e_pat = c.args[0].elts
            if not (isinstance(e_mode, ast.Name) and e_mode.id == v_mode):
                refuse('first element of the appended pair is not the mode', s)
            okc = (isinstance(e_pat, ast.Call) and isinstance(e_pat.func, ast.Attribute) and e_pat.func.attr == 'compile'
                   and isinstance(e_pat.func.value, ast.Name) and e_pat.func.value.id == 're'
                   and len(e_pat.args) == 1 and not e_pat.keywords)
            if not okc:
                refuse('second element of the appended pair is not re.compile(<pattern>)', s)
            val = self.symstr(e_pat.args[0], sym, env, v_fmt, refuse)
            nvars = set()

            def norm(t):
                if isinstance(t, tuple):
                    if t[0] == 'pct':
                        nvars.add(t[2])
                        return ('pct', t[1], 'N')
                    return tuple(norm(u) for u in t)
                return t
            if norm(val) != TEMPLATE_SYM or len(nvars) != 1:
                refuse('the pattern construction is not the pinned one ("^" + re.escape(format) + "$", '
                       '.replace(\'00\', \'0{%d}\' % numchars), .replace(\'FF\', \'([0-9A-F]{%d})\' % numchars)): '
                       'the hand model has a matcher for that construction only', s)
            nv = nvars.pop()
            steps.append(ast.unparse(s))
            appended = True
            out.append('  Addressing.foldl (fun %s (%s, %s) =>' % (acc, lname(v_mode), lname(v_fmt)))
            for sp in steps:
                out.append('    -- ' + sp.replace('\n', ' '))
            out.append('    %s ++ [(%s, AsmRt.templatePattern %s %s)]) %s'
                       % (acc, lname(v_mode), env[nv][0], lname(v_fmt), acc))
        if not appended:
            refuse('the __init__ loop never appends', st)
        return listattr

    def symstr(self, n, sym, env, v_fmt, refuse):
        """Symbolic value of a pattern-string expression in the __init__ loop."""
        if isinstance(n, ast.Constant) and isinstance(n.value, str):
            return ('const', n.value)
        if isinstance(n, ast.Name) and n.id in sym:
            return sym[n.id]
        if isinstance(n, ast.BinOp) and isinstance(n.op, ast.Add):
            return ('add', self.symstr(n.left, sym, env, v_fmt, refuse), self.symstr(n.right, sym, env, v_fmt, refuse))
        if (isinstance(n, ast.BinOp) and isinstance(n.op, ast.Mod) and isinstance(n.left, ast.Constant)
                and isinstance(n.left.value, str) and isinstance(n.right, ast.Name) and n.right.id in env
                and env[n.right.id][1] == 'NatQ'):
            return ('pct', n.left.value, n.right.id)
        if isinstance(n, ast.Call) and isinstance(n.func, ast.Attribute) and not n.keywords:
            f = n.func
            if (f.attr == 'escape' and isinstance(f.value, ast.Name) and f.value.id == 're' and len(n.args) == 1
                    and isinstance(n.args[0], ast.Name) and n.args[0].id == v_fmt):
                return ('escape', 'F')
            if (f.attr == 'replace' and len(n.args) == 2 and isinstance(n.args[0], ast.Constant)
                    and isinstance(n.args[0].value, str)):
                return ('replace', self.symstr(f.value, sym, env, v_fmt, refuse), n.args[0].value,
                        self.symstr(n.args[1], sym, env, v_fmt, refuse))
        refuse('pattern-string expression %s' % ast.unparse(n), n)

    # ----- assemble / normalize_and_split -----

    def do_method(self, fdef):
        name = fdef.name
        ptys, rty = METHODS[name]
        a = fdef.args
        if (a.vararg or a.kwarg or a.kwonlyargs or a.posonlyargs or len(a.args) != len(ptys) + 1
                or a.args[0].arg != 'self'):
            raise Refuse('signature of %s' % name, fdef, name)
        for d in a.defaults:
            if not (isinstance(d, ast.Constant) and isinstance(d.value, int) and not isinstance(d.value, bool)):
                raise Refuse('default value of a parameter of %s is not an int literal' % name, fdef, name)
        state_names = set(n for n, _ in self.state)
        env, params = {}, []
        for arg, ty in zip(a.args[1:], ptys):
            ln = lname(arg.arg)
            if ln in state_names:
                raise Refuse('parameter %r collides with the instance-state parameter' % arg.arg, fdef, name)
            env[arg.arg] = (ln, ty)
            params.append((ln, ty))
        for m in ast.walk(fdef):
            if isinstance(m, ast.Attribute) and isinstance(m.ctx, (ast.Store, ast.Del)):
                raise Refuse('attribute assignment in %s (instance or class state is written outside __init__)' % name,
                             m, name)
            if isinstance(m, (ast.Global, ast.Nonlocal, ast.Lambda, ast.FunctionDef, ast.ClassDef, ast.Import,
                              ast.ImportFrom, ast.While, ast.With, ast.Delete, ast.Assert, ast.Yield, ast.YieldFrom,
                              ast.Await)) and m is not fdef:
                raise Refuse('%s in %s' % (type(m).__name__, name), m, name)
            if isinstance(m, ast.Name) and isinstance(m.ctx, ast.Store) and lname(m.id) in state_names:
                raise Refuse('local %r collides with the instance-state parameter' % m.id, m, name)
        fn = Fn(self, name)
        doc = 'the method `Assembler.%s`, statement by statement' % name
        self.out += ['/-- %s -/' % doc] + fn.translate(fdef, params, env) + ['']


def translate(src):
    tree = ast.parse(src)
    cdef = None
    for st in tree.body:
        if isinstance(st, ast.Expr) and isinstance(st.value, ast.Constant) and isinstance(st.value.value, str):
            continue
        if isinstance(st, ast.Import) and [a.name for a in st.names] == ['re'] and st.names[0].asname is None:
            continue
        if (isinstance(st, ast.ImportFrom) and st.module == 'py65.utils.addressing' and st.level == 0
                and [(a.name, a.asname) for a in st.names] == [('AddressParser', None)]):
            continue
        if isinstance(st, ast.ClassDef) and st.name == 'Assembler' and cdef is None:
            cdef = st
            continue
        raise Refuse('unexpected module-level %s' % type(st).__name__, st)
    if cdef is None:
        raise Refuse('class Assembler not found')
    body = Cls(cdef).run()
    head = [
        '/- GENERATED by harness/py2lean_asm.py from py65/assembler.py (class Assembler) -- do not edit.',
        '   Shallow embedding, statement by statement; library behaviour is `AsmRt.*` (lean/Py65/Model/AsmRt.lean).',
        '   Nothing but Py65/Proofs/AsmGenEq.lean and Py65/Props/C07g.lean, C08ga.lean may import this file. -/',
        'import Py65.Model.AsmRt',
        'set_option linter.unusedVariables false',
        'namespace Py65.Gen.AsmGen',
        'open Py65.Model Py65.Model.PyStr Py65.Model.AddrParser Py65.Model.Asm',
        '',
    ]
    return '\n'.join(head + body + ['end Py65.Gen.AsmGen']) + '\n', len(body)


def main():
    ap = argparse.ArgumentParser()
    ap.add_argument('--out', required=True)
    ap.add_argument('--report', default=None)
    ap.add_argument('--source', default=None)
    args = ap.parse_args()
    repo = os.environ.get('PY65_REPO', '/repo')
    path = args.source or os.path.join(repo, REL)
    report = {'ok': False, 'source': path}
    rc = 0
    try:
        raw = open(path, 'rb').read()
        report['source_sha256'] = hashlib.sha256(raw).hexdigest()
        text, _ = translate(raw.decode('utf-8'))
        os.makedirs(args.out, exist_ok=True)
        p = os.path.join(args.out, 'AsmGen.lean')
        old = open(p).read() if os.path.exists(p) else None
        written = []
        if old != text:
            with open(p, 'w') as f:
                f.write(text)
            written.append('AsmGen.lean')
        report.update(ok=True, files=['AsmGen.lean'], written=written,
                      functions=text.count('\ndef '), generated_sha256=hashlib.sha256(text.encode()).hexdigest())
    except Refuse as ex:
        report['error'] = ex.msg
        if ex.func:
            report['function'] = ex.func
        if ex.node is not None and hasattr(ex.node, 'lineno'):
            report['where'] = '%s:%d' % (REL, ex.node.lineno)
        sys.stderr.write('py2lean_asm: refused: %s%s\n' % (ex.msg, (' at ' + report['where']) if 'where' in report else ''))
        rc = 3
    except SyntaxError as ex:
        report['error'] = 'the source does not parse: %s' % ex
        report['where'] = '%s:%s' % (REL, ex.lineno)
        sys.stderr.write('py2lean_asm: %s\n' % report['error'])
        rc = 3
    except OSError as ex:
        report['error'] = 'cannot read the source: %s' % ex
        sys.stderr.write('py2lean_asm: %s\n' % report['error'])
        rc = 3
    if args.report:
        with open(args.report, 'w') as f:
            json.dump(report, f, indent=1)
    sys.exit(rc)


if __name__ == '__main__':
    main()
