"""C19 -- what the monitor displays is the machine's true state.

Proof level: lean/Py65/Props/C19.lean (number round trips, `tilde_consistent`) and
lean/Py65/Props/C19b.lean (register line, disassembly byte column, cycle counter) hold of the
hand-written models Py65.Model.PyStr / Py65.Model.Fmt.  This module ties the models to the real code
and evaluates the PROPERTY on the real `py65.monitor.Monitor`, every device, through `onecmd`:

 * registers are set through `registers` (boundary and random values of every register) and by
   running small programs (`goto`); after EVERY command the status lines the monitor printed are
     - parsed by an independent Python parser that locates the fields from the header line (so the
       alignment of `PC AC XR YR SP NV-BDIZC` with the values is part of what is checked) and compared
       with the device's attributes pc, a, x, y, sp and every named bit of p, at the device's widths;
     - compared byte for byte with the Lean model's text (`repr …`: here the text is the property);
   additionally `repr(mpu)` is compared directly on device objects with arbitrary in-range registers;
 * `mem <range>`: every printed cell is compared with the memory at the address printed at the start
   of its line plus its position; the range is covered exactly once, in order, under several widths;
 * `disassemble <range>`: the address column advances by the instruction lengths, the byte column
   equals the cells at that address (wrapping at the top of the address space), its length and the
   mnemonic are those of the device's opcode table; the whole line is compared byte for byte with the
   model's `_format_disassembly` (`fmtdis …`);
 * `cycles`: the printed number is the device's `processorCycles` after running code (model `cyc …`);
 * `~ n` for numbers over the address range in every spelling: the four lines must denote n in
   decimal, hex, octal and binary (independent `int(text, base)`), and equal the model's renderings.
"""
import json
import multiprocessing
import os
import random
import re
import sys
import time

HERE = os.path.dirname(os.path.dirname(os.path.abspath(__file__)))
if HERE not in sys.path:
    sys.path.insert(0, HERE)
from common import run_driver, device_classes  # noqa: E402
from props.moncommon import Mon, DEVS, WIDTHS, install_timer, tohex  # noqa: E402
import disgen  # noqa: E402
import showgen  # noqa: E402

ID = 'C19'
LEAN_MODULES = ['Py65.Props.C19', 'Py65.Props.C19b', 'Py65.Props.C19c', disgen.GENEQ_MODULE, showgen.GENEQ_MODULE,
                'Py65.Props.C19g']
NAMESPACES = ['Py65.Props.C19', 'Py65.Props.C19g', disgen.GENEQ_NAMESPACE, showgen.GENEQ_NAMESPACE]
# library helpers (CPython behaviour modelled in lean/Py65/Model/*Rt*.lean ...) that the generated code of these
# modules calls, derived by scanning the Lean sources (harness/rtscan.py); validated against CPython on every run
import rtcheck  # noqa: E402
RT_HELPERS = rtcheck.helpers_for(LEAN_MODULES)
LEVEL = 'proof'
USES_PROLOGUE = True
USES_GEN = False
EXPECTED_THEOREMS = [
    'Py65.Props.C19.tilde_consistent', 'Py65.Props.C19.fmt_roundtrip_hex', 'Py65.Props.C19.fmt_roundtrip_bin',
    'Py65.Props.C19.repr_roundtrip', 'Py65.Props.C19.repr_flag_bits', 'Py65.Props.C19.disasm_shows_bytes',
    'Py65.Props.C19.cycles_shows_counter',
    # itoa: the same for the GENERATED function (tie by regeneration, harness/py2lean_dis.py)
    'Py65.Props.C19g.itoa_roundtrip_bin', 'Py65.Props.C19g.itoa_roundtrip_hex', 'Py65.Props.C19g.itoa_roundtrip_dec',
    'Py65.Props.C19g.itoa_other_base', 'Py65.Props.C19g.itoa_flag_bits', 'Py65.Props.C19g.tilde_bin_line',
    'Py65.Props.C19g.disasm_shows_bytes',
    # MPU.__repr__, _output_mpu_status, do_cycles, do_tilde, do_disassemble: hand-model theorems (Props/C19c), the
    # same for the GENERATED functions (tie by regeneration, harness/py2lean_show.py), and the equalities
] + disgen.GENEQ_THEOREMS + showgen.HAND_THEOREMS + showgen.G_THEOREMS + showgen.GENEQ_THEOREMS


def pre_build(ctx):
    disgen.pre_build(ctx)
    showgen.pre_build(ctx)


RULE = ('one evaluation = one displayed text checked against the true state; distinct = distinct '
        '(kind of display, device, boundary-class vector of the values shown) tuples; non-trivial = the display '
        'shows at least one non-zero value or a wrap / line break')
TRUSTED = [
    'itoa / _itoa_fmts (py65/utils/conversions.py) and the instruction text of the disassemble lines: '
    + disgen.TRUSTED_TEXT,
    disgen.MODELLED_TEXT,
    'MPU.__repr__ / reprformat (three device classes), Monitor._output_mpu_status, do_cycles, do_tilde, do_disassemble: '
    + showgen.TRUSTED_TEXT,
    showgen.MODELLED_TEXT,
    'hand models Py65.Model.Fmt (MPU.__repr__ of the three devices, status print, cycles, _format_disassembly), '
    'Py65.Model.Show (do_tilde, the range walk of do_disassemble) and Py65.Model.PyStr (%0Nx, %u, %04o, rjust/zfill) '
    '-- every one of them is now PROVED equal to the function regenerated from the Python text (itoa_eq_*, '
    'format_disassembly_eq, repr_eq_*, do_cycles_eq, do_tilde_eq, do_disassemble_eq); Model.Fmt is additionally tied '
    'to the real code by the sampled correspondence of this check, text compared byte for byte',
    'the independent Python parser of this module (fields located from the header line)',
    "`mem` is proved in C16's mem_exact; here it is checked on the real code by the independent parser only",
    'the instruction text of `disassemble` is the subject of C08/C09; here its byte column, its length and its '
    'mnemonic are checked against memory and the opcode table',
]
ASSUMPTIONS = [
    'registers are within the device widths (what `registers` admits and execution preserves, C05/C20)',
    'displayed ranges do not include the getc/putc addresses ($f004/$f001): displaying the input cell reads it',
    'the cycle counter is below 10**4300 (CPython refuses to print larger integers in decimal)',
    'the GenEq theorems for __repr__ / do_cycles are stated for register attributes and a cycle counter that are not '
    'negative (the hand model is over the naturals); do_tilde_eq and do_disassemble_eq have no hypothesis; '
    'disasm_walk_shows_bytes is about a COMPLETED walk inside the address space (disasm_walk_complete: an ordinary '
    'range of instructions of length 1..L completes within cells + L + 1 units of fuel)',
]

FLAGBIT = {'C': 0, 'Z': 1, 'I': 2, 'D': 3, 'B': 4}


def parse_status(text, dev):
    """Independent parser.  -> dict(pc, a, x, y, sp, flags={letter: 0/1}) or an error string.
    Works from the last two lines; every value is located from its column title in the header."""
    lines = text.split('\n')
    if len(lines) < 3 or lines[-1] != '':
        return 'status does not end with a newline'
    head, vals = lines[-3], lines[-2]
    W, AW = WIDTHS[dev]
    if not vals.startswith(dev + ': '):
        return 'second line does not start with the device name: %r' % vals[:20]
    out = {}
    # value fields: maximal runs of non-blanks after the name
    fields = [(m.start(), m.group(0)) for m in re.finditer(r'\S+', vals)][1:]
    titles = [(m.start(), m.group(0)) for m in re.finditer(r'\S+', head)]
    if len(fields) != 6 or len(titles) != 6:
        return 'expected 6 titled fields, got %d titles / %d fields' % (len(titles), len(fields))
    names = {'PC': 'pc', 'AC': 'a', 'XR': 'x', 'YR': 'y', 'SP': 'sp'}
    for (tc, t), (fc, f) in zip(titles[:5], fields[:5]):
        if t not in names:
            return 'unknown title %r' % t
        if not (fc <= tc and tc + len(t) <= fc + len(f)):
            return 'title %s (col %d) is not above its value %r (col %d)' % (t, tc, f, fc)
        digits = (AW if t == 'PC' else W) // 4
        if len(f) != digits or not re.fullmatch(r'[0-9a-f]+', f):
            return 'field %s = %r is not %d lower-case hex digits' % (t, f, digits)
        out[names[t]] = int(f, 16)
    (tc, t), (fc, f) = titles[5], fields[5]
    if tc != fc or len(t) != len(f) or len(f) != W or not re.fullmatch(r'[01]+', f):
        return 'flag field %r (col %d) does not sit under %r (col %d) with %d binary digits' % (f, fc, t, tc, W)
    if not re.fullmatch(r'NV-+BDIZC', t):
        return 'flag title %r' % t
    out['flags'] = {letter: int(f[i]) for i, letter in enumerate(t) if letter != '-'}
    out['pbits'] = f
    return out


def check_status(text, dev, mpu):
    """PROPERTY: the status lines denote the device's registers.  -> None or what is wrong."""
    p = parse_status(text, dev)
    if isinstance(p, str):
        return p
    W, AW = WIDTHS[dev]
    for k in ('pc', 'a', 'x', 'y', 'sp'):
        if p[k] != getattr(mpu, k):
            return 'displayed %s = %x, device has %x' % (k, p[k], getattr(mpu, k))
    bits = dict(FLAGBIT)
    bits['N'] = W - 1
    bits['V'] = W - 2
    for letter, b in bits.items():
        if p['flags'].get(letter) != (mpu.p >> b) & 1:
            return 'displayed flag %s = %s, device p = %s' % (letter, p['flags'].get(letter), bin(mpu.p))
    if int(p['pbits'], 2) != mpu.p:
        return 'displayed p bits %s, device p = %s' % (p['pbits'], bin(mpu.p))
    return None


def bclass(v, W):
    top = (1 << W) - 1
    if v == 0:
        return '0'
    if v == top:
        return 'top'
    if v < 16:
        return 'lt16'
    if v < 256:
        return 'lt256'
    if v >= 1 << (W - 1):
        return 'hi'
    return 'mid'


def rnd(rng, W):
    top = (1 << W) - 1
    return rng.choice([0, 1, 9, 10, 15, 16, 0x7f, 0x80, 0xff, 0x100 & top, top, top - 1, 1 << (W - 1), rng.randrange(top + 1),
                       rng.randrange(top + 1)]) & top


# ---------------------------------------------------------------------------------------
# one session on the real monitor: a list of checked displays
# ---------------------------------------------------------------------------------------

def soup(rng, dev):
    """A small terminating program (cells) that leaves varied registers and flags."""
    W, AW = WIDTHS[dev]
    bm = (1 << W) - 1
    code = []
    for _ in range(rng.choice([1, 3, 6, 10])):
        k = rng.randrange(14)
        v = rnd(rng, W)
        code += [[0xa9, v], [0xa2, v], [0xa0, v], [0x9a], [0x48], [0x28], [0x08], [0x38], [0x18], [0xf8, 0xd8] if W == 8 else [0x78],
                 [0x69, v], [0xe9, v], [0xaa, 0xe8], [0x4a]][k]
    code.append(0x00)
    return [c & bm for c in code]


def run_session(rng, dev, budget):
    """-> list of items dict(kind, what=None|violation text, model=(request, real_text)|None, key, nontrivial)."""
    W, AW = WIDTHS[dev]
    bm, am = (1 << W) - 1, (1 << AW) - 1
    M = Mon(dev)
    items = []
    classes = device_classes()
    table = classes[dev].disassemble

    def add_item(it):
        if it.get('what'):             # a deviation: keep the whole session, so that the replay re-runs it
            it['session'] = list(M.prologue) + list(M.typed)
        items.append(it)

    def add_status(text, line):
        u = M.m._mpu
        bad = check_status(text, dev, u)
        st = text[-(len(repr(u)) + 2):]
        req = 'repr %s %d %d %d %d %d %d' % (dev, u.pc, u.a, u.x, u.y, u.sp, u.p)
        add_item(dict(kind='status', line=line, what=bad, model=(req, tohex(st[1:-1]) + ' 1'),
                          key=('status', dev, bclass(u.pc, AW), bclass(u.a, W), bclass(u.x, W), bclass(u.y, W), bclass(u.sp, W),
                               bclass(u.p, W)), nontrivial=True, hist=None))

    def run(line):
        kind, val, text = M.run(line, budget)
        if kind != 'ret':
            add_item(dict(kind='run', line=line, what=None if kind == 'budget' else 'onecmd raised %s' % val, model=None,
                              key=('abort',), nontrivial=False))
            return None
        add_status(text, line)
        return text

    try:
        for step in range(rng.choice([4, 8, 12])):
            r = rng.random()
            if r < 0.3:
                names = rng.sample(['a', 'x', 'y', 'sp', 'p', 'pc'], rng.choice([1, 2, 3, 6]))
                line = 'registers ' + ','.join('%s=$%x' % (n, rnd(rng, AW if n == 'pc' else W)) for n in names)
                if run(line) is None:
                    break
            elif r < 0.45:
                code = soup(rng, dev)
                P = rng.choice([0x0300, 0x2000, 0x8000, 0xc000])
                for off in range(0, len(code), 8):
                    M.run('fill $%x %s' % (P + off, ' '.join('$%x' % c for c in code[off:off + 8])), budget)
                if rng.random() < 0.3:
                    # the counter is plain machine state: let it also be large (beyond 16 / 32 / 64 bits)
                    M.m._mpu.processorCycles += rng.choice([0xfff0, 1 << 16, (1 << 32) - 7, 10 ** 12, (1 << 64) + 3])
                if run('goto $%x' % P) is None:
                    break
                t = run('cycles')
                if t is None:
                    break
                first = t.split('\n')[0]
                cyc = M.m._mpu.processorCycles
                ok = first == str(cyc) and re.fullmatch(r'\d+', first) and int(first, 10) == cyc
                add_item(dict(kind='cycles', line='cycles', what=None if ok else 'cycles printed %r, counter is %d' % (first, cyc),
                                  model=('cyc %d' % cyc, tohex(first)), key=('cycles', dev, len(first)), nontrivial=cyc > 0))
            elif r < 0.65:
                # mem
                if rng.random() < 0.5:
                    M.run('width %d' % rng.choice([10, 20, 40, 78, 79, 80, 132, 15]), budget)
                start = rng.choice([0, 0x00f8, 0x01f0, 0x0ff0, 0x8000, 0xee00, 0xff00, 0xfff0, am - 20, rng.randrange(0xe000)])
                n = rng.choice([0, 1, 7, 8, 16, 33, 64])
                end = min(start + n, am)
                if dev == '65Org16' and start > 0x3ffff:
                    pass
                vals = [rnd(rng, W) for _ in range(rng.choice([1, 3, 5]))]
                M.run('fill $%x:$%x %s' % (start, end, ' '.join('$%x' % v for v in vals)), budget)
                line = 'mem $%x:$%x' % (start, end)
                t = run(line)
                if t is None:
                    break
                body = t[:-(len(repr(M.m._mpu)) + 2)]
                bad = check_mem(body, dev, M, start, end)
                add_item(dict(kind='mem', line=line, what=bad, model=None,
                                  key=('mem', dev, M.m._width, n, bclass(vals[0], W)), nontrivial=any(vals)))
            elif r < 0.85:
                # disassemble
                top_case = rng.random() < 0.25
                start = (am - rng.choice([0, 1, 2, 3])) if top_case else rng.choice([0, 0x00fd, 0x8000, 0xc000, rng.randrange(0xe000),
                                                                                   0xc0fe, 0x7ffd, 0x10ff, (rng.randrange(1, 0xe0) << 8) | rng.choice([0xfd, 0xfe, 0xff]),
                                                                                   ((1 << W) - rng.choice([1, 2, 3])) & am])
                ops = [rng.randrange(256) for _ in range(rng.choice([1, 2, 5, 9]))]
                cells = []
                for op in ops:
                    ln = {'imp': 1, 'acc': 1, 'imm': 2, 'zpg': 2, 'zpx': 2, 'zpy': 2, 'inx': 2, 'iny': 2, 'rel': 2, 'zpi': 2,
                          'abs': 3, 'abx': 3, 'aby': 3, 'ind': 3, 'iax': 3}.get(table[op][1], 1)
                    cells += [op] + [rnd(rng, W) for _ in range(ln - 1)]
                for k, c in enumerate(cells):
                    M.run('fill $%x $%x' % ((start + k) & am, c), budget)
                end = (start + len(cells) - 1) & am
                if rng.random() < 0.5:
                    # labels for some of the operands, from a small pool of names: over a session the same name
                    # is defined again for another address (and sometimes deleted) -- what `disassemble` shows
                    # must follow the table as it is now
                    vals, i = [], 0
                    while i < len(cells):
                        mode = table[cells[i]][1]
                        ln = {'imp': 1, 'acc': 1, 'imm': 2, 'zpg': 2, 'zpx': 2, 'zpy': 2, 'inx': 2, 'iny': 2, 'rel': 2,
                              'zpi': 2, 'abs': 3, 'abx': 3, 'aby': 3, 'ind': 3, 'iax': 3}.get(mode, 1)
                        if ln == 2 and mode != 'imm' and i + 1 < len(cells):
                            b1 = cells[i + 1]
                            vals.append((start + i + 2 + (b1 - (1 << W) if b1 >> (W - 1) else b1)) & am if mode == 'rel' else b1)
                        elif ln == 3 and i + 2 < len(cells):
                            vals.append(cells[i + 1] + (cells[i + 2] << W))
                        i += ln
                    for v in rng.sample(vals, min(len(vals), rng.choice([1, 2]))):
                        M.run('add_label $%x %s' % (v, rng.choice(['entry', 'ptr', 'loop_1'])), budget)
                    if rng.random() < 0.2:
                        M.run('delete_label %s' % rng.choice(['entry', 'ptr', 'loop_1']), budget)
                # (preparation of the second listing below: the storing program is put in place BEFORE the first listing, so
                # that nothing but `goto` happens between the two listings)
                prog_at = None
                opnds = []
                i = 0
                while i < len(cells):
                    ln = {'imp': 1, 'acc': 1, 'imm': 2, 'zpg': 2, 'zpx': 2, 'zpy': 2, 'inx': 2, 'iny': 2, 'rel': 2, 'zpi': 2,
                          'abs': 3, 'abx': 3, 'aby': 3, 'ind': 3, 'iax': 3}.get(table[cells[i]][1], 1)
                    opnds += [k for k in range(i + 1, min(i + ln, len(cells)))]
                    i += ln
                if opnds and rng.random() < 0.4:
                    free = [q for q in (0x0300, 0x2000, 0x8000, 0xa000)
                            if all(abs(((start + k) & am) - (q + j)) > 2 for k in range(len(cells) + 3) for j in range(8))]
                    if free:
                        P = rng.choice(free)
                        k = rng.choice(opnds)
                        tgt = (start + k) & am
                        old = cells[k]
                        new = rng.choice([v for v in (old ^ 0x42, (old + 1) & bm, 0, bm, rnd(rng, W)) if v != old])
                        prog = [0xa9, new, 0x8d, tgt & bm, tgt >> W, 0x00]
                        M.run('fill $%x %s' % (P, ' '.join('$%x' % c for c in prog)), budget)
                        prog_at = (P, new, tgt)
                line = 'disassemble $%x:$%x' % (start, end) if end >= start or rng.random() < 0.5 else 'disassemble $%x' % start
                kind, val, t = M.run(line, budget)
                if kind != 'ret':
                    add_item(dict(kind='run', line=line, what=None, model=None, key=('abort',), nontrivial=False))
                    break
                add_status(t, line)
                body = t[:-(len(repr(M.m._mpu)) + 2)]
                bad, mitems = check_disasm(body, dev, M, start, end if ':' in line else start, table)
                add_item(dict(kind='disasm', line=line, what=bad, model=None,
                                  key=('disasm', dev, top_case, len(ops), table[ops[0]][1]), nontrivial=True))
                items += mitems
                # memory changed BY THE RUNNING PROGRAM between two listings of the same range: a small program elsewhere
                # stores a new value into an operand cell of a listed instruction (the opcode stays), `goto` runs it to its
                # BRK, and the range is listed again -- what `disassemble` shows must be what memory holds now
                if bad is None and prog_at is not None:
                    P, new, tgt = prog_at
                    if run('goto $%x' % P) is None:
                        break
                    kind, val, t = M.run(line, budget)
                    if kind != 'ret':
                        add_item(dict(kind='run', line=line, what=None, model=None, key=('abort',), nontrivial=False))
                        break
                    add_status(t, line)
                    body = t[:-(len(repr(M.m._mpu)) + 2)]
                    bad, mitems = check_disasm(body, dev, M, start, end if ':' in line else start, table)
                    if bad:
                        bad += ' [second listing, after the program at $%x stored $%x to $%x]' % (P, new, tgt)
                    add_item(dict(kind='disasm', line=line, what=bad, model=None,
                                      key=('disasm-after-store', dev, top_case, table[ops[0]][1]), nontrivial=True))
                    items += mitems
            else:
                # tilde
                n = rng.choice([0, 1, 7, 8, 9, 10, 15, 16, 255, 256, 0o777, 0o1000, 65535, am, am - 1, rng.randrange(am + 1)]) & am
                sp = rng.choice(['$%x' % n, '+%d' % n, '%' + bin(n)[2:], '$%X' % n])
                t = run(rng.choice(['~ %s', '~%s', 'tilde %s']) % sp)
                if t is None:
                    break
                ls = t.split('\n')[:4]
                bad = None
                try:
                    ok = (ls[0][0] == '+' and int(ls[0][1:], 10) == n and ls[1][0] == '$' and int(ls[1][1:], 16) == n
                          and int(ls[2], 8) == n and int(ls[3], 2) == n
                          and all(re.fullmatch(p, x) for p, x in zip((r'\+\d+', r'\$[0-9a-f]+', r'[0-7]+', r'[01]+'), ls)))
                except (ValueError, IndexError):
                    ok = False
                if not ok:
                    bad = '~ %s printed %r, which do not all denote %d' % (sp, ls, n)
                add_item(dict(kind='tilde', line='~ ' + sp, what=bad, model=None, key=('tilde', dev, bclass(n, AW), sp[0]),
                                  nontrivial=n > 0))
                if len(ls) == 4:
                    for kindf, wdt, txt in (('dec', 0, ls[0][1:]), ('hex', W // 4, ls[1][1:]), ('oct', 4, ls[2]), ('binz', 8, ls[3])):
                        add_item(dict(kind='tilde-model', line='~ ' + sp, what=None,
                                          model=('fmt %s %d %d' % (kindf, wdt, n), tohex(txt)), key=None, nontrivial=False))
    finally:
        M.close()
    return items


def check_mem(body, dev, M, start, end):
    W, AW = WIDTHS[dev]
    subj = M.subject()
    phys = len(subj)
    cur = start
    lines = [l for l in body.split('\n')]
    if lines and lines[-1] == '':
        lines.pop()
    width = M.m._width
    for l in lines:
        m = re.fullmatch(r'([0-9a-f]{%d}):((?:  [0-9a-f]{%d})*)' % (AW // 4, W // 4), l)
        if not m:
            return 'mem line %r is not "<addr>:  <cell>  <cell> ..."' % l[:60]
        a = int(m.group(1), 16)
        cells = m.group(2).split()
        if a != cur and cells:
            return 'mem line starts at $%x, expected $%x' % (a, cur)
        if len(l) > width and len(cells) > 1:
            return 'mem line longer than the width %d' % width
        for k, c in enumerate(cells):
            if int(c, 16) != subj[(a + k) % phys]:
                return 'mem shows %s at $%x, memory holds %x' % (c, a + k, subj[(a + k) % phys])
        cur = a + len(cells)
    if cur != end + 1:
        return 'mem displayed cells up to $%x, the range ends at $%x' % (cur - 1, end)
    return None


def check_disasm(body, dev, M, start, end, table):
    W, AW = WIDTHS[dev]
    am = (1 << AW) - 1
    subj = M.subject()
    phys = len(subj)
    lines = body.split('\n')
    if lines and lines[-1] == '':
        lines.pop()
    cur = start
    last = start
    wrapped = False
    mitems = []
    lens = {'imp': 1, 'acc': 1, 'imm': 2, 'zpg': 2, 'zpx': 2, 'zpy': 2, 'inx': 2, 'iny': 2, 'rel': 2, 'zpi': 2,
            'abs': 3, 'abx': 3, 'aby': 3, 'ind': 3, 'iax': 3}
    fw = 1 + (1 + W // 4) * 3
    for l in lines:
        m = re.fullmatch(r'\$([0-9a-f]{%d})  (.{%d})(.*)' % (AW // 4, fw), l)
        if not m:
            return 'disassembly line %r does not have the address and byte columns' % l[:60], mitems
        a = int(m.group(1), 16)
        if a != cur:
            return 'disassembly line at $%x, expected $%x' % (a, cur), mitems
        bs = m.group(2).split()
        if not re.fullmatch(r'((?:[0-9a-f]{%d} )*) *' % (W // 4), m.group(2)):
            return 'byte column %r' % m.group(2), mitems
        op = subj[a % phys]
        mn, mode = table[op & 0xff] if op <= 0xff else ('???', 'imp')
        want = lens.get(mode, 1)
        if op > 0xff:
            want = 1
        if len(bs) != want:
            return 'instruction at $%x (opcode %x, mode %s) shown with %d bytes, has %d' % (a, op, mode, len(bs), want), mitems
        for k, b in enumerate(bs):
            if int(b, 16) != subj[((a + k) & am) % phys]:
                return 'byte %d of the instruction at $%x shown as %s, memory holds %x' % (k, a, b, subj[((a + k) & am) % phys]), mitems
        text = m.group(3)
        if op <= 0xff and text.split(' ')[0] != mn:
            return 'instruction at $%x shown as %r, the opcode table says %s' % (a, text, mn), mitems
        if op <= 0xff:
            # the operand shown is the operand in memory (hex at the device's widths, or a label bound to it)
            b1 = subj[((a + 1) & am) % phys]
            b2 = subj[((a + 2) & am) % phys]
            word = b1 + (b2 << W)
            if mode == 'rel':
                val = (a + 2 + (b1 - (1 << W) if b1 >> (W - 1) else b1)) & am
            else:
                val = word if want == 3 else b1
            digits = AW // 4 if (want == 3 or mode == 'rel') else W // 4
            shapes = {'imp': '', 'acc': ' A', 'imm': ' #%s', 'zpg': ' %s', 'zpx': ' %s,X', 'zpy': ' %s,Y', 'abs': ' %s',
                      'abx': ' %s,X', 'aby': ' %s,Y', 'ind': ' (%s)', 'inx': ' (%s,X)', 'iny': ' (%s),Y', 'zpi': ' (%s)',
                      'iax': ' (%s,X)', 'rel': ' %s'}
            shape = shapes.get(mode)
            if shape is not None:
                names = ['$%0*x' % (digits, val)]
                if mode != 'imm':
                    names += [k for k, v in M.m._address_parser.labels.items() if v == val]
                ok_texts = [mn + (shape % nm if '%s' in shape else shape) for nm in names]
                if text not in ok_texts:
                    return ('instruction at $%x shown as %r but memory holds %s (that is %r)'
                            % (a, text, ' '.join('%x' % subj[((a + k) & am) % phys] for k in range(want)), ok_texts[0])), mitems
        cells = ','.join('%d:%d' % ((a + k) & am, subj[((a + k) & am) % phys]) for k in range(want))
        mitems.append(dict(kind='disasm-model', line=l, what=None,
                           model=('fmtdis %s %d %d %s %s' % (dev, a, want, cells, tohex(text)), tohex(l)), key=None, nontrivial=False))
        last = a
        nxt = a + want
        if nxt > am:
            wrapped = True
            nxt &= am
        cur = nxt
    # coverage: the listing goes on until it has passed `end`, and not further
    if not lines:
        return 'nothing disassembled', mitems
    if start <= end:
        if last > end:
            return 'the listing goes on to $%x, beyond the end $%x of the range' % (last, end), mitems
        if not (wrapped or cur > end):
            return 'the listing stops at $%x before the end $%x of the range' % (last, end), mitems
    else:
        if not wrapped:
            return 'the listing of the wrapping range $%x:$%x stops at $%x without passing the top of memory' % (start, end, last), mitems
        if cur <= end:
            return 'the listing stops at $%x before the end $%x of the range' % (last, end), mitems
        if end < last < start:
            return 'the listing goes on to $%x, beyond the end $%x of the range' % (last, end), mitems
    return None, mitems


def direct_repr_cases(rng, n):
    """repr(mpu) on device objects with arbitrary in-range registers (no monitor)."""
    classes = device_classes()
    out = []
    for k in range(n):
        dev = DEVS[k % 3]
        W, AW = WIDTHS[dev]
        u = classes[dev]()
        u.pc, u.a, u.x, u.y, u.sp, u.p = rnd(rng, AW), rnd(rng, W), rnd(rng, W), rnd(rng, W), rnd(rng, W), rnd(rng, W)
        text = repr(u)
        bad = check_status('\n' + text + '\n', dev, u)
        out.append(dict(kind='repr', line='repr', what=bad,
                        model=('repr %s %d %d %d %d %d %d' % (dev, u.pc, u.a, u.x, u.y, u.sp, u.p), tohex(text) + ' 1'),
                        key=('repr', dev, bclass(u.pc, AW), bclass(u.a, W), bclass(u.sp, W), bclass(u.p, W)), nontrivial=True))
    return out


def _work(spec):
    seed, idx, nsess, ndirect, budget = spec
    install_timer()
    rng = random.Random('c19-%d-%d' % (seed, idx))
    items = []
    hist = []
    for s in range(nsess):
        dev = DEVS[(idx + s) % 3]
        its = run_session(rng, dev, budget)
        for it in its:
            it['dev'] = dev
        items += its
    d = direct_repr_cases(rng, ndirect)
    for it in d:
        it['dev'] = it['model'][0].split(' ')[1]
    items += d
    res = dict(n=0, agree=0, ties=[], findings=[], nfind={}, dist={}, distinct=set(), samples=[], nmodel=0)
    reqs = [it['model'][0] for it in items if it['model']]
    try:
        replies = run_driver(reqs)
    except Exception as ex:  # noqa: B902
        res['ties'].append(dict(what='driver failed', detail=str(ex)[:300]))
        replies = [None] * len(reqs)
    ri = 0
    for it in items:
        res['n'] += 1
        res['dist'][it['kind']] = res['dist'].get(it['kind'], 0) + 1
        if it['key'] and it['nontrivial']:
            res['distinct'].add(it['key'])
        if it['what']:
            key = dict(kind=it['kind'])
            ks = json.dumps(key, sort_keys=True)
            res['nfind'][ks] = res['nfind'].get(ks, 0) + 1
            if res['nfind'][ks] <= 3:
                res['findings'].append(dict(key=key, what='%s [%s] %r: %s' % (it['kind'], it['dev'], it['line'][:80], it['what']),
                                            replay=dict(device=it['dev'], line=it['line'], detail=it['what'],
                                                        session=it.get('session'),
                                                        request=it['model'][0] if it['model'] else None)))
        if it['model']:
            mo = replies[ri]
            ri += 1
            res['nmodel'] += 1
            if mo is None:
                continue
            if mo == it['model'][1]:
                res['agree'] += 1
            elif len(res['ties']) < 6:
                res['ties'].append(dict(what='model and real text differ on %s' % it['model'][0][:200],
                                        detail='model=%s real=%s' % (mo[:400], it['model'][1][:400]),
                                        replay=dict(device=it['dev'], line=it['line'], request=it['model'][0],
                                                    real=it['model'][1])))
        if len(res['samples']) < 2 and it['kind'] in ('status', 'disasm-model') and it['model']:
            res['samples'].append(dict(kind=it['kind'], device=it['dev'], line=it['line'][:80], request=it['model'][0][:120]))
    res['distinct'] = list(res['distinct'])
    return res


def explore(ctx):
    t0 = time.time()
    nsess = 4800 if ctx.quick() else 96000
    chunk = 100 if ctx.quick() else 500
    ndirect = 300 if ctx.quick() else 2000
    procs = min(16, os.cpu_count() or 1)
    specs = [(ctx.seed, i, chunk, ndirect, 3.0) for i in range((nsess + chunk - 1) // chunk)]
    total = dict(n=0, agree=0, ties=[], findings=[], nfind={}, dist={}, distinct=set(), samples=[], nmodel=0)
    with multiprocessing.Pool(procs) as pool:
        for r in pool.imap_unordered(_work, specs):
            for k in ('n', 'agree', 'nmodel'):
                total[k] += r[k]
            total['ties'] += r['ties']
            total['findings'] += r['findings']
            total['samples'] += r['samples']
            for k, v in r['nfind'].items():
                total['nfind'][k] = total['nfind'].get(k, 0) + v
            for k, v in r['dist'].items():
                total['dist'][k] = total['dist'].get(k, 0) + v
            total['distinct'] |= set(tuple(x) for x in r['distinct'])
    ctx.note('%d displays checked against the true state, %d of %d texts equal to the model byte for byte, %.1fs on %d processes'
             % (total['n'], total['agree'], total['nmodel'], time.time() - t0, procs))
    for t in total['ties'][:6]:
        ctx.broken.append(dict(kind='tie', what=t['what'][:400], detail=t.get('detail', '')[:900], replay=t.get('replay')))
    seen = {}
    for f in total['findings']:
        ks = json.dumps(f['key'], sort_keys=True)
        seen[ks] = seen.get(ks, 0) + 1
        if seen[ks] <= 2:
            ctx.findings.append(f)
            if seen[ks] == 1:
                ctx.note('property deviation %s x%d, e.g. %s' % (ks, total['nfind'][ks], f['what'][:300]))
    ctx.stats['evaluations'] = total['n']
    ctx.stats['traces_validated_against_impl'] = total['agree']
    ctx.stats['distinct_nontrivial'] = len(total['distinct'])
    ctx.stats['distribution'] = dict(displays=dict(sorted(total['dist'].items())), property_deviations=total['nfind'])
    ctx.samples = total['samples'][:6]


def replay_session(dev, session, kind):
    """Re-run a recorded session (constructor line, prologue, every typed line) on a fresh real Monitor and
    re-judge the display of its last line."""
    install_timer()
    m = re.search(r"'-m', '([^']+)'", session[0])
    os.environ['VERIF_NO_PROLOGUE'] = '1'
    M = Mon(m.group(1) if m else dev)
    try:
        text = ''
        for line in session[1:]:
            k, v, text = M.run(line, 10.0)
        last = session[-1]
        print('session  : %d line(s) re-run; last %r' % (len(session) - 1, last))
        body = text[:-(len(repr(M.m._mpu)) + 2)]
        bad = None
        rng_ = re.search(r'\$([0-9a-f]+)(?::\$([0-9a-f]+))?', last)
        if kind == 'disasm' and rng_:
            st = int(rng_.group(1), 16)
            en = int(rng_.group(2), 16) if rng_.group(2) else st
            bad, _ = check_disasm(body, dev, M, st, en, device_classes()[dev].disassemble)
        elif kind == 'mem' and rng_:
            bad = check_mem(body, dev, M, int(rng_.group(1), 16), int(rng_.group(2) or rng_.group(1), 16))
        elif kind == 'status':
            bad = check_status(text, dev, M.m._mpu)
        else:
            print('output   : %r' % body[:300])
            return True
        print('now      : %s' % (bad or 'the display agrees with the machine state'))
        return bool(bad)
    finally:
        M.close()


def replay(ctx, path):
    obj = json.load(open(path))
    f = obj.get('finding')
    rp = (f or {}).get('replay') or (obj.get('broken') or [{}])[0].get('replay')
    if not rp:
        print(json.dumps(obj, indent=1)[:3000])
        return 0
    print('device   : %s' % rp.get('device'))
    print('line     : %r' % rp.get('line'))
    print('detail   : %s' % rp.get('detail'))
    bad = bool(rp.get('detail'))
    if rp.get('session'):
        bad = replay_session(rp['device'], rp['session'], (f or {}).get('key', {}).get('kind'))
    if rp.get('request'):
        try:
            mo = run_driver([rp['request']])[0]
        except Exception as ex:  # noqa: B902
            mo = 'driver unavailable: %s' % ex
        print('request  : %s' % rp['request'][:300])
        print('model    : %s' % mo[:400])
        if rp.get('real') is not None:
            print('real     : %s' % rp['real'][:400])
            if mo != rp['real']:
                print('DIFF     : [tie] model vs real text')
                bad = True
    if rp.get('request', '') and rp['request'].startswith('repr '):
        # re-evaluate the property on a fresh device object
        t = rp['request'].split(' ')
        dev = t[1]
        u = device_classes()[dev]()
        u.pc, u.a, u.x, u.y, u.sp, u.p = (int(x) for x in t[2:8])
        w = check_status('\n' + repr(u) + '\n', dev, u)
        print('real repr: %r' % repr(u))
        if w:
            print('DIFF     : [property] %s' % w)
            bad = True
    return 1 if bad else 0
