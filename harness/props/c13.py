"""C13 -- the cycle counter advances by the documented count."""
import cpu_props

ID = 'C13'
LEAN_MODULES = ['Py65.Props.C13', 'Py65.Props.C13b']
EXPECTED_THEOREMS = ['Py65.Props.C13.cycles_nmos6502', 'Py65.Props.C13.cycles_org16', 'Py65.Props.C13.cycles_cmos_partial',
                     'Py65.Props.C13.cycles_table_6502', 'Py65.Props.C13.bra_deviation', 'Py65.Props.C13.irq_cycles']
NAMESPACES = ['Py65.Props.C13']
# library helpers (CPython behaviour modelled in lean/Py65/Model/*Rt*.lean ...) that the generated code of these
# modules calls, derived by scanning the Lean sources (harness/rtscan.py); validated against CPython on every run
import rtcheck  # noqa: E402
RT_HELPERS = rtcheck.helpers_for(LEAN_MODULES)
TRUSTED = ['Spec.Cpu / Spec.Cycles (hand-written programming model and documented cycle table, the oracle)', 'translator harness/py2lean.py, validated on every run by exact-state comparison with the real device', 'Py.land/lor/lxor definitions (characterised by theorems, differentially tested)']
ASSUMPTIONS = ['the per-opcode assembly (delta cycles = Spec.stepCycles) is proved for every declared opcode of every device (C13b: cycles_nmos6502, cycles_org16, cycles_cmos_partial) except 65C02 BRA', 'KNOWN FINDING 65C02 BRA: excluded in cycles_table_65c02_partial, witnessed by bra_deviation']
LEVEL = 'proof'
RULE = ('every declared opcode x boundary-biased states (registers, operands, pointers and PC aimed at page/wrap boundaries); distinct = distinct (opcode, register-class, pc-quadrant, touched-cell-count) signatures of executions that ran')


def _opcodes(dev, modes):
    return [i for i in range(256) if modes[i][0] != '???']


SPEC = dict(module='props.c13', devs=['6502', '65C02', '65Org16'], opcodes=_opcodes, aspects={'cyc'}, mode='step',
            n_quick=60, n_thorough=2000, decimal=True)


# the property also quantifies over step/irq/nmi histories: the counter after an interleaving of step(), irq(),
# nmi() and reset() (what one call adds must not depend on what ran before it, e.g. a stale extra-cycle flag)
SPEC_HIST = dict(module='props.c13:SPEC_HIST', devs=['6502', '65C02', '65Org16'], opcodes=_opcodes, aspects={'cyc'},
                 mode='history', n_quick=25, n_thorough=800, decimal=False)


def explore(ctx):
    cpu_props.explore(ctx, SPEC)
    cpu_props.explore(ctx, SPEC_HIST)


def replay(ctx, path):
    return cpu_props.replay(ctx, path)
