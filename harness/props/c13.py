"""C13 -- the cycle counter advances by the documented count."""
import cpu_props

ID = 'C13'
LEAN_MODULES = ['Py65.Props.C13', 'Py65.Props.C13b', 'Py65.Props.C13h', 'Py65.Props.C13t']
EXPECTED_THEOREMS = ['Py65.Props.C13.cycles_nmos6502', 'Py65.Props.C13.cycles_org16', 'Py65.Props.C13.cycles_cmos_partial',
                     'Py65.Props.C13.cycles_table_6502', 'Py65.Props.C13.bra_deviation', 'Py65.Props.C13.irq_cycles',
                     'Py65.Props.C13h.cycles_history', 'Py65.Props.C13h.cycles_history_6502',
                     'Py65.Props.C13h.cycles_monotone_history', 'Py65.Props.C13h.cycles_monotone_prefix',
                     'Py65.Props.C13h.cycles_since_reset', 'Py65.Props.C13h.cycles_history_65c02_exact',
                     'Py65.Props.C13h.bra_step_cycles', 'Py65.Props.C13h.cycles_monotone_history_65c02',
                     'Py65.Props.C13.tables_have_256_entries']
NAMESPACES = ['Py65.Props.C13', 'Py65.Props.C13h']
# library helpers (CPython behaviour modelled in lean/Py65/Model/*Rt*.lean ...) that the generated code of these
# modules calls, derived by scanning the Lean sources (harness/rtscan.py); validated against CPython on every run
import rtcheck  # noqa: E402
RT_HELPERS = rtcheck.helpers_for(LEAN_MODULES)
TRUSTED = ['Spec.Cpu / Spec.Cycles (hand-written programming model and documented cycle table, the oracle)', 'translator harness/py2lean.py, validated on every run by exact-state comparison with the real device', 'Py.land/lor/lxor definitions (characterised by theorems, differentially tested)']
ASSUMPTIONS = ['the per-opcode assembly (delta cycles = Spec.stepCycles) is proved for every declared opcode of every device (C13b: cycles_nmos6502, cycles_org16, cycles_cmos_partial) except 65C02 BRA', 'KNOWN FINDING 65C02 BRA: excluded in cycles_table_65c02_partial, witnessed by bra_deviation',
               'C13h (histories): for every device and every reset-free list of step()/irq()/nmi() calls folded over the GENERATED device operations, started in a well-formed state (6502/65Org16: not waiting), the counter ends at start + documented cycles of every call (cycles_history); well-formedness along the run is NOT assumed, it is the invariant Hist.Inv proved preserved by every call at every opcode byte 0..255 (declared, undeclared, binary and decimal mode; Proofs/HistStep.lean); quantified per call (CycOK): 65C02 non-waiting steps do not execute BRA $80 (C13b exclusion; cycles_history_65c02_exact gives the exact count documented - #BRA for EVERY 65C02 history), 65Org16 opcode cells hold a byte 0..255 (above: IndexError, outside the quantifier); 6502: no side condition (cycles_history_6502); cycles_since_reset: with resets in the list the counter is the documented sum since the last reset, the earlier calls being inside C05 quantifiers (reset start address an address)']
LEVEL = 'proof'
RULE = ('every declared opcode x boundary-biased states (registers, operands, pointers and PC aimed at page/wrap boundaries); distinct = distinct (opcode, register-class, pc-quadrant, touched-cell-count) signatures of executions that ran')


def _opcodes(dev, modes):
    return [i for i in range(256) if modes[i][0] != '???']


SPEC = dict(module='props.c13', devs=['6502', '65C02', '65Org16'], opcodes=_opcodes, aspects={'cyc'}, mode='step',
            n_quick=60, n_thorough=2000, decimal=True)


# the property also quantifies over step/irq/nmi histories: the counter after an interleaving of step(), irq(),
# nmi() and reset() (what one call adds must not depend on what ran before it, e.g. a stale extra-cycle flag)
SPEC_HIST = dict(module='props.c13:SPEC_HIST', devs=['6502', '65C02', '65Org16'], opcodes=_opcodes, aspects={'cyc'},
                 mode='history', n_quick=25, n_thorough=800, decimal=False)


def explore(ctx):
    cpu_props.explore(ctx, SPEC)
    cpu_props.explore(ctx, SPEC_HIST)


def replay(ctx, path):
    return cpu_props.replay(ctx, path)
