"""Tie by regeneration for the monitor's core loops (C16 / C17 / C20): run the translator
`harness/py2lean_mon.py` for one unit before the build (called from `check.py` through the property
module's `pre_build(ctx)`, inside the build lock).

The translator parses `$PY65_REPO/py65/monitor.py` with `ast` and rewrites
`lean/Py65/Gen/Mon<Unit>Gen.lean` iff its text changed; the check then builds
`Py65.Proofs.Mon<Unit>GenEq` (generated = hand model, for all arguments) and `Py65.Props.Cxxg` (the
property theorems restated for the generated definitions) like any other theorem module, so a source
change that breaks an equality shows up as a broken proof.  A refusal (construct outside the
accepted subset, unknown attribute / method / regex, extra state) is a broken tie
(`kind='translator'`), never by itself a violation: the exploration still runs.
"""
import json
import os
import subprocess
import sys

HERE = os.path.dirname(os.path.dirname(os.path.abspath(__file__)))
if HERE not in sys.path:
    sys.path.insert(0, HERE)
from common import LEAN, REPO  # noqa: E402

UNIT_FILES = {'fill': 'MonFillGen.lean', 'run': 'MonRunGen.lean', 'pre': 'MonPreGen.lean'}


def pre_build(ctx, unit):
    rep = os.path.join(ctx.work, 'py2lean_mon_%s.json' % unit)
    env = dict(os.environ, PY65_REPO=REPO)
    p = subprocess.run([sys.executable, os.path.join(HERE, 'py2lean_mon.py'), '--out',
                        os.path.join(LEAN, 'Py65', 'Gen'), '--report', rep, '--units', unit],
                       stdout=subprocess.PIPE, stderr=subprocess.STDOUT, env=env, timeout=120)
    out = p.stdout.decode('utf-8', 'replace')
    r = {}
    try:
        r = json.load(open(rep))
    except Exception:
        pass
    u = (r.get('units') or {}).get(unit, {})
    info = dict(unit=unit, file='lean/Py65/Gen/' + UNIT_FILES[unit], functions=u.get('functions'),
                rewritten=r.get('written'), source_sha256=r.get('source_sha256'), ok=bool(u.get('ok')))
    tr = ctx.stats.setdefault('translator', {})
    tr['monitor'] = info
    if p.returncode != 0 or not r.get('ok') or not u.get('ok'):
        err = u.get('error') or r.get('error') or out
        ctx.broken.append(dict(kind='translator',
                               what='py2lean_mon refused py65/monitor.py (unit %s%s)'
                                    % (unit, ', function %s' % u['function'] if u.get('function') else ''),
                               detail=(err or '')[-1500:], where=u.get('where') or r.get('where'),
                               function=u.get('function')))
        ctx.note('monitor translator REFUSED unit %s: %s' % (unit, (err or '')[:200]))
        return False
    if r.get('written'):
        ctx.note('monitor translator: %s rewritten (py65/monitor.py differs from the pinned translation)'
                 % ', '.join(r['written']))
    return True
