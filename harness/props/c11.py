"""C11 -- Observation is transparent.

Proof level: lean/Py65/Props/C11.lean proves, for the ObservableMemory model (tied to the real
class by C10's correspondence), that with subscribers that answer None -- or none at all -- an
in-range item read returns the cell, an in-range item write stores exactly the value, and that
replaying ANY list of in-range item accesses on a plain memory and on such an ObservableMemory
gives the same values and the same cells (`replay_equiv`).  A device is, for its memory, nothing
but such a list of accesses (the translator refuses any other use of `self.memory`; C05: all
addresses are in range).

Tie = the lock-step experiment itself on the real code: random instruction streams (stack,
indirect, read-modify-write, 65C02 RMB/SMB/TSB/TRB compound assignments, self-modifying runaway
code) executed on MPU(memory=<list of 0x10000>) and on MPU(memory=ObservableMemory(...)) with
None-returning read/write subscribers on random address sets (including none at all, whole
pages, the stack, the zero page, the code, the vectors, aliases a+0x10000), for
py65.devices.mpu6502.MPU and py65.devices.mpu65c02.MPU; after EVERY step the registers,
processorCycles and the complete 64 K memory contents are compared.
"""
import json
import multiprocessing
import random

from props import c10 as _c10

ID = 'C11'
# Props.C11: theorems about the hand model; Proofs.ObsMemGenEq: the model regenerated from the current
# py65/memory.py equals the hand model; Props.C11g: the theorems restated for the regenerated definitions.
# Props.C11h: the device-level statement (n generated step()s on the memory object = n step()s on the plain memory).
LEAN_MODULES = ['Py65.Props.C11', 'Py65.Proofs.ObsMemGenEq', 'Py65.Props.C11g', 'Py65.Props.C11h']
NAMESPACES = ['Py65.Props.C11', 'Py65.Proofs.ObsMemGenEq', 'Py65.Props.C11g', 'Py65.Props.C11h']
# library helpers (CPython behaviour modelled in lean/Py65/Model/*Rt*.lean ...) that the generated code of these
# modules calls, derived by scanning the Lean sources (harness/rtscan.py); validated against CPython on every run
import rtcheck  # noqa: E402
RT_HELPERS = rtcheck.helpers_for(LEAN_MODULES)
LEVEL = 'proof'
USES_GEN = False
pre_build = _c10.pre_build      # tie 1 for py65/memory.py: harness/py2lean_mem.py, before the build
RULE = ('a program run counts as non-trivial when the program wrote to memory and, if subscribers were '
        'placed, at least one read subscriber and one write subscriber were actually called; distinct = '
        'distinct (device, set of executed opcodes, number of distinct cells written, subscriber '
        'configuration class) signatures among those')
TRUSTED = [
    'tie 1 (regeneration): harness/py2lean_mem.py regenerates lean/Py65/Gen/ObsMemGen.lean from the current '
    'py65/memory.py on every run (refusing anything outside its subset); lean/Py65/Proofs/ObsMemGenEq.lean proves '
    'generated = hand model lean/Py65/Model/ObsMem.lean for all arguments, Props/C11g.lean restates the theorems '
    'for the generated __getitem__/__setitem__/__init__/subscribe_to_*.  Modelled, not regenerated: the Python '
    'library behaviour in lean/Py65/Model/PyData.lean (defaultdict, list operations, slice.indices) and the '
    'prelude `call` (a callback call = oracle answer + log entry); the translator itself is trusted',
    'tie 2: the hand model is tied to py65.memory.ObservableMemory by the C10 sampled correspondence',
    'the reading of a device run as a list of in-range item accesses on its memory object: guaranteed '
    'syntactically by the translator (harness/py2lean.py refuses any use of self.memory other than '
    'indexing) and, for the address range, by C05',
    'harness/props/c11.py: program generator and lock-step comparison (registers, processorCycles and all '
    '65536 cells after every step)',
]
ASSUMPTIONS = [
    '8-bit devices (mpu6502, mpu65c02) on a 16-bit ObservableMemory (physMask 0xffff) whose backing list has '
    '0x10000 cells; the plain memory is a Python list of 0x10000 ints',
    'subscribers answer None, do not raise and do not touch the memory or the device',
]
EXPECTED_THEOREMS = ['Py65.Props.C11.obs_transparent_get', 'Py65.Props.C11.obs_transparent_set',
                     'Py65.Props.C11.replay_equiv'] + _c10.GEN_EQ_THEOREMS + [
    'Py65.Props.C11g.obs_transparent_get', 'Py65.Props.C11g.obs_transparent_set', 'Py65.Props.C11g.replay_equiv',
    'Py65.Props.C11h.transparent_run', 'Py65.Props.C11h.transparent_run_unobserved',
    'Py65.Props.C11h.in_range_8bit', 'Py65.Props.C11h.transparent_run_8bit']

LEN = {'imp': 1, 'acc': 1, 'imm': 2, 'zpg': 2, 'zpx': 2, 'zpy': 2, 'inx': 2, 'iny': 2, 'rel': 2, 'zpi': 2,
       'abs': 3, 'abx': 3, 'aby': 3, 'ind': 3, 'iax': 3}
STACK = {'PHA', 'PLA', 'PHP', 'PLP', 'PHX', 'PLX', 'PHY', 'PLY', 'JSR', 'RTS', 'RTI', 'BRK', 'TXS', 'TSX'}
RMW = {'ASL', 'LSR', 'ROL', 'ROR', 'INC', 'DEC', 'TSB', 'TRB'}
REGS = ('a', 'x', 'y', 'sp', 'p', 'pc', 'processorCycles')


def devices():
    from py65.devices.mpu6502 import MPU as A
    from py65.devices.mpu65c02 import MPU as B
    return {'6502': A, '65C02': B}


def classify(table):
    """opcode pools by category from the device's live disassemble table"""
    pools = dict(stack=[], indirect=[], rmw=[], bits=[], store=[], other=[], branch=[])
    for opc, (name, mode) in enumerate(table):
        if name == '???' or name == 'WAI':
            continue
        if name[:3] in ('RMB', 'SMB'):
            pools['bits'].append(opc)
        elif name in STACK:
            pools['stack'].append(opc)
        elif mode in ('inx', 'iny', 'zpi', 'ind', 'iax'):
            pools['indirect'].append(opc)
        elif name in RMW and mode != 'acc':
            pools['rmw'].append(opc)
        elif name in ('STA', 'STX', 'STY', 'STZ'):
            pools['store'].append(opc)
        elif mode == 'rel':
            pools['branch'].append(opc)
        else:
            pools['other'].append(opc)
    return pools


def gen_program(rng, dev, table):
    """A 64 K image (dict of overrides over a seeded background) with an instruction stream at
    `org`, plus subscriber placements.  Returns a JSON-able dict."""
    pools = classify(table)
    org = rng.choice([0x0200, 0x0300, 0x1000, 0x00f0, 0x01f0, 0xff00, 0xfff0 - 96])
    # hot data addresses: operands are aimed at them so that subscribed cells are really hit
    hot = [rng.randrange(0x10000) for _ in range(4)] + [rng.randrange(0x100), 0x100 + rng.randrange(0x100),
                                                        rng.choice([0xf001, 0xf004, 0xfffe, 0xffff, 0x00ff, 0x0100])]
    weights = [('stack', 3), ('indirect', 3), ('rmw', 3), ('store', 2), ('other', 3), ('branch', 1)]
    if pools['bits']:
        weights.append(('bits', 3))
    cats = [c for c, w in weights for _ in range(w) if pools[c]]
    code = []
    n_ins = rng.choice([20, 60, 150, 300])
    for _ in range(n_ins):
        opc = rng.choice(pools[rng.choice(cats)])
        name, mode = table[opc]
        ln = LEN[mode]
        code.append(opc)
        if ln == 2:
            if mode == 'rel':
                code.append(rng.choice([0, 2, 3, 5, 0xfe, 0xfb, 0x10, 0xf0, rng.randrange(256)]))
            elif mode == 'imm':
                code.append(rng.randrange(256))
            else:
                code.append(rng.choice([h & 0xff for h in hot] + [rng.randrange(256), 0xff, 0xfe, 0x00]))
        elif ln == 3:
            if name in ('JMP', 'JSR') and mode == 'abs':
                t = (org + rng.randrange(max(1, len(code)) + 40)) & 0xffff     # mostly back into the code
            else:
                t = (rng.choice(hot) - rng.choice([0, 0, 1, 2, 0x10, rng.randrange(256)])) & 0xffff
            code += [t & 0xff, t >> 8]
    ov = {}
    for i, b in enumerate(code):
        ov[(org + i) & 0xffff] = b
    # zero-page pointers to hot addresses, stack contents pointing back into the code
    for _ in range(12):
        z = rng.randrange(256)
        t = (rng.choice(hot) - rng.choice([0, 1, 0x20])) & 0xffff
        ov.setdefault(z, t & 0xff)
        ov.setdefault((z + 1) & 0xff, t >> 8)
    for h in hot:
        t = (org + rng.randrange(len(code))) & 0xffff          # JMP (ind) / JMP (abs,X) targets
        ov.setdefault(h, t & 0xff)
        ov.setdefault((h + 1) & 0xffff, t >> 8)
    for v in (0xfffa, 0xfffc, 0xfffe):
        t = (org + rng.randrange(len(code))) & 0xffff
        ov.setdefault(v, t & 0xff)
        ov.setdefault(v + 1, t >> 8)
    # subscriber placement
    cfg = rng.choice(['none', 'sparse', 'sparse', 'dense', 'pages', 'everything'])
    subs = []       # [kind, [addresses or [lo, hi] range], cb]
    if cfg != 'none':
        for cb in range(rng.choice([1, 2, 3, 5])):
            for kind in 'RW':
                if cfg == 'sparse':
                    addrs = [rng.choice(hot + [org + rng.randrange(len(code))]) + rng.choice([0, 0, 1, 0x10000, -0x10000])
                             for _ in range(rng.choice([1, 2, 4]))]
                    subs.append([kind, addrs, cb])
                elif cfg == 'dense':
                    h = rng.choice(hot)
                    subs.append([kind, ['range', h - 8, h + 24], cb])
                    subs.append([kind, ['range', 0x1f0, 0x200], cb])
                elif cfg == 'pages':
                    page = rng.choice([0x00, 0x01, org >> 8, 0xff, rng.randrange(256)])
                    subs.append([kind, ['range', page << 8, (page << 8) + 0x100], cb])
                else:
                    subs.append([kind, ['range', 0, 0x10000], cb])
    return dict(dev=dev, org=org, bgseed=rng.randrange(1 << 30), ov={str(k): v for k, v in ov.items()},
                regs=dict(a=rng.randrange(256), x=rng.randrange(256), y=rng.randrange(256),
                          sp=rng.choice([0xff, 0xfd, 0x01, 0x00, rng.randrange(256)]),
                          p=rng.randrange(256) & ~0x08 | rng.choice([0, 0, 8])),
                subs=subs, cfg=cfg,
                load=rng.choice(['subject', 'subject', 'write', 'write', 'write-overrun']))


def image(prog):
    r = random.Random(prog['bgseed'])
    img = list(r.randbytes(0x10000)) if hasattr(r, 'randbytes') else [r.randrange(256) for _ in range(0x10000)]
    for k, v in prog['ov'].items():
        img[int(k)] = v
    return img


def lockstep(prog, steps, classes=None):
    """Returns (difference or None, info).  difference = dict(step=, what=, plain=, observed=)"""
    from py65.memory import ObservableMemory
    classes = classes or devices()
    cls = classes[prog['dev']]
    img = image(prog)
    mode = prog.get('load', 'subject')
    if mode == 'subject':
        plain = list(img)
        backing = list(img)
        obs = ObservableMemory(subject=backing, addrWidth=16)
    else:
        # the same image brought in with the bulk write() in several blocks (how a monitor `load` or a ROM loader
        # fills an ObservableMemory); 'write-overrun' starts with a block that runs past the top of memory (a padded
        # vector tail), mirrored on the plain list by the same slice assignment.  How the cells got their contents
        # must not matter to a program (seeded change C11-5: a stale accessor after write() re-bound the subject).
        plain = [0] * 0x10000
        backing = [0] * 0x10000
        obs = ObservableMemory(subject=backing, addrWidth=16)
        r = random.Random(prog['bgseed'] ^ 0x5a5a)
        cuts = sorted(set([0, 0x10000] + [r.randrange(0x10000) for _ in range(r.choice([1, 2, 4]))]))
        blocks = [(a, img[a:b]) for a, b in zip(cuts, cuts[1:])]
        if mode == 'write-overrun':
            t = 0x10000 - r.choice([8, 16, 6])
            blocks = [(t, img[t:] + [0] * r.choice([1, 8, 16]))] + blocks
        for a, d in blocks:
            obs.write(a, d)
            plain[a:a + len(d)] = d
    calls = {'R': 0, 'W': 0}
    cbs = {}

    def cb(kind, i):
        f = cbs.get((kind, i))
        if f is None:
            if kind == 'R':
                def f(address):
                    calls['R'] += 1
                    return None
            else:
                def f(address, value):
                    calls['W'] += 1
                    return None
            cbs[(kind, i)] = f
        return f

    for kind, addrs, i in prog['subs']:
        if addrs and addrs[0] == 'range':
            addrs = range(addrs[1], addrs[2])
        (obs.subscribe_to_read if kind == 'R' else obs.subscribe_to_write)(addrs, cb(kind, i))
    m1 = cls(memory=plain, pc=prog['org'])
    m2 = cls(memory=obs, pc=prog['org'])
    for m in (m1, m2):
        for k, v in prog['regs'].items():
            setattr(m, k, v)
    executed = set()
    written = 0
    info = dict(steps=0)
    for n in range(steps):
        pc = m1.pc
        opc = plain[pc]
        executed.add(opc)
        e1 = e2 = None
        try:
            m1.step()
        except Exception as ex:
            e1 = type(ex).__name__
        try:
            m2.step()
        except Exception as ex:
            e2 = type(ex).__name__
        if e1 != e2:
            return dict(step=n, pc=pc, opcode=opc, what='exception', plain=e1, observed=e2), info
        if e1 is not None:
            break
        r1 = tuple(getattr(m1, k) for k in REGS)
        r2 = tuple(getattr(m2, k) for k in REGS)
        if r1 != r2:
            return dict(step=n, pc=pc, opcode=opc, what='registers/cycles', plain=dict(zip(REGS, r1)),
                        observed=dict(zip(REGS, r2))), info
        backing = obs._subject            # the list the memory object stores in NOW
        if plain != backing:
            a = next(i for i in range(0x10000) if i >= len(backing) or plain[i] != backing[i])
            return dict(step=n, pc=pc, opcode=opc, what='memory cell %d' % a, plain=plain[a],
                        observed=backing[a] if a < len(backing) else None), info
        info['steps'] = n + 1
    written = sum(1 for i in range(0x10000) if plain[i] != img[i])
    info.update(executed=sorted(executed), written=written, calls=dict(calls))
    return None, info


def name_of(dev, opc, classes):
    n, m = classes[dev].disassemble[opc]
    return '%s %s' % (n, m)


def _worker(args):
    seed, nprog, steps = args
    classes = devices()
    rng = random.Random(seed)
    out = dict(n=0, steps=0, findings=[], sigs=set(), samples=[],
               dist=dict(programs_6502=0, programs_65C02=0, cfg={}, read_calls=0, write_calls=0,
                         programs_with_calls=0, cells_written=0, opcodes_6502=set(), opcodes_65C02=set(),
                         stopped_by_exception=0))
    d = out['dist']
    for k in range(nprog):
        pseed = rng.randrange(1 << 48)
        for dev in ('6502', '65C02'):
            prog = gen_program(random.Random(pseed), dev, classes[dev].disassemble)
            diff, info = lockstep(prog, steps, classes)
            out['n'] += 1
            out['steps'] += info['steps']
            d['programs_' + dev] += 1
            d['cfg'][prog['cfg']] = d['cfg'].get(prog['cfg'], 0) + 1
            if diff is not None:
                out['findings'].append(dict(
                    key=dict(dev=dev, what=diff['what'].split(' ')[0], opcode=diff['opcode']),
                    what='%s step %d at $%04x (%s): %s differ: plain list %s, ObservableMemory %s' % (
                        dev, diff['step'], diff['pc'], name_of(dev, diff['opcode'], classes), diff['what'],
                        diff['plain'], diff['observed']),
                    replay=dict(prog_seed=pseed, dev=dev, steps=steps, diff=diff, subs=prog['subs'][:8])))
                continue
            if info['steps'] < steps:
                d['stopped_by_exception'] += 1
            c = info['calls']
            d['read_calls'] += c['R']
            d['write_calls'] += c['W']
            d['cells_written'] += info['written']
            d['opcodes_' + dev] |= set(info['executed'])
            if c['R'] or c['W']:
                d['programs_with_calls'] += 1
            if info['written'] and (prog['cfg'] == 'none' or (c['R'] and c['W'])):
                out['sigs'].add(hash((dev, tuple(info['executed']), info['written'], prog['cfg'])))
            if len(out['samples']) < 1 and c['R'] and c['W']:
                out['samples'].append(dict(prog_seed=pseed, dev=dev, org=prog['org'], cfg=prog['cfg'],
                                           steps=info['steps'], subscriber_calls=c,
                                           cells_written=info['written'],
                                           distinct_opcodes_executed=len(info['executed']),
                                           result='identical registers, cycles and 65536 cells after every step'))
    d['opcodes_6502'] = sorted(d['opcodes_6502'])
    d['opcodes_65C02'] = sorted(d['opcodes_65C02'])
    out['sigs'] = list(out['sigs'])
    return out


def explore(ctx):
    quick = ctx.quick()
    nprog = 300 if quick else 20000
    steps = 200
    per = 20 if quick else 250
    jobs = [(ctx.seed * 1000003 + 7919 * k + 11, per, steps) for k in range((nprog + per - 1) // per)]
    with multiprocessing.Pool(min(16, len(jobs))) as pool:
        results = pool.map(_worker, jobs)
    n = sum(r['n'] for r in results)
    sigs = set()
    dist = dict(cfg={}, opcodes_6502=set(), opcodes_65C02=set())
    for r in results:
        sigs |= set(r['sigs'])
        ctx.findings += r['findings']
        for s in r['samples']:
            if len(ctx.samples) < 6:
                ctx.samples.append(s)
        for k, v in r['dist'].items():
            if k == 'cfg':
                for c, x in v.items():
                    dist['cfg'][c] = dist['cfg'].get(c, 0) + x
            elif k.startswith('opcodes_'):
                dist[k] |= set(v)
            else:
                dist[k] = dist.get(k, 0) + v
    dist['distinct_opcodes_executed_6502'] = len(dist.pop('opcodes_6502'))
    dist['distinct_opcodes_executed_65C02'] = len(dist.pop('opcodes_65C02'))
    dist['steps'] = sum(r['steps'] for r in results)
    ctx.stats['evaluations'] = n
    ctx.stats['distinct_nontrivial'] = len(sigs)
    ctx.stats['traces_validated_against_impl'] = n
    ctx.stats['distribution'] = dist
    ctx.note('lock-step: %d program runs (%d programs x 2 devices), %d steps compared, %d read / %d write '
             'subscriber calls, %d distinct non-trivial, %d findings' % (
                 n, n // 2, dist['steps'], dist.get('read_calls', 0), dist.get('write_calls', 0), len(sigs),
                 len(ctx.findings)))


def replay(ctx, path):
    obj = json.load(open(path))
    f = obj.get('finding')
    if not f:
        print(json.dumps(obj, indent=1)[:3000])
        return 0
    rp = f['replay']
    classes = devices()
    prog = gen_program(random.Random(rp['prog_seed']), rp['dev'], classes[rp['dev']].disassemble)
    diff, info = lockstep(prog, rp['steps'], classes)
    print('program: seed %d on %s, org $%04x, subscribers %s' % (rp['prog_seed'], rp['dev'], prog['org'],
                                                                json.dumps(prog['subs'])[:400]))
    if diff is None:
        print('no difference in %d steps' % info['steps'])
        return 0
    print('DIFF   : step %d at $%04x opcode $%02x (%s): %s: plain list %s, ObservableMemory %s' % (
        diff['step'], diff['pc'], diff['opcode'], name_of(rp['dev'], diff['opcode'], classes), diff['what'],
        diff['plain'], diff['observed']))
    return 1
