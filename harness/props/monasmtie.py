"""Tie by regeneration for the monitor's remaining commands (C20, unit `asmc`: `do_assemble`,
`_interactive_assemble`, `do_help`, `do_version`, `do_cd`, `do_pwd` and the `help_*` they use): run the translator
`harness/py2lean_monasm.py` before the build (called from `c20.pre_build`, inside the build lock).

The translator parses `$PY65_REPO/py65/monitor.py` (and checks one fact about the standard library's `cmd.py` of
the interpreter that runs the check: `cmd.Cmd.do_help` returns None) and rewrites
`lean/Py65/Gen/MonAsmGen.lean` iff its text changed; the check then builds `Py65.Proofs.MonAsmGenEq` (generated =
hand model `Py65.Model.MonAsm`, for all arguments) and `Py65.Props.C20a`.  A refusal is a broken tie
(`kind='translator'`), never by itself a violation: the exploration still runs.
"""
import json
import os
import subprocess
import sys

HERE = os.path.dirname(os.path.dirname(os.path.abspath(__file__)))
if HERE not in sys.path:
    sys.path.insert(0, HERE)
from common import LEAN, REPO  # noqa: E402


def pre_build(ctx):
    rep = os.path.join(ctx.work, 'py2lean_monasm.json')
    env = dict(os.environ, PY65_REPO=REPO)
    p = subprocess.run([sys.executable, os.path.join(HERE, 'py2lean_monasm.py'), '--out',
                        os.path.join(LEAN, 'Py65', 'Gen'), '--report', rep],
                       stdout=subprocess.PIPE, stderr=subprocess.STDOUT, env=env, timeout=120)
    out = p.stdout.decode('utf-8', 'replace')
    r = {}
    try:
        r = json.load(open(rep))
    except Exception:
        pass
    u = (r.get('units') or {}).get('asmc', {})
    info = dict(unit='asmc', file='lean/Py65/Gen/MonAsmGen.lean', functions=u.get('functions'),
                rewritten=r.get('written'), source_sha256=r.get('source_sha256'), cmd_source=r.get('cmd_source'),
                ok=bool(u.get('ok')))
    ctx.stats.setdefault('translator', {})['monitor_asmc'] = info
    if p.returncode != 0 or not r.get('ok') or not u.get('ok'):
        err = u.get('error') or r.get('error') or out
        ctx.broken.append(dict(kind='translator',
                               what='py2lean_monasm refused py65/monitor.py (unit asmc%s)'
                                    % (', function %s' % u['function'] if u.get('function') else ''),
                               detail=(err or '')[-1500:], where=u.get('where') or r.get('where'),
                               function=u.get('function')))
        ctx.note('monitor translator REFUSED unit asmc: %s' % ((err or '')[:200]))
        return False
    if r.get('written'):
        ctx.note('monitor translator: %s rewritten (py65/monitor.py differs from the pinned translation)'
                 % ', '.join(r['written']))
    return True
