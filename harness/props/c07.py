"""C07 -- the assembler emits the documented encoding or refuses; it never mis-assembles.

Tie 2 (hand model): `Py65.Model.Asm.assemble` (compiled into the driver; protocol lines `asm`, `stm`)
against the REAL `py65.assembler.Assembler(mpu, AddressParser(maxwidth=mpu.ADDR_WIDTH, radix, labels))`
in-process, on

  * the structured stream: 3 devices x every mnemonic of either documented instruction set plus
    non-mnemonics x the 9 operand shapes (i.e. every (mnemonic, mode) pair of the cross product, valid
    and invalid) x operand values {0, 1, page-1, page, page+1, mid, top, top+1, beyond, -1} (branches:
    targets at displacement -129..128 around pc and far away) x assembly addresses {0, mid, top-3 ...
    top} x spellings ($hex, +dec, %bin, bare digits in the default radix 16/10/8/2, label, label+off,
    label-off, 'c') x letter cases x blank/tab placements between and around all tokens;
  * the exhaustive-spelling stream: a few statements under EVERY spelling kind x EVERY blank pattern;
  * the malformed stream: trailing text, doubled commas, stray and missing parentheses, missing
    operands, `[A-z]` oddities (`L_A`, `[\\]`), mnemonic glued to the operand, quote oddities, and
    random edits of valid statements;
  * `Statement.match` itself (`stm`) on arbitrary, NOT whitespace-normalised strings;
  * the documented token syntax: `Spec.Asm.parse` of the Lean Spec (`spp`) against its Python transcription
    `asmcommon.spec_parse` (the soundness oracle below) on every text of every stream.
A disagreement model/real is a broken tie (kind='tie').

SEPARATELY the PROPERTY is evaluated on the real assembler with an oracle that does not use the model
(harness/asmcommon.py: the documented encoding from the tables of lean/Py65/Spec/Isa.lean and the
documented token syntax):
  must-accept  generator-built statements in the promised form whose abstract statement (mnemonic,
               shape, value) has a documented encoding at pc: the real assembler must return exactly
               that encoding (or the absolute twin of a zero-page form);
  must-reject  abstract statement without encoding (pair the device lacks, value / branch out of
               range, code past the top) and every text whose token sequence denotes no statement:
               SyntaxError / OverflowError / KeyError;
  soundness    for EVERY input of every stream: bytes come back only if the token sequence of the text
               denotes (mnemonic, shape, operand word), the word has a value (AddressParser.number of
               the real parser; 'c' literal) and the bytes are a documented encoding of that statement
               (PROVED of the model for every text: theorem `asm_sound`; here it is evaluated on the real
               assembler);
  either       missing closing quote in #'c, CPython int() leniencies ($1_0), a mnemonic glued to '(':
               refusal is fine, bytes must satisfy the soundness rule.
A deviation of the real code is a finding with a replay.
"""
import json
import os
import random
import sys
import time

HERE = os.path.dirname(os.path.dirname(os.path.abspath(__file__)))
if HERE not in sys.path:
    sys.path.insert(0, HERE)
from common import run_driver, widths, DEVNAMES, device_classes  # noqa: E402
import asmcommon as ac  # noqa: E402

ID = 'C07'
LEAN_MODULES = ['Py65.Props.C07'] + ac.ASM_GEN_MODULES + ['Py65.Props.C07g']
NAMESPACES = ['Py65.Props.C07', 'Py65.Proofs.AsmGenEq', 'Py65.Props.C07g']
# library helpers (CPython behaviour modelled in lean/Py65/Model/*Rt*.lean ...) that the generated code of these
# modules calls, derived by scanning the Lean sources (harness/rtscan.py); validated against CPython on every run
import rtcheck  # noqa: E402
RT_HELPERS = rtcheck.helpers_for(LEAN_MODULES)
LEVEL = 'proof'
USES_GEN = True
EXPECTED_THEOREMS = [
    'Py65.Props.C07.asm_core', 'Py65.Props.C07.asm_core_documented', 'Py65.Props.C07.asm_zp_order',
    'Py65.Props.C07.asm_abs_form', 'Py65.Props.C07.asm_branch', 'Py65.Props.C07.disp_spec',
    'Py65.Props.C07.branch_only_rel', 'Py65.Props.C07.asm_backend_sound', 'Py65.Props.C07.asm_refusals',
    'Py65.Props.C07.asm_text', 'Py65.Props.C07.asm_text_imm', 'Py65.Props.C07.asm_text_char',
    'Py65.Props.C07.asm_text_acc', 'Py65.Props.C07.asm_text_none', 'Py65.Props.C07.asm_ws_case',
    'Py65.Props.C07.asm_total', 'Py65.Props.C07.asm_sound_partial', 'Py65.Props.C07.asm_spelling_hex',
    'Py65.Props.C07.asm_sound', 'Py65.Props.C07.asm_sound_documented', 'Py65.Props.C07.asm_sound_label_paren',
    'Py65.Props.C07.asm_sound_charlit_paren', 'Py65.Props.C07.asm_sound_newline',
] + ac.ASM_GEN_THEOREMS + ['Py65.Props.C07g.' + t for t in (
    'asm_core', 'asm_zp_order', 'asm_abs_form', 'asm_branch', 'asm_backend_sound', 'asm_text', 'asm_spelling_hex',
    'asm_text_imm', 'asm_text_char', 'asm_text_acc', 'asm_text_none', 'asm_ws_case', 'asm_total',
    'asm_sound_partial', 'asm_sound', 'asm_sound_documented')]
pre_build = ac.pre_build_asm          # tie 1: regenerate lean/Py65/Gen/AsmGen.lean from the current source
RULE = ('devices x (mnemonic, shape) cross product enumerated; values, addresses, spellings and blank patterns '
        'from boundary classes then random.  distinct = distinct (device, pc, radix, labels, text) inputs; '
        'nontrivial = the real assembler returned bytes, or refused a statement whose mnemonic the device '
        'declares (the refusal is then about mode, range, syntax or the top of memory, not an unknown word)')
TRUSTED = ac.ASM_GEN_TRUSTED + [
    'hand model Py65.Model.Asm (normalize_and_split, Statement regex as a deterministic scanner, ordered '
    'templates, list.index, branch computation, top-of-memory check): its control flow is no longer trusted -- '
    'it is proved equal to the regenerated Py65.Gen.AsmGen (above) -- and it is in addition tied to the code by '
    'the sampled correspondence of this check; opcode tables, widths and formats are the regenerated '
    'Py65.Gen.Tables',
    "CPython 3.12 `re` (Statement, the compiled templates), str.split/strip/upper/join, %-formatting and "
    'int(str, 16) are modelled for ASCII input, not verified',
    'Spec.Asm (documented encoding and token syntax, from Spec/Isa.lean) and its Python transcription in '
    'harness/asmcommon.py (tables parsed from Spec/Isa.lean; spec_parse compared with Spec.Asm.parse on every text '
    'of every run through the `spp` protocol line)',
    'Py65.Model.AddrParser for the operand values (C15)',
]
ASSUMPTIONS = [
    'the theorems of Props/C07g.lean are about the functions GENERATED from the current py65/assembler.py; what they '
    'assume about Python is the library behaviour listed under trusted_base (regex engine, str methods, formatting, '
    'int(), list.index, AddressParser.number) as modelled by lean/Py65/Model/AsmRt.lean, and that Assembler instances '
    'hold no state beyond the mpu, the parser and the template list (the translator refuses any other attribute)',
    'statement text over ASCII; white space is what str.split() splits at in ASCII (space, \\t \\n \\v \\f \\r, '
    '\\x1c..\\x1f) -- the generated streams use space and tab; non-ASCII text is outside the claim (the model '
    'upper-cases and splits ASCII only; e.g. the real assembler accepts U+017F "long s" for S because str.upper() '
    'maps it)',
    'label tables hold identifier-like names (letter or _ first, then letters, digits, _ .; not A/a) with '
    'in-range values; radix is one of 16/10/8/2.  asm_sound needs exactly: parser width = ADDR_WIDTH, in-range '
    'label values, NO LABEL NAME CONTAINS "(" (theorem asm_sound_label_paren: with a label "a(b" the text '
    '"LDA a(b" assembles although its tokens denote nothing)',
    'the assembly address pc is an int in [0, 2^ADDR_WIDTH)',
    'asm_sound is proved in full for the model (every text): bytes come back only if Spec.Asm.parse of the ORIGINAL '
    'text denotes (mnemonic, shape, word), the word has a value and the bytes are Spec.encode of that statement; the '
    'Spec tokeniser was corrected for it in two places (white space = str.split() white space; a character literal '
    "#'(' is one token), see Spec/Asm.lean and notes/asm-sound.md",
]

DIG = '0123456789abcdefghijklmnopqrstuvwxyz'
WS = ['', '', ' ', '\t', '  ', ' \t ']
WS1 = [' ', ' ', '\t', '  ', '\t ', ' \t\t']
BOGUS = ['XYZ', '???', 'LDAX', 'LD', 'RMB8', 'NOP7', 'L_A', '[\\]', 'A', 'X', '']
BRANCHES = ('BCC', 'BCS', 'BEQ', 'BMI', 'BNE', 'BPL', 'BVC', 'BVS', 'BRA')
BASE_LABELS = (('start', 0x0200), ('Zloop', 0x10), ('tgt_1', 0xc000), ('io.port', 0xfe))


def to_base(n, b):
    if n == 0:
        return '0'
    out = []
    while n:
        out.append(DIG[n % b])
        n //= b
    return ''.join(reversed(out))


def recase(rng, s):
    m = rng.randrange(4)
    if m == 0:
        return s.lower()
    if m == 1:
        return s.upper()
    return ''.join(c.upper() if rng.random() < 0.5 else c.lower() for c in s)


SPELL_KINDS = ('hex', 'dec', 'bin', 'bare', 'label', 'label+', 'label-', 'char')


def spell_number(rng, n, radix, kind):
    """A non-negative number in one of the four number spellings (no label)."""
    z = rng.choice(['', '', '0', '000'])
    if kind == 'hex':
        return '$' + z + recase(rng, to_base(n, 16))
    if kind == 'dec':
        return '+' + z + to_base(n, 10)
    if kind == 'bin':
        return '%' + z + to_base(n, 2)
    s = z + (recase(rng, to_base(n, radix)) if radix == 16 else to_base(n, radix))
    if s in ('a', 'A'):
        s = '0' + s          # a bare A is the accumulator, not the number ten
    return s


def spell_value(rng, dev, v, radix, kind):
    """(operand word, extra labels) spelling the value v, or None when the kind cannot spell it."""
    AM = 1 << widths(dev)[1]
    if kind in ('hex', 'dec', 'bin', 'bare'):
        if v < 0:
            return None
        return spell_number(rng, v, radix, kind), ()
    if kind == 'label':
        if not 0 <= v < AM:
            return None
        name = rng.choice(['val', 'L1', '_x9', 'Data.tbl', 'yy', 'Ax', 'add', 'dec', 'c0de', 'f00', 'be_ef', 'FF', 'b1'])
        return name, ((name, v),)
    if kind in ('label+', 'label-'):
        off = rng.choice([0, 1, 2, 0x10, 0xff, 0x1a, rng.randrange(1, 300)])
        base = v - off if kind == 'label+' else v + off
        if not 0 <= base < AM:
            off = 1
            base = v - off if kind == 'label+' else v + off
            if not 0 <= base < AM:
                return None
        name = rng.choice(['base', 'Tbl', 'p_0', 'q', 'bed', 'fade', 'e2', 'DEAD'])
        osp = spell_number(rng, off, radix, rng.choice(('hex', 'dec', 'bin', 'bare')))
        if osp[0] not in '$+%' and not all(c in '0123456789abcdefABCDEF' for c in osp):
            return None
        if osp[0] not in '$+%' and radix != 16 and not osp.isdigit():
            return None
        return name + ('+' if kind == 'label+' else '-') + osp, ((name, base),)
    return None


def build_text(rng, mn, shape, word, ws=None, glue=False):
    """The statement text: blanks, mnemonic in some case, blanks, the shape's token sequence with
    blanks/tabs between and around tokens."""
    w = (lambda: rng.choice(WS)) if ws is None else (lambda: ws)
    X, Y, A = rng.choice('Xx'), rng.choice('Yy'), rng.choice('Aa')
    toks = {'none': [], 'acc': [A], 'imm': ['#' + word], 'dir': [word], 'dirX': [word, ',', X],
            'dirY': [word, ',', Y], 'ind': ['(', word, ')'], 'indX': ['(', word, ',', X, ')'],
            'indY': ['(', word, ')', ',', Y]}[shape]
    s = w() + recase(rng, mn)
    if toks:
        s += ('' if glue else (rng.choice(WS1) if ws is None else (ws or ' ')))
        s += toks[0]
        for t in toks[1:]:
            s += w() + t
    return s + w()


def value_classes(rng, dev, shape, mn, pc):
    W, AW = widths(dev)
    BM, AM = 1 << W, 1 << AW
    if shape in ('none', 'acc'):
        return [0]
    if shape == 'imm':
        return [0, 1, 0x41, BM // 2 - 1, BM // 2, BM - 1, BM, BM + 1, rng.randrange(BM), -1]
    vals = [0, 1, BM - 1, BM, BM + 1, (0x1234 if W == 8 else 0x12345678), AM - 1, AM, AM + 5,
            rng.randrange(BM), rng.randrange(AM), -1]
    if shape == 'dir' and mn in BRANCHES:
        h = BM // 2
        ds = [-h - 2, -h - 1, -h, -h + 1, -2, -1, 0, 1, h - 2, h - 1, h, h + 1, AM // 2, AM // 2 - 1]
        vals = [(pc + 2 + d) % AM for d in ds] + [AM, rng.randrange(AM)]
    return vals


def pcs_for(rng, dev):
    AM = 1 << widths(dev)[1]
    return [0, AM // 2 + rng.randrange(-200, 200), rng.randrange(AM), AM - 4, AM - 3, AM - 2, AM - 1]


# ---------------------------------------------------------------------------------------
# generators: yield dict(case=(dev, pc, radix, labels, text), stream=…, abstract=(mn, shape, val) | None,
#                        promised=bool)
# ---------------------------------------------------------------------------------------

def mk(dev, pc, radix, labels, text, stream, abstract=None, promised=False, kind=''):
    return dict(case=(dev, pc, radix, tuple(labels), text), stream=stream, abstract=abstract, promised=promised,
                kind=kind)


def gen_structured(rng, tier):
    quick = tier == 'quick'
    mns = ac.all_mnemonics() + BOGUS
    for dev in DEVNAMES:
        for mn in mns:
            for shape in ac.SHAPES:
                pcs = pcs_for(rng, dev)
                branch = shape == 'dir' and mn in BRANCHES
                if not branch:
                    pcs = [pcs[0]] + rng.sample(pcs[1:], 2 if quick else 4)
                for pc in pcs:
                    vals = value_classes(rng, dev, shape, mn, pc)
                    if quick and not branch and len(vals) > 6:
                        vals = vals[:3] + rng.sample(vals[3:], 4)
                    for v in vals:
                        for _ in range(1 if quick else 3):
                            radix = rng.choice((16, 16, 10, 8, 2))
                            if shape in ('none', 'acc'):
                                word, extra, kind = '', (), 'none'
                            else:
                                kind = rng.choice(SPELL_KINDS)
                                if kind == 'char':
                                    if shape == 'imm' and 33 <= v < 127 and chr(v) not in '(),':
                                        q = rng.choice('\'"')
                                        word, extra = q + chr(v) + q, ()
                                    else:
                                        kind = 'hex'
                                if kind != 'char':
                                    sp = spell_value(rng, dev, v, radix, kind)
                                    if sp is None:
                                        kind = 'label-' if v < 0 else 'hex'
                                        sp = spell_value(rng, dev, v, radix, kind)
                                    if sp is None:
                                        continue
                                    word, extra = sp
                            labels = BASE_LABELS[:rng.randrange(0, 4)] + extra
                            text = build_text(rng, mn, shape, word)
                            promised = mn != ''
                            yield mk(dev, pc, radix, labels, text, 'structured', (mn.upper(), shape, v), promised, kind)


def gen_exhaustive_spellings(rng, tier):
    """A few statements under every spelling kind x every blank pattern x both register cases."""
    stmts = [('6502', 'LDA', 'indY', 0x10, 0x1000), ('6502', 'STA', 'dirX', 0x1234, 0xfffd), ('65C02', 'JMP', 'indX', 0x80, 0),
             ('6502', 'LDX', 'dirY', 0xff, 0x300), ('65Org16', 'LDA', 'imm', 0x4a, 7), ('65C02', 'ORA', 'ind', 0x7f, 0xfffe),
             ('6502', 'BNE', 'dir', 0x1003, 0x1000), ('65Org16', 'JSR', 'dir', 0x12345, 0xfffffffd), ('6502', 'ROL', 'acc', 0, 5)]
    for dev, mn, shape, v, pc in stmts:
        for kind in SPELL_KINDS:
            for ws in ['', ' ', '\t', '   ', '\t \t']:
                for radix in (16, 10, 8, 2):
                    if kind == 'char':
                        if not (shape == 'imm'):
                            continue
                        word, extra = "'" + chr(v) + "'", ()
                    elif shape in ('none', 'acc'):
                        word, extra = '', ()
                    else:
                        sp = spell_value(rng, dev, v, radix, kind)
                        if sp is None:
                            continue
                        word, extra = sp
                    text = build_text(rng, mn, shape, word, ws=ws)
                    yield mk(dev, pc, radix, BASE_LABELS[:2] + extra, text, 'spellings', (mn, shape, v), True, kind)


MALFORMED_FIXED = [
    'LDA $0010 garbage', 'LDA $10 ,X', 'LDA #$10,X', 'LDA ($10), Y', 'LDA $10,,X', 'LDA $10,X,', 'LDA $10,XY',
    'LDA $10 X', 'LDA $10X', 'LDA ($10,X', 'LDA $10)', 'LDA ($10),Y)', 'LDA (($10),Y', 'LDA ($10)),Y', 'LDA ()',
    'LDA (', 'LDA )', 'LDA ,', 'LDA ,X', 'LDA ( ,X', 'LDA (,X)', 'LDA #', 'LDA # $10', "LDA #'", "LDA #'A", "LDA #'A'",
    "LDA #'AB'", "LDA #'A'B", "LDA #'A'+1", 'LDA #"A"', 'LDA #"A', "LDA #' '", "LDA #','", "LDA #')'", "LDA #'('",
    "LDA #'''", "LDA #'\"'", 'LDA', 'LDA ', 'NOP', 'NOP ', ' NOP', 'NOP NOP', 'NOP $10', 'NOP A', 'NOP X', 'ASL', 'ASL A',
    'ASL a', 'ASL  A ', 'ASL A,X', 'ASL A A', 'LDA A', 'LDA a', 'lda $10', 'LdA $10', 'L_A $10', '[\\] $10', '^^^ $10',
    '`a` $10', 'LDA7 $10', 'LDA8 $10', 'RMB7 $10', 'RMB8 $10', 'RMB $10', 'SMB0 $10,X', '??? ', '???', '??? $10', 'LDAX $10',
    'LDAX $0010', 'LD $10', 'LDA($10),Y', 'LDA($10)', 'LDA#$10', 'LDA$10', 'LDA,$10', 'LDA $1_0', 'LDA #$1_0', 'LDA $ 10',
    'LDA $-10', 'LDA -1', 'LDA #-1', 'LDA #256', 'LDA $10000', 'LDA $FFFF', 'LDA $ffff,x', 'LDA $ffff ,y ', 'LDA $$10',
    'LDA 0x10', 'LDA #0x10', 'LDA +10', 'LDA %101', 'LDA %102', 'LDA +1a', 'LDA start', 'LDA START', 'LDA start+1',
    'LDA start + 1', 'LDA start+', 'LDA start-$1,X', 'LDA (Zloop),y', 'LDA (Zloop , x )', 'LDA nosuch', 'LDA (nosuch),y',
    'JMP ($1234)', 'JMP ($12)', 'JMP ($1234,X)', 'JMP (start)', 'JMP start', 'JSR (start)', 'BNE start', 'BNE $0', 'BNE',
    'BNE $10,X', 'BNE ($10)', 'BNE #$10', 'BNE A', 'STX $1234,Y', 'STX $12,Y', 'STY $12,Y', 'LDX $12,X', 'LDA $12,Z',
    'LDA ($12,Y)', 'LDA ($12),X', 'LDA $12;comment', 'LDA $12 ;comment', 'LDA $12 ; c', 'LDA\t$12', 'LDA \t $12 \t',
    '', ' ', '\t', 'A', 'X', ',', '(', '#', '$', 'LDA $', 'LDA #$', 'LDA %', 'LDA +', 'LDA $G', 'LDA x', 'LDA y', 'LDA (x,x)',
    'INC', 'INC A', 'DEC A', 'BRA $10', 'STZ $10', 'PHX', 'WAI', 'LDA ($10)', 'BIT #$10', 'TSB $10', 'JMP ($10,X)',
    'LDA $10 , X', 'LDA ( $10 , X )', 'LDA ( $10 ) , Y', 'LDA\t(\t$10\t)\t,\tY\t', 'LDA ($10),Y extra', 'LDA ($10),Y,',
    'LDA ($10,X),Y', 'LDA (($10))', 'LDA $10,X,Y', 'LDA $10,Y,X', 'LDA xX', 'LDA $10,xx', 'LDA $10 x', 'LDA $10 y',
]
MUT_ALPHABET = "(),#$%+-'\" \tXYAxya0189FfGg_[]\\^`;:.*=&|<>!~@"
# texts for the Spec.Asm.parse / spec_parse comparison beyond the streams: every white-space character, character
# literals with delimiters and blanks as the quoted character, quotes elsewhere in a word
SPP_FIXED = ["LDA\n$10", "LDA\x0b($10)\x0c,\rY", "LDA\x1c$10\x1d,\x1eX\x1f", "LDA #'('", "LDA #')'", "LDA #','", "LDA #' '",
             "LDA #'\t'", 'LDA #"("', "LDA #'(',X", "LDA (#'('),Y", "LDA #'", "LDA #'(", "LDA #''(", "LDA x#'(", "LDA '#(",
             "LDA #'()", "LDA #'(')", "lda #'a'", "#'(", "( #'( )", "LDA\x00$10", "LDA\x7f$10", "LDA\x85$10", "LDA\xa0$10"]


def gen_malformed(rng, tier):
    quick = tier == 'quick'
    tables = [(), BASE_LABELS, BASE_LABELS + (('x', 7), ('Y', 9), ('foo', 0x10))]
    for text in MALFORMED_FIXED:
        for dev in DEVNAMES:
            for labels in tables[:2]:
                for pc in (0, (1 << widths(dev)[1]) - 2):
                    yield mk(dev, pc, 16, labels, text, 'malformed-fixed')
    seeds = ['LDA $10', 'LDA $1234,X', 'LDA ($10),Y', 'LDA ($10,X)', 'LDA #$10', "LDA #'A'", 'ASL A', 'NOP', 'JMP ($1234)',
             'BNE $0010', 'STA start+1,Y', 'ORA (Zloop)', 'RMB3 $12', 'lda\t( io.port ) , y', 'JMP (tgt_1 , X)']
    n = 9000 if quick else 150000
    for i in range(n):
        s = list(rng.choice(seeds))
        for _ in range(rng.choice((1, 1, 2, 3))):
            op = rng.randrange(4)
            pos = rng.randrange(len(s) + 1)
            ch = rng.choice(MUT_ALPHABET)
            if op == 0 or not s:
                s.insert(pos, ch)
            elif op == 1:
                del s[min(pos, len(s) - 1)]
            elif op == 2:
                s[min(pos, len(s) - 1)] = ch
            else:
                s.insert(pos, rng.choice([' ', ',', ')', '(', 'X', ',X', ' garbage', '\t', '#']))
        dev = DEVNAMES[i % 3]
        AM = 1 << widths(dev)[1]
        pc = rng.choice([0, 0, 0x1000, AM - 3, AM - 2, AM - 1])
        yield mk(dev, pc, rng.choice((16, 16, 10)), tables[i % 3], ''.join(s), 'malformed-random')


def gen_stm(rng, tier):
    """Arbitrary strings for `Statement.match` alone (not normalised)."""
    n = 6000 if tier == 'quick' else 100000
    alpha = "LDAXYlda [\\]^_`@{079 8\t\n\x0b\x1c(),#$'\"xXyY+-g;"
    for t in MALFORMED_FIXED:
        yield t
        yield t + '\n'
        yield t.replace(' ', '  ')
        yield t.replace(' ', '\t')
    for i in range(n):
        k = rng.randrange(0, 14)
        if rng.random() < 0.6:
            head = ''.join(rng.choice('LDA[\\]^_`az@{') for _ in range(rng.choice((2, 3, 3, 3, 4)))) + \
                rng.choice(['', '', '0', '7', '8']) + rng.choice(['', ' ', ' ', '  ', '\t', '\n', ' \x1c'])
            yield head + ''.join(rng.choice(alpha) for _ in range(k))
        else:
            yield ''.join(rng.choice(alpha) for _ in range(k))


# ---------------------------------------------------------------------------------------
# the property oracle (independent of the model)
# ---------------------------------------------------------------------------------------

REFUSALS = ('syntax', 'overflow', 'key')


def denoted(dev, pc, radix, labels, text):
    """The set of documented encodings of what the token sequence of `text` denotes ([] = must refuse),
    plus a short reason; the operand word is valued by the REAL AddressParser.number ('c' literals here).
    This is the right-hand side of the Lean theorem `asm_sound` (Spec.Asm.parse, then `value`, then
    Spec.encode / its absolute twin).  Returns (docs, why, strict) -- strict=False marks the lenient
    readings of the 'either' zone (missing closing quote, a parenthesis as the quoted character)."""
    strict = True
    p = ac.spec_parse(text)
    if p is None:
        return [], 'token sequence denotes no statement', True
    m, shape, word = p
    if shape in ('none', 'acc'):
        v = 0
    else:
        if shape == 'imm' and word[:1] in ('"', "'"):
            c = ac.spec_charlit(word)
            if c is None:
                return [], 'malformed character literal %r' % word, True
            v = ord(c)
            if len(word) == 2 or c in '(),':
                strict = False
        else:
            try:
                v = ac.assembler_for(dev, radix, labels)._address_parser.number(word)
            except (KeyError, OverflowError) as ex:
                return [], 'operand word %r has no value (%s)' % (word, type(ex).__name__), True
    return ac.spec_documented(dev, m, shape, v, pc), '%s %s %d' % (m, shape, v), strict


def judge(it, real):
    """Return None or (key dict, message) when the real assembler breaks the property on this input."""
    dev, pc, radix, labels, text = it['case']
    if real.startswith('other:'):
        return dict(kind='exception', exc=real[6:]), 'exception %s escaped (only SyntaxError/OverflowError/KeyError may)' % real[6:]
    got = ac.parse_ok(real)
    # soundness: every input
    docs, why, _strict = denoted(dev, pc, radix, labels, text)
    if got is not None and got not in docs:
        kind = 'accepted-invalid' if not docs else 'wrong-bytes'
        if 'character literal' in why:
            kind = 'charlit-trailing-text'
        return dict(kind=kind), 'returned %s for a text that denotes %s; documented: %s' % (got, why, docs or 'refusal')
    # completeness: promised forms
    if it['promised'] and it['abstract'] is not None:
        mn, shape, v = it['abstract']
        exp = ac.spec_documented(dev, mn, shape, v, pc)
        if exp:
            if got is None:
                return dict(kind='refused-valid', refusal=real), '%s %s %d at %d: refused (%s), documented encoding %s' % (
                    mn, shape, v, pc, real, exp)
            if got not in exp:
                return dict(kind='wrong-bytes'), '%s %s %d at %d: returned %s, documented %s' % (mn, shape, v, pc, got, exp)
        else:
            if got is not None:
                return dict(kind='accepted-invalid'), '%s %s %d at %d has no documented encoding, returned %s' % (
                    mn, shape, v, pc, got)
            if real not in REFUSALS:
                return dict(kind='exception', exc=real), 'refusal is %s' % real
    return None


# ---------------------------------------------------------------------------------------
# evaluation
# ---------------------------------------------------------------------------------------

def live_history(dev, pc, radix, labels, text, earlier=None):
    """The same statement on ONE long-lived assembler whose shared AddressParser was configured differently before
    (another default radix, the same label names bound elsewhere, edited IN PLACE as the monitor's radix / add_label /
    delete_label do): -> (earlier configuration, result of the second assembly).  What a statement assembles to is a
    function of the statement, the address and the parser's configuration NOW."""
    from py65.assembler import Assembler
    from py65.utils.addressing import AddressParser
    mpu = ac.mpu_of(dev)
    am = (1 << mpu.ADDR_WIDTH) - 1
    import zlib
    h = zlib.crc32(repr((dev, pc, radix, labels, text)).encode('utf-8', 'replace'))
    radix2 = [r for r in (16, 10, 8, 2) if r != radix][h % 3]
    labels2 = tuple((k, (v + 1 + (h >> 3) % 300) & am) for k, v in labels)
    if labels and (h >> 12) % 4 == 0:
        labels2 = labels2[1:]
    if earlier is not None:
        radix2, labels2 = earlier['radix'], tuple(tuple(x) for x in earlier['labels'])
    try:
        parser = AddressParser(maxwidth=mpu.ADDR_WIDTH, radix=radix2, labels=dict(labels2))
    except OverflowError:
        return None
    a = Assembler(mpu, parser)
    try:
        a.assemble(text, pc)
    except BaseException:  # noqa: B902
        pass
    parser.radix = radix
    for k in list(parser.labels):
        del parser.labels[k]
    for k, v in labels:
        parser.labels[k] = v
    try:
        second = 'ok ' + ','.join(str(b) for b in a.assemble(text, pc))
    except BaseException as ex:  # noqa: B902
        second = ac.canon_exc(ex)
    return dict(radix=radix2, labels=[list(x) for x in labels2]), second


def evaluate(items, total):
    lines = [ac.asm_line(*it['case']) for it in items]
    model = run_driver(lines)
    declared = {dev: set(mn for mn, _ in ac.isa()[ac.variant_of(dev)].values()) for dev in DEVNAMES}
    for it, ln, mo in zip(items, lines, model):
        dev, pc, radix, labels, text = it['case']
        re_ = ac.real_asm(dev, pc, radix, labels, text)
        total['n'] += 1
        st = it['stream']
        total['dist'][st] = total['dist'].get(st, 0) + 1
        outcome = re_.split(' ')[0]
        total['outcomes'][outcome] = total['outcomes'].get(outcome, 0) + 1
        if it['abstract'] is not None:
            k = 'shape/' + it['abstract'][1] + '/' + outcome.split(':')[0]
            total['outcomes'][k] = total['outcomes'].get(k, 0) + 1
            if it.get('kind'):
                k = 'spelling/' + it['kind']
                total['outcomes'][k] = total['outcomes'].get(k, 0) + 1
        h = hash(it['case'])
        total['distinct'].add(h)
        first = (text.split() or [''])[0].upper()
        if outcome == 'ok' or first in declared[dev]:
            total['nontriv'].add(h)
        if mo == re_:
            total['agree'] += 1
        elif len(total['mism']) < 25:
            total['mism'].append(dict(request=ln, case=list(it['case']), model=mo, real=re_, stream=st))
        else:
            total['mism_more'] += 1
        bad = judge(it, re_)
        if bad:
            key, msg = bad
            ks = json.dumps(key, sort_keys=True)
            total['nfind'][ks] = total['nfind'].get(ks, 0) + 1
            if total['nfind'][ks] <= 4:
                total['findings'].append(dict(
                    key=key, what='%s pc=%d radix=%d labels=%r statement=%r: %s' % (dev, pc, radix, dict(labels), text, msg),
                    replay=dict(case=list(it['case']), abstract=it['abstract'], promised=it['promised'], real=re_,
                                model=mo, request=ln, stream=st)))
        if total['n'] % 4 == 0 and not re_.startswith('other:init'):
            lh = live_history(dev, pc, radix, labels, text)
            total['outcomes']['live-assembler histories'] = total['outcomes'].get('live-assembler histories', 0) + 1
            if lh is not None and lh[1] != re_:
                ks = json.dumps(dict(kind='history-dependent', device=dev), sort_keys=True)
                total['nfind'][ks] = total['nfind'].get(ks, 0) + 1
                if total['nfind'][ks] <= 4:
                    total['findings'].append(dict(
                        key=dict(kind='history-dependent', device=dev),
                        what='%s pc=%d radix=%d labels=%r statement=%r: a long-lived assembler that assembled the same text before '
                             'under radix=%d labels=%r (parser then re-configured in place) gives %s, a fresh one gives %s'
                             % (dev, pc, radix, dict(labels), text, lh[0]['radix'], dict(map(tuple, lh[0]['labels'])), lh[1], re_),
                        replay=dict(case=list(it['case']), abstract=it['abstract'], promised=it['promised'], real=re_,
                                    model=mo, request=ln, stream=st, live=dict(earlier=lh[0], second=lh[1]))))
        if outcome == 'ok' and st not in total['sampled'] and len(text) > 6:
            total['sampled'].add(st)
            total['samples'].append(dict(request=ln, statement=text, device=dev, pc=pc, real=re_, model=mo, stream=st))


def explore(ctx):
    t0 = time.time()
    rng = random.Random('c07-%d' % ctx.seed)
    total = dict(n=0, agree=0, mism=[], mism_more=0, findings=[], nfind={}, dist={}, outcomes={}, distinct=set(),
                 nontriv=set(), samples=[], sampled=set())
    items = list(gen_exhaustive_spellings(rng, ctx.tier))
    items += list(gen_malformed(rng, ctx.tier))
    items += list(gen_structured(rng, ctx.tier))
    B = 25000
    for i in range(0, len(items), B):
        evaluate(items[i:i + B], total)
    ctx.note('asm: %d statements, %d agree with the model, %.1fs' % (total['n'], total['agree'], time.time() - t0))
    # Statement.match alone
    texts = list(gen_stm(rng, ctx.tier))
    model = run_driver([ac.stm_line(t) for t in texts])
    stm_bad = 0
    for t, mo in zip(texts, model):
        re_ = ac.real_stm(t)
        total['n'] += 1
        total['dist']['stm'] = total['dist'].get('stm', 0) + 1
        k = 'stm/' + re_.split(' ')[0]
        total['outcomes'][k] = total['outcomes'].get(k, 0) + 1
        if mo == re_:
            total['agree'] += 1
        else:
            stm_bad += 1
            if len(total['mism']) < 25:
                total['mism'].append(dict(request=ac.stm_line(t), case=['stm', t], model=mo, real=re_, stream='stm'))
    ctx.note('stm: %d strings, %d disagreements, total %.1fs' % (len(texts), stm_bad, time.time() - t0))
    # the documented token syntax: Lean Spec.Asm.parse vs the harness oracle spec_parse, on every text
    ptexts = sorted(set(it['case'][4] for it in items) | set(texts) | set(SPP_FIXED))
    ptexts = [t for t in ptexts if all(ord(c) < 256 for c in t)]
    model = run_driver([ac.spp_line(t) for t in ptexts])
    spp_bad = 0
    for t, mo in zip(ptexts, model):
        py = ac.spec_parse_str(t)
        total['n'] += 1
        total['dist']['spp'] = total['dist'].get('spp', 0) + 1
        k = 'spp/' + py.split(' ')[0]
        total['outcomes'][k] = total['outcomes'].get(k, 0) + 1
        if mo == py:
            total['agree'] += 1
        else:
            spp_bad += 1
            if spp_bad <= 8:
                ctx.broken.append(dict(kind='tie', what='Spec.Asm.parse (Lean) and asmcommon.spec_parse disagree on %r' % (t,),
                                       detail='lean=%s python=%s' % (mo, py),
                                       replay=dict(request=ac.spp_line(t), case=['spp', t], model=mo, real=py, stream='spp')))
    ctx.note('spp: %d texts, %d disagreements, total %.1fs' % (len(ptexts), spp_bad, time.time() - t0))
    charlit_sweep(ctx)
    for m in total['mism'][:8]:
        ctx.broken.append(dict(kind='tie', what='model and real assembler disagree on %r' % (m['case'][-1],),
                               detail='model=%s real=%s stream=%s case=%r' % (m['model'], m['real'], m['stream'], m['case']),
                               replay=m))
    if total['mism']:
        ctx.note('model/real disagreements: %d' % (len(total['mism']) + total['mism_more']))
    total['findings'].sort(key=lambda f: (len(f['replay']['case'][3]), len(f['replay']['case'][4]), f['replay']['case'][0]))
    seen = {}
    for f in total['findings']:
        ks = json.dumps(f['key'], sort_keys=True)
        seen[ks] = seen.get(ks, 0) + 1
        if seen[ks] <= 2:
            ctx.findings.append(f)
            if seen[ks] == 1:
                ctx.note('property deviation %s x%d, e.g. %s' % (ks, total['nfind'][ks], f['what'][:260]))
    ctx.stats['evaluations'] = total['n']
    ctx.stats['traces_validated_against_impl'] = total['agree']
    ctx.stats['distinct_nontrivial'] = len(total['nontriv'])
    ctx.stats['distribution'] = dict(streams=total['dist'], outcomes=total['outcomes'],
                                     distinct_inputs=len(total['distinct']),
                                     property_deviations=dict(total['nfind']))
    ctx.samples = total['samples'][:6]


def charlit_sweep(ctx):
    """Completeness of the character-literal spelling, judged from the property text alone (not from Spec.Asm, whose
    tokeniser was written to mirror what py65 accepts): `<mnemonic> #'c'` and `#"c"` must assemble to the immediate
    opcode followed by ord(c) for EVERY printable ASCII character c, on every device."""
    from py65.assembler import Assembler
    from py65.utils.addressing import AddressParser
    classes = device_classes()
    n = 0
    for dev in DEVNAMES:
        W, AW = widths(dev)
        asm = Assembler(classes[dev](), AddressParser(maxwidth=AW))
        for code in range(0x20, 0x7f):
            ch = chr(code)
            for q in "'\"":
                for text, opc in (("LDA #%s%s%s" % (q, ch, q), 0xa9), ("cpx  #%s%s%s" % (q, ch, q), 0xe0)):
                    n += 1
                    try:
                        got = list(asm.assemble(text, 0x1000))
                        out = None if got == [opc, code] else 'returned %r' % (got,)
                    except (SyntaxError, OverflowError, KeyError) as ex:
                        out = 'refused (%s)' % type(ex).__name__
                    except Exception as ex:  # noqa: B902
                        out = 'raised %s' % type(ex).__name__
                    if out:
                        ctx.findings.append(dict(
                            key=dict(aspect='charlit-refused' if out.startswith('refused') else 'charlit-wrong', ch=code),
                            what='%s: %r (the character literal of $%02x) %s; documented encoding [%d, %d]' % (
                                dev, text, code, out, opc, code),
                            replay=dict(case=[dev, 0x1000, 16, [], text], charlit=code)))
                        break
                else:
                    continue
                break
    ctx.stats['evaluations'] = ctx.stats.get('evaluations', 0)
    ctx.stats.setdefault('extra', {})['charlit_sweep_statements'] = n
    ctx.note('character literals: %d statements (every printable ASCII character, both quotes, all devices)' % n)


def replay(ctx, path):
    obj = json.load(open(path))
    f = obj.get('finding')
    rp = (f or {}).get('replay') or (obj.get('broken') or [{}])[0].get('replay')
    if not rp:
        print(json.dumps(obj, indent=1)[:3000])
        return 0
    c = rp['case']
    if rp.get('charlit') is not None:
        from py65.assembler import Assembler
        from py65.utils.addressing import AddressParser
        dev, pc, text, code = c[0], c[1], c[4], rp['charlit']
        opc = 0xa9 if text.upper().startswith('LDA') else 0xe0
        try:
            got = list(Assembler(device_classes()[dev](), AddressParser(maxwidth=widths(dev)[1])).assemble(text, pc))
        except Exception as ex:  # noqa: B902
            got = type(ex).__name__
        print('input    : %r on the %s at $%x' % (text, dev, pc))
        print('real     : %r' % (got,))
        print('documented: %r (immediate opcode, then the character code $%02x)' % ([opc, code], code))
        if got != [opc, code]:
            print('DIFF     : [property] the character literal of $%02x cannot be spelled' % code)
            return 1
        return 0
    if c[0] == 'stm':
        ln, re_ = ac.stm_line(c[1]), ac.real_stm(c[1])
        it = None
    elif c[0] == 'spp':
        ln, re_ = ac.spp_line(c[1]), ac.spec_parse_str(c[1])
        it = None
    else:
        case = (c[0], c[1], c[2], tuple(tuple(x) for x in c[3]), c[4])
        ln, re_ = ac.asm_line(*case), ac.real_asm(*case)
        ab = rp.get('abstract')
        it = dict(case=case, abstract=tuple(ab) if ab else None, promised=rp.get('promised', False), stream=rp.get('stream'))
    try:
        mo = run_driver([ln])[0]
    except Exception as ex:  # noqa: B902
        mo = 'driver unavailable: %s' % ex
    print('request  :', ln)
    print('input    : %r' % (c[-1],))
    print('real     :', re_)
    print('model    :', mo)
    bad = False
    if it is not None and rp.get('live'):
        lh = live_history(*it['case'], earlier=rp['live'].get('earlier'))
        print('history  : the same text first under %r, then the parser re-configured in place -> %s (a fresh assembler: %s)'
              % (lh[0] if lh else None, lh[1] if lh else None, re_))
        if lh is not None and lh[1] != re_:
            print('DIFF     : [property] what the statement assembles to depends on what the assembler assembled before')
            bad = True
    if it is not None:
        docs, why, strict = denoted(*it['case'])
        print('denotes  : %s -> documented %s%s' % (why, docs or 'refusal', '' if strict else ' (lenient reading)'))
        j = judge(it, re_)
        if j:
            print('DIFF     : [property] %s' % j[1])
            bad = True
    if mo != re_:
        print('DIFF     : [tie] model %s vs real %s' % (mo, re_))
        bad = True
    return 1 if bad else 0
