"""C20 -- no input line crashes the monitor; rejected commands change nothing.

Proof level: the theorems of lean/Py65/Props/C20.lean hold of the hand-written model
lean/Py65/Model/MonCmd.lean (`_preprocess_line`, cmd.Cmd.parseline/onecmd/emptyline, shlex.split,
the register/radix/width/label/breakpoint commands, reset/mpu) for ALL lines and ALL prior states.
This module ties that model to the real `py65.monitor.Monitor.onecmd` (correspondence, DESIGN.md
section 2.6) and evaluates the PROPERTY on the real code directly.

Sessions of 1-30 lines on all three devices.  Lines come from the command grammar: every long
command and every shortcut x argument classes (well-formed / malformed / out-of-range / over-long)
x noise (leading blanks and tabs, dots, trailing blanks, `;` comments outside and inside quotes,
unbalanced quotes, exotic blanks, `!` / `?` prefixes, empty lines, random character mutations).
`cd` / `load` / `save` only see names inside a scratch directory (the process cwd is a scratch
directory under .work); URLs are never fetched (`urlopen` is stubbed in this process).

After every line, on the REAL monitor: return value, any escaping exception, a full snapshot
(device, registers, memory hash, labels, breakpoints, radix, width), `lastcmd`, the text printed.

 * PROPERTY oracle (does not use the Lean model):
     - an exception escaping `onecmd` is a violation;
     - a true return value requires a quit form (quit, q, x, exit, EOF, possibly with arguments) or
       an empty line repeating one; a structured quit form must return true;
     - a line the monitor itself refuses (its output carries `*** Unknown syntax`, `Syntax error`,
       `Label not found` / `Bad label`, `Overflow`, `Illegal …`, `Invalid register`, `Minimum terminal
       width`, `Unknown MPU` or an absorbed traceback) must leave the snapshot exactly as it was;
       `registers` is judged pair by pair: a register may change only if the line names it, only to a
       value that fits its width, and structured lines must assign exactly the valid pairs;
     - structured well-formed lines must have their documented effect (label / breakpoint / radix /
       width by construction);
     - a twin monitor is fed, line by line, the canonical long form without noise: return value,
       snapshot and (blank-normalised) output must agree.
 * TIE: the same session is sent to the Lean model (`cmdline …`); per line the model's exit flag,
   status flag, verdict class, per-pair outcomes, `lastcmd` and the whole state must agree with the
   real monitor.  Disagreement = broken tie, not a violation.
"""
import json
import multiprocessing
import os
import random
import re
import shutil
import sys
import time

HERE = os.path.dirname(os.path.dirname(os.path.abspath(__file__)))
if HERE not in sys.path:
    sys.path.insert(0, HERE)
from common import run_driver, WORK  # noqa: E402
from props.moncommon import (Mon, DEVS, WIDTHS, install_timer, core_of, tohex, unhex)  # noqa: E402

ID = 'C20'
LEAN_MODULES = ['Py65.Props.C20', 'Py65.Proofs.MonPreGenEq', 'Py65.Proofs.MonCmdGenEq', 'Py65.Props.C20g',
                'Py65.Proofs.MonCompose', 'Py65.Props.C20h', 'Py65.Proofs.MonAsmGenEq', 'Py65.Props.C20a',
                'Py65.Proofs.MonCompose2', 'Py65.Props.C20i']
NAMESPACES = ['Py65.Props.C20', 'Py65.Proofs.MonPreGenEq', 'Py65.Proofs.MonCmdGenEq', 'Py65.Props.C20g',
              'Py65.Proofs.MonCompose', 'Py65.Props.C20h', 'Py65.Proofs.MonAsmGenEq', 'Py65.Props.C20a',
              'Py65.Proofs.MonCompose2', 'Py65.Props.C20i']
# library helpers (CPython behaviour modelled in lean/Py65/Model/*Rt*.lean ...) that the generated code of these
# modules calls, derived by scanning the Lean sources (harness/rtscan.py); validated against CPython on every run
import rtcheck  # noqa: E402
RT_HELPERS = rtcheck.helpers_for(LEAN_MODULES)
LEVEL = 'proof'
USES_PROLOGUE = True
# Py65.Proofs.MonCompose imports Py65.Proofs.MonIOGenEq, which imports the CPU-generated Gen/Devices (class widths)
USES_GEN = True
EXPECTED_THEOREMS = [
    'Py65.Props.C20.dispatch_total', 'Py65.Props.C20.quit_forms', 'Py65.Props.C20.rejected_unchanged',
    'Py65.Props.C20.registers_exact', 'Py65.Props.C20.shortcut_equiv', 'Py65.Props.C20.quit_forms_exit',
    # tie by regeneration: generated table and _preprocess_line = hand model, theorems restated for them
    'Py65.Proofs.MonPreGenEq.shortcuts_eq', 'Py65.Proofs.MonPreGenEq.for1_eq', 'Py65.Proofs.MonPreGenEq.for2_eq',
    'Py65.Proofs.MonPreGenEq.preprocess_eq',
    'Py65.Props.C20g.preprocess_is_generated', 'Py65.Props.C20g.shortcuts_is_generated',
    'Py65.Props.C20g.shortcut_equiv', 'Py65.Props.C20g.dispatch_total',
    # tie by regeneration, unit `cmds`: the dispatcher (Monitor.onecmd, cmd.Cmd.onecmd/parseline/default/emptyline)
    # and the state-owning commands = hand model, for all arguments
    'Py65.Proofs.MonCmdGenEq.doNames_eq', 'Py65.Proofs.MonCmdGenEq.identchars_eq',
    'Py65.Proofs.MonCmdGenEq.while1_eq', 'Py65.Proofs.MonCmdGenEq.parseline_eq',
    'Py65.Proofs.MonCmdGenEq.do_quit_eq', 'Py65.Proofs.MonCmdGenEq.do_radix_eq', 'Py65.Proofs.MonCmdGenEq.do_width_eq',
    'Py65.Proofs.MonCmdGenEq.do_add_label_eq', 'Py65.Proofs.MonCmdGenEq.addLabel_ok_iff',
    'Py65.Proofs.MonCmdGenEq.do_delete_label_eq', 'Py65.Proofs.MonCmdGenEq.do_show_labels_eq',
    'Py65.Proofs.MonCmdGenEq.registers_for1_eq', 'Py65.Proofs.MonCmdGenEq.do_registers_eq',
    'Py65.Proofs.MonCmdGenEq.getattr_eq', 'Py65.Proofs.MonCmdGenEq.Cmd_onecmd_eq',
    'Py65.Proofs.MonCmdGenEq.onecmd_eq', 'Py65.Proofs.MonCmdGenEq.onecmd_eq_empty',
    'Py65.Proofs.MonCmdGenEq.onecmd_never_raises', 'Py65.Proofs.MonCmdGenEq.call_do_sim',
    'Py65.Proofs.MonCmdGenEq.onecmd_diverges', 'Py65.Proofs.MonCmdGenEq.onecmd_sim',
    'Py65.Proofs.MonCmdGenEq.onecmd_truthy', 'Py65.Proofs.MonCmdGenEq.onecmd_quit',
    # ... and the property theorems restated for the generated dispatcher / commands
    'Py65.Props.C20g.onecmd_never_raises', 'Py65.Props.C20g.onecmd_returns', 'Py65.Props.C20g.onecmd_needs_noloop',
    'Py65.Props.C20g.quit_forms', 'Py65.Props.C20g.quit_forms_exit', 'Py65.Props.C20g.rejected_unchanged',
    'Py65.Props.C20g.refusals_shown', 'Py65.Props.C20g.registers_exact', 'Py65.Props.C20g.commands_is_generated',
    # composition (builder `honest`): the generated commands of the other units plugged into the generated dispatcher;
    # OthModels / Ext.Honest discharged call by call
    'Py65.Proofs.MonCompose.onecmd_sim_at', 'Py65.Proofs.MonCompose.onecmd_rejected_at',
    'Py65.Proofs.MonCompose.onecmdL_dispatched',
    'Py65.Proofs.MonCompose.models_fill', 'Py65.Proofs.MonCompose.models_load', 'Py65.Proofs.MonCompose.models_goto',
    'Py65.Proofs.MonCompose.models_ret', 'Py65.Proofs.MonCompose.models_step',
    'Py65.Proofs.MonCompose.fill_honest', 'Py65.Proofs.MonCompose.load_honest', 'Py65.Proofs.MonCompose.goto_honest',
    'Py65.Proofs.MonCompose.extG_honest_at',
    'Py65.Proofs.MonCompose.addBp_model', 'Py65.Proofs.MonCompose.delBp_model',
    'Py65.Proofs.MonCompose.models_add_breakpoint', 'Py65.Proofs.MonCompose.models_delete_breakpoint',
    'Py65.Proofs.MonCompose.models_show_breakpoints', 'Py65.Proofs.MonCompose.models_save',
    'Py65.Proofs.MonCompose.models_mem', 'Py65.Proofs.MonCompose.models_cycles', 'Py65.Proofs.MonCompose.models_tilde',
    'Py65.Proofs.MonCompose.models_disassemble', 'Py65.Proofs.MonCompose.coreOfIo_resetSt',
    'Py65.Proofs.MonCompose.models_reset', 'Py65.Proofs.MonCompose.models_mpu',
    'Py65.Proofs.MonCompose.models_at', 'Py65.Proofs.MonCompose.callOK_of_rejected',
    'Py65.Proofs.MonCompose.onecmd_sim_composed', 'Py65.Proofs.MonCompose.onecmd_rejected_composed',
    'Py65.Props.C20h.rejected_unchanged_composed', 'Py65.Props.C20h.never_raises_composed',
    'Py65.Props.C20h.returns_or_nofuel_composed', 'Py65.Props.C20h.returns_composed',
    'Py65.Props.C20h.onecmd_agrees_composed', 'Py65.Props.C20h.oth_models_composed',
    'Py65.Props.C20h.ext_honest_composed', 'Py65.Props.C20h.refusals_composed',
    # tie by regeneration, unit `asmc`: do_assemble, _interactive_assemble, do_help, do_version, do_cd, do_pwd and
    # the help_* texts = hand model Py65.Model.MonAsm, for all arguments and all values of the parameters
    'Py65.Proofs.MonAsmGenEq.shortcuts_eq', 'Py65.Proofs.MonAsmGenEq.help_assemble_eq',
    'Py65.Proofs.MonAsmGenEq.help_cd_eq', 'Py65.Proofs.MonAsmGenEq.help_pwd_eq',
    'Py65.Proofs.MonAsmGenEq.help_version_eq', 'Py65.Proofs.MonAsmGenEq.help_help_eq',
    'Py65.Proofs.MonAsmGenEq.do_version_eq', 'Py65.Proofs.MonAsmGenEq.do_pwd_eq', 'Py65.Proofs.MonAsmGenEq.do_cd_eq',
    'Py65.Proofs.MonAsmGenEq.do_help_eq', 'Py65.Proofs.MonAsmGenEq.setSlice_eq',
    'Py65.Proofs.MonAsmGenEq.interactive_try1_eq', 'Py65.Proofs.MonAsmGenEq.interactive_while1_eq',
    'Py65.Proofs.MonAsmGenEq.interactive_assemble_eq', 'Py65.Proofs.MonAsmGenEq.do_assemble_eq',
    # ... and the property theorems for the generated commands with the GENERATED assembler plugged in
    'Py65.Props.C20a.assemble_rejected_unchanged', 'Py65.Props.C20a.assemble_rejected_session',
    'Py65.Props.C20a.assemble_writes_encoding', 'Py65.Props.C20a.assemble_writes_encoding_dev8',
    'Py65.Props.C20a.assemble_needs_range', 'Py65.Props.C20a.interactive_assemble_blank',
    'Py65.Props.C20a.interactive_assemble_accepted', 'Py65.Props.C20a.interactive_assemble_refused',
    'Py65.Props.C20a.interactive_assemble_wraps', 'Py65.Props.C20a.interactive_assemble_session',
    'Py65.Props.C20a.asmG_refusals', 'Py65.Props.C20a.interactive_assemble_start',
    'Py65.Props.C20a.display_commands_pure', 'Py65.Props.C20a.cd_changes_cwd',
    # FULL composition (builder asmhon): UntModels / AsmHonest of C20h discharged for the generated do_assemble (+
    # _interactive_assemble), do_help, do_version, do_cd, do_pwd through the adapter Model/MonCompose2Rt.lean
    'Py65.Proofs.MonCompose2.doAssemble_kept', 'Py65.Proofs.MonCompose2.asm_kept',
    'Py65.Proofs.MonCompose2.asm_rejected_end', 'Py65.Proofs.MonCompose2.asm_honest',
    'Py65.Proofs.MonCompose2.models_assemble', 'Py65.Proofs.MonCompose2.models_help',
    'Py65.Proofs.MonCompose2.models_version', 'Py65.Proofs.MonCompose2.models_cd',
    'Py65.Proofs.MonCompose2.models_pwd', 'Py65.Proofs.MonCompose2.unt_models',
    'Py65.Proofs.MonCompose2.models_at2', 'Py65.Proofs.MonCompose2.callOK2_of_rejected',
    'Py65.Proofs.MonCompose2.onecmd_sim_composed2', 'Py65.Proofs.MonCompose2.onecmd_rejected_composed2',
    'Py65.Props.C20i.unt_models_generated', 'Py65.Props.C20i.asm_honest_generated',
    'Py65.Props.C20i.rejected_unchanged_fully_composed', 'Py65.Props.C20i.rejected_unchanged_composed_instance',
    'Py65.Props.C20i.onecmd_agrees_fully_composed', 'Py65.Props.C20i.assemble_refusals_fully_composed',
    'Py65.Props.C20i.assemble_keeps_session', 'Py65.Props.C20i.disassemble_inside_assemble_kept',
    'Py65.Props.C20i.inputOK_exQ2',
]
RULE = ('a line counts as non-trivial when the real monitor dispatched it to a command or refused it '
        '(i.e. everything except blank lines with nothing to repeat); distinct = distinct '
        '(device, dispatched command word, argument class, noise class, outcome class) tuples among those, '
        'outcome class in {ok, exit, unknown, syntax, label, overflow, illegal, raised}')
TRUSTED = [
    'REGENERATED on every run: Monitor._add_shortcuts (the table as data, dict order included) and '
    'Monitor._preprocess_line (comment loop with the quote toggle, strip(\' \\t\').lstrip(\'.\'), the ~ special '
    'case, the shortcut loop with `line == shortcut` and the regular expression) are translated from the current '
    'py65/monitor.py by harness/py2lean_mon.py into lean/Py65/Gen/MonPreGen.lean; '
    'Py65.Proofs.MonPreGenEq.preprocess_eq / shortcuts_eq prove them equal to the hand model '
    '(MonCmd.preprocessL, MonCmd.shortcuts) for ALL lines, and Py65.Props.C20g restates shortcut_equiv and '
    'dispatch_total for the generated definitions.  A source change that breaks the equality, or that the '
    'translator refuses (e.g. any other regex literal), is a broken tie',
    'REGENERATED on every run (unit `cmds`, harness/py2lean_moncmd.py -> lean/Py65/Gen/MonCmdGen.lean): '
    'Monitor.onecmd (preprocess, cmd.Cmd.onecmd inside try/except, status line unless the line starts with quit, '
    'return result), Monitor._output_mpu_status, do_registers, do_radix, do_width, do_add_label, do_delete_label, '
    'do_show_labels, do_quit, the help_* they call, the table of do_* method names collected from class Monitor '
    '(and cmd.Cmd), and -- from the INSTALLED standard library source, pinned by sha256 '
    'fb82a8c4e44e5b559c88d516d79051534cec69a463df97defe05ac8a261f0a0d (CPython 3.12.1; another text is a refusal) -- '
    'cmd.Cmd.onecmd / parseline / default / emptyline and cmd.Cmd.identchars.  Py65.Proofs.MonCmdGenEq proves them '
    'equal to the hand model Py65.Model.MonCmd for ALL arguments (parseline_eq, Cmd_onecmd_eq, onecmd_eq, '
    'do_*_eq, onecmd_sim), Py65.Props.C20g restates quit_forms, quit_forms_exit, rejected_unchanged, registers_exact '
    'and the totality of the dispatcher for the generated functions.  The commands that are NOT translated '
    '(help, version, reset, mpu, assemble, disassemble, step, return, goto, cycles, tilde, cd, pwd, load, save, fill, '
    'mem, the breakpoint commands) are the parameter `oth` of the generated dispatcher; the theorems assume of them '
    'exactly `OthModels oth ext` (they end, do to the session core what MonCmd.runCommand says, leave lastcmd '
    'alone, return no true value) resp. `OthFalsy oth` -- tied by the sampled correspondence of this check and by '
    'C16 / C17 / C19',
    'library behaviour the generated text of unit `cmds` calls, modelled in lean/Py65/Model/MonCmdRt.lean (and '
    'MonGenRt / MonCmd / AddrParser): getattr / hasattr(self, \'do_...\') = membership in the collected table; '
    'setattr(self._mpu, name, v) for the six register attributes; repr of a str (%r); KeyError.args[0] of '
    'AddressParser.number (keyErrorArg0); dict get/set/del/keys/values, zip, list.sort on (int, str) tuples; '
    'str.strip() / lower(); self.stdout.write(text + newline) = one output entry; re.findall for exactly the pattern '
    'string ([^=,\\s]*)=([^=,\\s]*) (MonCmd.findPairs); shlex.split; int(); %-formatting; traceback text (tb) and '
    'repr(self._mpu) (mpuRepr) are uninterpreted parameters; KeyboardInterrupt (asynchronous) and RecursionError '
    '(the diverging empty-line recursion: theorem onecmd_diverges) are outside the model',
    'REGENERATED on every run (unit `asmc`, harness/py2lean_monasm.py -> lean/Py65/Gen/MonAsmGen.lean): '
    'Monitor.do_assemble (args.split(None, 1), arity -> interactive; number(); the call of the assembler; the SLICE '
    'store self._mpu.memory[start:end] = bytes through the ObservableMemory model ObsMem.setSlice; the call of '
    'do_disassemble; the three handlers and their texts), Monitor._interactive_assemble (start address, the '
    'while-True loop, console.line_input, the blank-line exit, assemble -> slice store -> instruction_at -> '
    '_format_disassembly -> the \\r texts, the advance with the wrap at 2 ** ADDR_WIDTH, the ?Label / ?Overflow / '
    '?Syntax handlers), do_version, do_pwd, do_cd, do_help (its own line: the shortcut lookup) and help_assemble / '
    'help_cd / help_pwd / help_version / help_help.  Py65.Proofs.MonAsmGenEq proves them equal to the hand model '
    'Py65.Model.MonAsm for ALL arguments; Py65.Props.C20a states assemble_rejected_unchanged, '
    'assemble_writes_encoding (+ _dev8, + assemble_needs_range: on the 65Org16 a slice at or above $40000 stores '
    'nothing), interactive_assemble_blank / _accepted / _refused / _wraps / _session / _start, '
    'display_commands_pure and cd_changes_cwd for the generated methods with the GENERATED assembler '
    '(Py65.Gen.AsmGen.assemble, C07) plugged in.  Parameters of the generated functions (other translated code, '
    'not re-translated): asm = Assembler.assemble (unit of C07), iat = Disassembler.instruction_at, fmtdis = '
    'Monitor._format_disassembly (units of C09 / C19), dis = Monitor.do_disassemble (unit `show` of C19); cmdhelp = '
    'cmd.Cmd.do_help of the standard library is NOT translated (dir(), getattr of every help_* method, columnize): '
    'only the fact that it returns None on every path is checked on the installed cmd.py',
    'library behaviour the generated text of unit `asmc` calls, modelled in lean/Py65/Model/MonAsmRt.lean (and '
    'MonGenRt / MonCmdRt / ShowRt / GenRt / ObsMem): str.split(None, 1) (pySplitWs1), str.strip(), dict.get(k, '
    'default) on the shortcut table, str * int, int(1 + w / 4) by exact fractions, %-formatting, len, '
    'console.line_input(prompt, stdin=, stdout=) = "write the prompt, return the next typed line, echo it" (editing '
    'keys not modelled; exhausted stdin = the call does not return, as getch polls for ever), os.chdir / os.getcwd '
    '(a World function and a cwd field), KeyError.args[0] of AddressParser.number (keyErrorArg0) and of the '
    'assembler (an uninterpreted text), slice.indices / range / zip of the slice store (ObsMem.setSlice, C10); the '
    'reads the disassembler makes on the memory object are peeks (a read subscriber such as getc at $F004 is not '
    'triggered in the model)',
    'hand model Py65.Model.MonCmd (cmd.Cmd.parseline/onecmd/emptyline, shlex.split, the two '
    'regular expressions as deterministic scanners, the state-owning commands; preprocess also hand-modelled, see '
    'above) -- tied to the real Monitor.onecmd by sampled correspondence (this check)',
    'harness/py2lean_mon.py (Python subset -> Lean) and the library helpers the generated text calls '
    '(lean/Py65/Model/MonGenRt.lean): pySliceTo / pySliceFrom (s[:i], s[i:]), pyStripChars / pyLstripChars, '
    'PyStr.startsWith, and reMatchLitSpaces = re.match(r\'^%s\\s+\' % re.escape(lit), line).span() -- "starts with '
    'this literal followed by at least one whitespace character; end of the whitespace run" (ASCII \\s); the regex '
    'is mapped only when its exact pattern string is in the translator\'s table',
    'CPython 3.12 cmd.Cmd, shlex, re, str.strip/lstrip, int(str) are modelled for ASCII input, not verified',
    'commands whose effect on registers/memory is modelled elsewhere (assemble, fill, load, goto, step, '
    'return) are an abstract parameter `Ext` of the dispatcher; rejected_unchanged assumes Ext.Honest '
    '(their own properties: C07, C16, C17)',
    'the Python oracle of this module (grammar generator, expected effects by construction, markers of refusal)',
    'COMPOSITION (Py65.Proofs.MonCompose, Py65.Props.C20h): the two hypotheses above are DISCHARGED for the commands '
    'the other units regenerate.  othG = the parameter `oth` of the generated dispatcher built from the GENERATED '
    'do_fill / do_load / do_save / do_mem (+ generated _fill), do_step / do_goto / do_return, do_add_breakpoint / '
    'do_delete_breakpoint / do_show_breakpoints, do_cycles / do_tilde / do_disassemble, do_reset / do_mpu; extG = the '
    'model\'s Ext read off the same generated commands (verdict: fill/load accepted iff ended normally and the last '
    'line printed starts with "Wrote +"; goto refused iff it raised or the argument is empty; step/return never).  '
    'Proved: OthModels call by call (models_at), Ext.Honest at every core with a well-formed label table '
    '(extG_honest_at, from C16g.fill_rejects, do_load_eq, do_goto_eq), hence rejected_unchanged_composed / '
    'never_raises_composed / onecmd_agrees_composed for the generated onecmd with the generated commands.  A change of '
    'any of those methods regenerates its unit here too (pre_build runs every unit) and breaks the unit GenEq theorem '
    'this composition imports.  STILL ASSUMED: UntModels / AsmHonest for do_help, do_version, do_assemble (+ '
    '_interactive_assemble), do_cd, do_pwd (they end, leave the core alone -- assemble: change registers/cells as '
    'P.asm says, nothing when refused --, leave lastcmd alone, return no true value)',
    'the state adapters of lean/Py65/Model/MonComposeRt.lean (hand-written glue between the units\' state records '
    'CmdSt / MemSt / RunSt / ShowSt / IoSt): memory object = ANY ObservableMemory around the session\'s cells (GlueOK); '
    'the device object of units run/show gets cycles = 0, waiting = false (the session core has no such fields); for '
    'unit io registers / labels / radix are read back through object identity (a NEW device object has reset registers, '
    'a NEW AddressParser no labels and radix 16: constructor behaviour, modelled); every unit command starts with an '
    'empty output list and what it printed is appended; files written are dropped; exception classes outside '
    'MonGenRt.Exc become Exc.Other',
    'FULL COMPOSITION (Py65.Proofs.MonCompose2, Py65.Props.C20i): the parameters P.unt / P.asm of C20h are instantiated '
    'with the GENERATED do_assemble (+ _interactive_assemble; the GENERATED assembler of the session device plugged in '
    'as in C20a; self.do_disassemble = the generated command of unit show), do_help, do_version, do_cd, do_pwd through '
    'the adapter lean/Py65/Model/MonCompose2Rt.lean (AsmSt built from the session core: memory object G.omOf c, '
    'registers, address parser, breakpoints, width; ALL of them read back; stdin = the input oracle Q.I.lines c arg, '
    'cwd = Q.I.cwd c, both dropped afterwards); UntModels (from GlueOK, OutOnly cmdhelp, InputOK) and AsmHonest (from '
    'GlueOK) are PROVED from C20a; rejected_unchanged_fully_composed needs neither InputOK nor any hypothesis about a '
    'do_* method.  Verdict of assemble (asmVerdict): refused iff the address parser raises on the start address or '
    '(one-line form) the generated assembler raises on the statement.  An interactive session whose typed lines run '
    'out before a blank line does not return (.nofuel all the way up; not a refused line).  STILL ASSUMED: '
    'cmd.Cmd.do_help (standard library, parameter cmdhelp) only prints (C20a.OutOnly); the texts of two KeyErrors '
    '(Q.kt, Q.ktDis) are uninterpreted; the disassembler reads the memory object by PEEK (read subscribers not triggered)',
]
ASSUMPTIONS = [
    'input lines are over ASCII',
    'Monitor(memory=None): reset / mpu start from a zeroed memory',
    'commands that run code are given terminating programs; a command that does not return within the '
    'budget (non-terminating program, astronomically long listing on the 32-bit device) ends the session '
    'and is counted, not judged (C17 excludes non-terminating programs)',
    'an empty line repeats the previous command (cmd.Cmd); if that command was a quit form the empty line '
    'requests exit as well -- counted as the quit form repeated',
    'interactive assembly reads further lines from stdin: they are part of that command, not command lines',
    'tie by regeneration covers _add_shortcuts, _preprocess_line, Monitor.onecmd, cmd.Cmd.onecmd/parseline/default/'
    'emptyline and the commands registers, radix, width, add_label, delete_label, show_labels, quit; the commands of '
    'the other units enter through the composition C20h (see TRUSTED); help, version, assemble, cd, pwd remain '
    'hand-modelled (correspondence).  The translator resolves self._shortcuts[\'~\'] against the table '
    'literal of _add_shortcuts and checks that nothing else assigns self._shortcuts; for unit `cmds` it checks that '
    'class Monitor derives from cmd.Cmd only, overrides none of parseline / default / emptyline / precmd / postcmd / '
    '__getattr__ / identchars / lastcmd, assigns no do_* attribute outside `def`, and that _output, _reset and __init__ '
    'still establish the facts the translation uses (byteMask, addrFmt, the AddressParser, _width = 78)',
    'unit `asmc`: the translator checks that class Monitor derives from cmd.Cmd only, that cmd / os / console are '
    'the imported modules and are never rebound, that _reset still builds AddressParser(maxwidth=self.addrWidth), '
    'Disassembler(self._mpu, self._address_parser), Assembler(self._mpu, self._address_parser) and copies byteWidth / '
    'addrFmt from the device, that nothing else assigns them, that __init__ calls _add_shortcuts (one dict literal), '
    'that _output is stdout.write("%s\\n" % stuff), and that do_pwd\'s defaulted parameter is never read.  The '
    'assemble theorems about exact cells assume WF (one of the two physical sizes) and WQuiet (write subscribers '
    'answer None: true of putc) of the memory object, as C16 does',
    'the generated dispatcher is total only up to fuel: the recursion onecmd -> emptyline -> onecmd of an empty line '
    'whose lastcmd preprocesses to an empty line does not end in Python either (RecursionError, absorbed); the '
    'restated theorems exclude exactly that situation (Loops) and onecmd_needs_noloop shows the exclusion is needed',
    'composition C20h: the session core has no cycle counter / WAI flag / I-O streams / file system, so the composed '
    'statements are about the monitor projected onto device, registers, cells, labels, breakpoints, radix, width; '
    'fuel: P.fuelFill above the address-space size of the session device (FillFuel) and above the length of every '
    'loadable file (LoadFuel); a run / listing that exhausts P.fuelRun / P.fuelDis is not judged (CallOK); the label '
    'table is well formed (Parser.WF: every value went through _constrain)',
    'full composition C20i: the lines typed during an interactive assemble are an input oracle of (core, argument); a '
    'session without a blank line among them (or longer than Q.fuelAsm prompts) does not return and is not judged; the '
    'working directory is not session state (cd then pwd is not related by the composed statements)',
]

def pre_build(ctx):
    """translator tie: regenerate lean/Py65/Gen/MonPreGen.lean, MonCmdGen.lean and MonAsmGen.lean from the current
    monitor.py (and the installed cmd.py); for the composition (Py65.Props.C20h) also the units whose generated commands
    are plugged into the dispatcher: fill, memcmd, run, show (+ repr, same translator), io"""
    from props import montie, moncmdtie, monmemtie, iotie, monasmtie
    import showgen
    oks = [montie.pre_build(ctx, 'fill'), monmemtie.pre_build(ctx), montie.pre_build(ctx, 'run'),
           showgen.pre_build(ctx), iotie.pre_build(ctx)]
    a = montie.pre_build(ctx, 'pre')       # last of the montie units: its record stays in stats['translator']['monitor']
    b = moncmdtie.pre_build(ctx)
    c = monasmtie.pre_build(ctx)
    return a and b and c and all(bool(o) for o in oks)


SHORTCUTS = {'EOF': 'quit', '~': 'tilde', 'a': 'assemble', 'ab': 'add_breakpoint', 'al': 'add_label',
             'd': 'disassemble', 'db': 'delete_breakpoint', 'dl': 'delete_label', 'exit': 'quit',
             'f': 'fill', '>': 'fill', 'g': 'goto', 'h': 'help', '?': 'help', 'l': 'load', 'm': 'mem',
             'q': 'quit', 'r': 'registers', 'ret': 'return', 'rad': 'radix', 's': 'save',
             'shb': 'show_breakpoints', 'shl': 'show_labels', 'x': 'quit', 'z': 'step'}
LONG = ['help', 'version', 'reset', 'mpu', 'quit', 'assemble', 'disassemble', 'step', 'return', 'goto',
        'cycles', 'radix', 'tilde', 'registers', 'cd', 'pwd', 'load', 'save', 'fill', 'mem', 'add_label',
        'show_labels', 'delete_label', 'width', 'add_breakpoint', 'delete_breakpoint', 'show_breakpoints']
SPELLINGS = {}
for _c in LONG:
    SPELLINGS[_c] = [_c] + [k for k, v in SHORTCUTS.items() if v == _c]
QUIT_FORMS = ('quit', 'q', 'x', 'exit', 'EOF')
VERDICT_WORDS = {'registers', 'radix', 'width', 'add_label', 'delete_label', 'add_breakpoint',
                 'delete_breakpoint', 'mpu', 'reset', 'quit'}
EXT_WORDS = {'assemble', 'fill', 'load', 'goto', 'step', 'return'}

MARKERS = [
    ('unknown', re.compile(r'^\*\*\* Unknown syntax:', re.M)),
    ('syntax', re.compile(r'^Syntax error:', re.M)),
    ('label', re.compile(r'^(Label not found:|Bad label:)', re.M)),
    ('overflow', re.compile(r'^Overflow', re.M)),
    ('illegal', re.compile(r'^(Illegal |Invalid register:|Minimum terminal width|Unknown MPU:)', re.M)),
    ('raised', re.compile(r'^Traceback \(most recent call last\):', re.M)),
]


def real_categories(text):
    """The kinds of refusal the monitor's own output shows (list, in order of first appearance)."""
    found = []
    for name, rx in MARKERS:
        m = rx.search(text)
        if m:
            found.append((m.start(), name))
    cats = [n for _, n in sorted(found)]
    if 'raised' in cats:
        # the absorbed exception: its type decides label / overflow / other
        last = [l for l in text.split('\n') if re.match(r'^[A-Za-z_.]+(Error|Exception)\b', l)]
        cats = [c for c in cats if c != 'raised']
        kind = 'raised'
        frames = re.findall(r'File "([^"]*)", line \d+, in ', text)
        if frames and re.search(r'py65/(devices/[^/]*|disassembler)\.py$', frames[-1]):
            # the exception came out of the CPU core or the disassembler while executing / listing code
            # (a 65Org16 cell above 0xFF used as an opcode indexes the 256-entry tables): totality of
            # execution and of the disassembler is the subject of C05 / C09, not a refused command line
            kind = 'cpu'
        elif last:
            if last[-1].startswith('KeyError'):
                kind = 'label'
            elif last[-1].startswith('OverflowError'):
                kind = 'overflow'
        if kind not in cats:
            cats.append(kind)
    return cats


def reg_messages(text):
    out = []
    for l in text.split('\n'):
        if l.startswith('Invalid register:'):
            out.append('illegal')
        elif l.startswith('Label not found:'):
            out.append('label')
        elif l.startswith('Overflow:'):
            out.append('overflow')
    return out


# ---------------------------------------------------------------------------------------
# generator
# ---------------------------------------------------------------------------------------

class Line(object):
    __slots__ = ('text', 'canon', 'cmd', 'argclass', 'noise', 'quit', 'feed', 'expect', 'regpairs', 'dev')

    def __init__(self, text, canon=None, cmd=None, argclass='', noise='', quit=None, feed=b'', expect=None,
                 regpairs=None, dev=None):
        self.text, self.canon, self.cmd, self.argclass, self.noise = text, canon, cmd, argclass, noise
        self.quit, self.feed, self.expect, self.regpairs, self.dev = quit, feed, expect, regpairs, dev


def hexs(v):
    return '$%x' % v


def num_texts(rng, dev, cls):
    """(text, value|None) of one number in class cls; spellings with a prefix are radix-independent."""
    W, AW = WIDTHS[dev]
    top = (1 << AW) - 1
    if cls == 'ok':
        v = rng.choice([0, 1, 0x10, 0xff, 0x100, 0xc000, 0xfffe, 0xffff, top, top - 1, rng.randrange(top + 1)])
        return rng.choice([hexs(v), '+%d' % v, '%' + bin(v)[2:], '$%04X' % v, '$000%x' % v]), v
    if cls == 'bare':
        v = rng.choice([0, 1, 10, 0x10, 0xc000 & top, 255])
        return '%x' % v, None
    if cls == 'overflow':
        v = rng.choice([top + 1, top + 2, 2 * top, 1 << 40])
        return rng.choice([hexs(v), '+%d' % v]), None
    if cls == 'label':
        return rng.choice(['foo', 'bar', 'L1', 'start']), None
    if cls == 'nolabel':
        return rng.choice(['nosuch', 'zz_top', 'g', '$', '+', '%', '$xyz', '+1a', '%12', 'foo+', '-1', '1-', 'a b']), None
    if cls == 'long':
        k = rng.choice([4300, 4301, 5000, 6000])
        return rng.choice(['+' + '1' * k, '$' + 'f' * k, '%' + '1' * k, '9' * k, '+' + '0' * k + '7', 'x' * k]), None
    raise ValueError(cls)


NUMCLS = ['ok', 'ok', 'ok', 'bare', 'overflow', 'label', 'nolabel', 'long']


def gen_args(rng, dev, cmd):
    """-> (args, argclass, expect|None, feed, regpairs|None).  `expect(core_before) -> dict` gives the
    snapshot fields the PROPERTY demands by construction."""
    W, AW = WIDTHS[dev]
    bm, am = (1 << W) - 1, (1 << AW) - 1
    r = rng.random()
    if cmd in ('quit',):
        return rng.choice(['', '', 'now', '1 2', '"x', ';']), 'quit', None, b'', None
    if cmd in ('version', 'pwd', 'cycles', 'show_labels', 'show_breakpoints', 'reset', 'step'):
        return rng.choice(['', '', '', 'x', '1 2 3', '"']), 'noargs', None, b'', None
    if cmd == 'help':
        return rng.choice(['', 'mem', 'm', 'quit', 'nosuch', 'help', '?', 'a b', 'registers', '~', 'tilde']), 'help', None, b'', None
    if cmd == 'mpu':
        a = rng.choice(['', '6502', '65c02', '65C02', '65org16', '65Org16', '65ORG16', 'z80', '6502 x', '65', '"6502"'])
        return a, 'mpu', None, b'', None
    if cmd == 'radix':
        a = rng.choice(['', 'h', 'd', 'o', 'b', 'H', 'D', 'O', 'B', 'Hex', 'decimal', 'x', '10', '16', '?', 'z', 'binary', '$'])
        exp = None
        if a and a[0].lower() in 'hdob':
            val = {'h': 16, 'd': 10, 'o': 8, 'b': 2}[a[0].lower()]
            exp = lambda c, val=val: dict(radix=val)  # noqa: E731
        return a, 'radix-' + ('ok' if exp else ('none' if not a else 'bad')), exp, b'', None
    if cmd == 'width':
        a = rng.choice(['', '10', '78', '80', '132', '9', '0', '-5', 'abc', '1_0', '+20', '1e3', '0x10', '10 20', '9' * 4301,
                        '1' * 50, '12.5', '??', '"40"'])
        exp = None
        if re.fullmatch(r'\+?\d+', a) and len(a) < 4000 and int(a) >= 10:
            exp = lambda c, v=int(a): dict(width=v)  # noqa: E731
        return a, 'width-' + ('ok' if exp else ('none' if not a else 'bad')), exp, b'', None
    if cmd == 'registers':
        names = ['a', 'x', 'y', 'sp', 'p', 'pc']
        if r < 0.45:   # well-formed, radix-independent spellings: expectation by construction
            pairs, texts = [], []
            for _ in range(rng.choice([1, 1, 2, 3, 4])):
                n = rng.choice(names + (['q', 'A', 'PC', 'ac', ''] if rng.random() < 0.25 else []))
                lim = am if n == 'pc' else bm
                cls = rng.choice(['fit', 'fit', 'fit', 'edge', 'wide', 'huge'])
                v = {'fit': rng.randrange(lim + 1), 'edge': lim, 'wide': lim + 1, 'huge': am + 1 + rng.randrange(5)}[cls]
                t = rng.choice([hexs(v), '+%d' % v, '%' + bin(v)[2:]])
                pairs.append((n, v))
                texts.append('%s=%s' % (n, t))
            sep = rng.choice([',', ', ', ' , ', ' ', ',,'])
            return sep.join(texts), 'regs-wf', None, b'', pairs
        a = rng.choice(['', 'a', 'a=', '=5', 'a==1', 'a=1=2', 'a = 1', 'a=foo', 'a=nosuch', 'a=1,,x=2', 'pc=$10000', 'q=1',
                        'a=$100', 'a=$ffff', 'sp=ff p=30', 'A=1', 'a=%101', 'a=' + '1' * 5000, 'a=+' + '9' * 4301, 'x=1;y=2',
                        'a=1 x', ',', '=', 'pc=foo+1', 'a="1"', "y='2'", 'x=-1', 'p=ff,pc=c000,a=1,x=2,y=3,sp=80'])
        return a, 'regs-odd', None, b'', None
    if cmd == 'add_label':
        if r < 0.5:
            t, v = num_texts(rng, dev, 'ok')
            name = rng.choice(['foo', 'bar', 'L1', 'start', 'x_y', 'a', 'ff', '10', 'loop2'])
            form = rng.choice(['%s %s', '%s  %s', '"%s" %s', "%s '%s'", '%s "%s"'])
            exp = lambda c, name=name, v=v: dict(labels=_lab_insert(c['labels'], name, v))  # noqa: E731
            return form % (t, name), 'al-ok', exp, b'', None
        if r < 0.6:
            t, v = num_texts(rng, dev, 'ok')
            name = rng.choice(['a;b', 'x y', ';', 'p;q r'])
            q = rng.choice('"\'')
            exp = lambda c, name=name, v=v: dict(labels=_lab_insert(c['labels'], name, v))  # noqa: E731
            return '%s %s%s%s' % (t, q, name, q), 'al-quoted-semicolon', exp, b'', None
        cls = rng.choice(NUMCLS)
        t, _ = num_texts(rng, dev, cls)
        a = rng.choice(['%s foo' % t, t, '', '%s a b' % t, '%s "unbalanced' % t, "%s 'x" % t, '%s foo\\' % t, '%s ""' % t,
                        '"%s' % t, 'foo+1 baz', 'foo-$1a q', '%s "it\'s;x"' % t, '%s \'a"b;c\'' % t])
        return a, 'al-' + cls, None, b'', None
    if cmd == 'delete_label':
        a = rng.choice(['', 'foo', 'bar', 'L1', 'nosuch', '"foo"', 'foo bar', 'a;b', 'x y', '10'])
        exp = None
        if a and '"' not in a and ';' not in a:
            exp = lambda c, a=a: dict(labels=tuple(kv for kv in c['labels'] if kv[0] != a))  # noqa: E731
        return a, 'dl', exp, b'', None
    if cmd == 'add_breakpoint':
        if r < 0.5:
            t, v = num_texts(rng, dev, 'ok')
            exp = lambda c, v=v: dict(bps=c['bps'] if v in c['bps'] else c['bps'] + (v,))  # noqa: E731
            return t, 'ab-ok', exp, b'', None
        cls = rng.choice(NUMCLS)
        t, _ = num_texts(rng, dev, cls)
        a = rng.choice([t, t, '', '%s c001' % t, '"%s' % t, '"%s"' % t, '%s\\' % t])
        return a, 'ab-' + cls, None, b'', None
    if cmd == 'delete_breakpoint':
        a = rng.choice(['0', '1', '2', '3', '5', '-1', 'x', '', '0 1', '1_0', '"0"', '+1', ' 2', '0x1', '9' * 4301, '1.0', "'1"])
        return a, 'db', None, b'', None
    if cmd == 'tilde':
        cls = rng.choice(NUMCLS)
        t, _ = num_texts(rng, dev, cls)
        return rng.choice([t, t, '', t + ' 1']), 'tilde-' + cls, None, b'', None
    if cmd in ('mem', 'disassemble'):
        cls = rng.choice(NUMCLS)
        t, v = num_texts(rng, dev, cls)
        if cls == 'ok':
            span = rng.choice([0, 1, 5, 16, 40])
            e = min(v + span, am)
            a = rng.choice([t, '%s:%s' % (t, hexs(e)), '%s,%s' % (hexs(e), t), '"%s:%s"' % (t, hexs(e))])
            if cmd == 'disassemble' and rng.random() < 0.1:
                a = '%s:%s' % (hexs(am - 2), hexs(1))     # wraps through the top
        else:
            a = rng.choice([t, '', '%s:%s' % (t, t), 'c000 c010', '"%s' % t, '%s:' % t, ':%s' % t])
        if cls == 'long':
            a = t
        return a, '%s-%s' % (cmd[:3], cls), None, b'', None
    if cmd == 'fill':
        cls = rng.choice(NUMCLS)
        t, v = num_texts(rng, dev, cls)
        if cls == 'ok':
            e = min(v + rng.choice([0, 1, 7, 31]), am)
            vals = ' '.join(rng.choice(['$%x' % rng.randrange(bm + 1), '+%d' % rng.randrange(bm + 1), 'ea', '0'])
                            for _ in range(rng.choice([1, 1, 2, 3])))
            a = rng.choice(['%s %s' % (t, vals), '%s:%s %s' % (t, hexs(e), vals), '%s:%s %s' % (t, hexs(e), hexs(bm + 1)),
                            '%s:%s nosuch' % (t, hexs(e)), '%s:%s' % (t, hexs(e)), '"%s" "%s"' % (t, vals.split()[0])])
        else:
            a = rng.choice(['%s 1' % t, '%s:%s 1 2' % (t, t), '', t, '%s "1' % t, '0 %s' % t])
        return a, 'fill-' + cls, None, b'', None
    if cmd == 'assemble':
        stmts = ['nop', 'lda #$01', 'sta $10', 'inx', 'brk', 'rts', 'lda #$100', 'bogus', 'lda', 'jmp nosuch', 'lda foo',
                 'ldx #+5', 'sta $c000,x', 'bne $c000', 'lda #$1ffff', 'adc ($10),y', '???']
        if r < 0.05:
            # interactive, starting just below the top of the address space: the running address must wrap to 0
            t = hexs(am - rng.choice([0, 1, 2]))
            feed = ''.join(rng.choice(['nop', 'inx', 'rts', 'lda #$01', 'sta $10', 'bogus']) + '\n'
                           for _ in range(rng.choice([2, 3, 4]))) + '\n'
            return t, 'asm-interactive', None, feed.encode(), None
        if r < 0.2:
            feed = ''.join(rng.choice(stmts) + '\n' for _ in range(rng.choice([0, 1, 2, 3]))) + '\n'
            cls = rng.choice(['ok', 'label', 'nolabel', 'overflow'])
            t, _ = num_texts(rng, dev, cls)
            return rng.choice(['', t]), 'asm-interactive', None, feed.encode(), None
        cls = rng.choice(NUMCLS)
        t, _ = num_texts(rng, dev, cls)
        return '%s %s' % (t, rng.choice(stmts)), 'asm-' + cls, None, b'', None
    if cmd == 'goto':
        cls = rng.choice(NUMCLS)
        t, _ = num_texts(rng, dev, cls)
        return rng.choice([t, t, '', '%s 1' % t]), 'goto-' + cls, None, b'', None
    if cmd == 'return':
        return rng.choice(['', 'x']), 'return', None, b'', None
    if cmd == 'cd':
        return rng.choice(['', '.', 'sub', 'nosuchdir', 'sub ', 'a\x00b', 'x' * 300]), 'cd', None, b'', None
    if cmd == 'load':
        cls = rng.choice(NUMCLS)
        t, _ = num_texts(rng, dev, cls)
        f = rng.choice(['prog.bin', '"prog.bin"', 'nosuch.bin', 'odd.bin', 'sub', 'http://example.invalid/x.bin',
                        'ftp://h/y', 'a\x00b', 'big.bin'])
        a = rng.choice(['%s %s' % (f, t), f, '%s top' % f, '', '%s %s 1' % (f, t), '"%s' % f, '%s TOP' % f])
        return a, 'load-' + cls, None, b'', None
    if cmd == 'save':
        cls = rng.choice(NUMCLS)
        t, v = num_texts(rng, dev, cls)
        f = rng.choice(['out.bin', '"out 2.bin"', 'nodir/out.bin', 'sub', 'a\x00b'])
        e = hexs(min((v or 0) + rng.choice([0, 1, 64]), am)) if cls == 'ok' else t
        a = rng.choice(['%s %s %s' % (f, t, e), '%s %s' % (f, t), f, '', '%s %s %s 1' % (f, t, e), '"%s %s %s' % (f, t, e),
                        '%s %s %s' % (f, e, t)])
        return a, 'save-' + cls, None, b'', None
    raise ValueError(cmd)


def _lab_insert(labels, name, v):
    d = dict(labels)
    d[name] = v          # an existing key keeps its position, a new one goes last
    return tuple(d.items())


UNKNOWN_WORDS = ['foo', 'quitx', 'q!', 'helpme', '123', '_', 'do_quit', 'Quit', 'QUIT', 'shell', 'eof', 'Exit', 'X', 'xx',
                 'qq', 'quit_', 'exit2', 'EOFx', 'memx', 'mem!', 'r=1', '*', '$c000', '>>', '~~', '??', 'tilde~', '-', '+5',
                 '#', '\\', '"', "'", '"quit"', 'quit"', '(']
EXOTIC = ['\x0b', '\x0c', '\r', '\n', '\x1c', '\x1d', '\x1e', '\x1f', '\x00', '\x7f']
COMMENTS = ['; comment', ';', ';;', '; "quoted" in a comment', "; it's", ';q', '; quit', ' ;x', '\t; tab']


def gen_line(rng, dev):
    r = rng.random()
    if r < 0.05:
        t = rng.choice(['', '', ' ', '\t', '   ', ';c', ' ; quit', '...', '.', '. .', ' .. ', '\x0b', '\n', ' \x0c ', '.;', '"', "''"])
        return Line(t, canon=None, cmd=None, argclass='blank', noise='blank')
    if r < 0.12:
        w = rng.choice(UNKNOWN_WORDS)
        a = rng.choice(['', '', ' 1', ' a b', ' "x'])
        t = w + a
        return Line(rng.choice(['', ' ', '..']) + t, canon=None, cmd=None, argclass='unknown', noise='unknown')
    if r < 0.17:
        body = rng.choice(['', 'ls', 'quit', ' mem 0', 'q'])
        p = rng.choice(['!', '!', '?', '?', ' !', '.?', '?!', '!?', '??'])
        return Line(p + body, canon=None, cmd=None, argclass='bang-help', noise='prefix')
    cmd = rng.choice(LONG)
    sp = rng.choice(SPELLINGS[cmd]) if rng.random() < 0.7 else cmd
    args, argclass, expect, feed, regpairs = gen_args(rng, dev, cmd)
    if cmd == 'return' and sp in ('return', 'ret'):
        pass
    # separator between command word and arguments
    if args:
        if sp == '~' and rng.random() < 0.5:
            sep = ''
        elif sp in SHORTCUTS:
            sep = rng.choice([' ', ' ', '  ', '\t', ' \t '])
        else:
            sep = rng.choice([' ', ' ', '  ', '\t'])
    else:
        sep = ''
    body = sp + sep + args
    canon = cmd + (' ' + args if args else '')
    nq = sum(args.count(q) for q in '"\'')
    noise = []
    pre, post = '', ''
    n = rng.random()
    if n < 0.55:
        if rng.random() < 0.5:
            pre += rng.choice([' ', '  ', '\t', ' \t'])
            noise.append('lead')
        if rng.random() < 0.4:
            pre += rng.choice(['.', '..', '....'])
            noise.append('dots')
        if rng.random() < 0.4:
            post += rng.choice([' ', '  ', '\t'])
            noise.append('trail')
        if rng.random() < 0.35:
            post += rng.choice(COMMENTS)
            noise.append('comment' if nq % 2 == 0 else 'comment-in-open-quote')
            if nq % 2 == 1 or ';' in args.replace('"a;b"', '').replace("'a;b'", ''):
                canon = None
    text = pre + body + post
    if ';' in args and argclass not in ('al-quoted-semicolon',):
        canon = None
    if argclass == 'al-quoted-semicolon':
        noise.append('semicolon-in-quotes')
    if n >= 0.55 and n < 0.67:
        # noise that is NOT promised to be ignored: correspondence + general invariants only
        kind = rng.choice(['exotic-lead', 'exotic-sep', 'exotic-trail', 'dot-blank', 'mid-dot', 'mutate', 'mutate'])
        noise.append(kind)
        canon, expect, regpairs = None, None, None
        if kind == 'exotic-lead':
            text = rng.choice(EXOTIC) + body
        elif kind == 'exotic-sep':
            text = sp + rng.choice(EXOTIC) + args
        elif kind == 'exotic-trail':
            text = body + rng.choice(EXOTIC)
        elif kind == 'dot-blank':
            text = rng.choice(['. ', '.\t', ' . ']) + body
        elif kind == 'mid-dot':
            text = sp + '.' + args
        else:
            s = list(text)
            for _ in range(rng.choice([1, 1, 2, 3])):
                op = rng.randrange(3)
                pos = rng.randrange(len(s) + 1)
                ch = rng.choice(' \t.;"\'=,:$+%!?~>_-\\qxa0') if rng.random() < 0.6 else chr(rng.randrange(128))
                if op == 0:
                    s.insert(pos, ch)
                elif s and op == 1:
                    del s[min(pos, len(s) - 1)]
                elif s:
                    s[min(pos, len(s) - 1)] = ch
            text = ''.join(s)
            cmd = None
    quitf = None
    if cmd is not None and all(k in ('lead', 'dots', 'trail', 'comment', 'comment-in-open-quote', 'semicolon-in-quotes')
                               for k in noise):
        quitf = (cmd == 'quit')
    return Line(text, canon=canon, cmd=cmd, argclass=argclass, noise='+'.join(noise) or 'none', quit=quitf,
                feed=feed, expect=expect, regpairs=regpairs, dev=dev)


def sanitize(ln):
    """Confinement: cd / load / save never see a path that leaves the scratch directory."""
    t = ln.text
    if re.search(r'\.\.(/|$|[\s"\'])|(^|[\s"\'=])[/~]', t) and re.search(r'cd|load|save|(^|[\s.])[ls]\b', t):
        return False
    return True


def label_lifecycle(rng, dev):
    """define a label, use it, delete it, type the SAME line again (it must now be rejected and change nothing),
    optionally define it again elsewhere and type the line a third time (the new address counts)."""
    W, AW = WIDTHS[dev]
    am = (1 << AW) - 1

    def mk(cmd, args, cls):
        t = cmd + (' ' + args if args else '')
        return Line(t, canon=t, cmd=cmd, argclass=cls, noise='none', quit=False)
    name = rng.choice(['foo', 'bar', 'L1', 'start'])
    v = rng.choice([0x10, 0x200, 0xc000, 0xfffe, am, rng.randrange(am + 1)])
    v2 = rng.choice([0x20, 0x300, 0xd000, am - 1, rng.randrange(am + 1)])
    opnd = rng.choice([name, name, '%s+1' % name, '%s-$1' % name]) if 0 < v < am else name
    use = rng.choice([('fill', '%s bb' % opnd, 'fill-label'), ('fill', '%s:%s 1 2' % (opnd, opnd), 'fill-label'),
                      ('registers', 'pc=%s' % opnd, 'regs-label'), ('add_breakpoint', opnd, 'ab-label'),
                      ('add_label', '%s other' % opnd, 'al-label'), ('tilde', opnd, 'tilde-label'),
                      ('mem', opnd, 'mem-label'), ('assemble', '%s nop' % opnd, 'asm-label'),
                      ('disassemble', opnd, 'dis-label')])
    # undo the first use, so that a wrongly accepted second use is a visible state change
    undo = {'registers': [mk('registers', 'pc=$1', 'regs-ok')], 'add_label': [mk('delete_label', 'other', 'dl')],
            'add_breakpoint': [mk('delete_breakpoint', '0', 'db'), mk('delete_breakpoint', '1', 'db'),
                               mk('delete_breakpoint', '2', 'db')]}.get(use[0], [])
    out = [mk('add_label', '%s %s' % (hexs(v), name), 'al-ok'), mk(*use), mk('delete_label', name, 'dl')] + undo + [mk(*use)]
    if rng.random() < 0.5:
        out += [mk('add_label', '%s %s' % (hexs(v2), name), 'al-ok'), mk(*use)]
    return out


def switch_lifecycle(rng):
    """a label defined on the 32-bit device, then a switch to a 16-bit device (`mpu` re-creates the machine and its
    address parser: the label is gone and every use of it must be rejected), then uses of the name."""
    def mk(cmd, args, cls):
        t = cmd + (' ' + args if args else '')
        return Line(t, canon=t, cmd=cmd, argclass=cls, noise='none', quit=False)
    name = rng.choice(['foo', 'bar', 'L1', 'start'])
    v = rng.choice([0x10000, 0x12345678, 0xffffffff, 0x3ffff, rng.randrange(0x10000, 1 << 32)])
    out = [mk('mpu', '65org16', 'mpu'), mk('add_label', '%s %s' % (hexs(v), name), 'al-ok'),
           mk('mpu', rng.choice(['6502', '65c02']), 'mpu')]
    for _ in range(rng.choice([1, 2, 3])):
        out.append(mk(*rng.choice([('registers', 'pc=%s' % name, 'regs-label'),
                                   ('registers', 'x=1, pc=%s, y=2' % name, 'regs-label'),
                                   ('add_breakpoint', name, 'ab-label'), ('fill', '%s 1 2' % name, 'fill-label'),
                                   ('add_label', '%s other' % name, 'al-label'), ('tilde', name, 'tilde-label')])))
    return out


def gen_session(rng, dev):
    n = rng.choice([1, 2, 3, 5, 8, 12, 20, 30])
    lines = []
    while len(lines) < n:
        if rng.random() < 0.04:
            lines += label_lifecycle(rng, dev)
            continue
        if rng.random() < 0.01:
            lines += switch_lifecycle(rng)
            continue
        if rng.random() < 0.03:
            # `return` needs a reachable RTS: BRK at the current pc vectors to 0
            lines.append(Line('f 0 60', canon='fill 0 60', cmd='fill', argclass='fill-setup', noise='none', quit=False))
            lines.append(Line(rng.choice(['ret', 'return']), canon='return', cmd='return', argclass='return', noise='none',
                              quit=False))
            continue
        ln = gen_line(rng, dev)
        if ln.cmd == 'return' or (ln.cmd is None and re.search(r'ret', ln.text)):
            continue
        if not sanitize(ln):
            continue
        lines.append(ln)
    return lines[:max(n, 1)]


# ---------------------------------------------------------------------------------------
# running a session on the real monitor (+ twin) and through the model
# ---------------------------------------------------------------------------------------

LOOKS_QUIT = re.compile(r'^[\s.]*(quit(?![A-Za-z0-9_])|(q|x|exit|EOF)(?=\s|;|$))')
LOOKS_EMPTY = re.compile(r'^[\s.]*(;.*)?$', re.S)


def norm_out(t):
    return re.sub(r'[ \t]+', ' ', t)


def prepare_scratch(d):
    os.makedirs(os.path.join(d, 'sub'), exist_ok=True)
    with open(os.path.join(d, 'prog.bin'), 'wb') as f:
        f.write(bytes([0xa9, 0x01, 0x8d, 0x00, 0x02, 0x00, 0xea, 0xea]))
    with open(os.path.join(d, 'odd.bin'), 'wb') as f:
        f.write(bytes([1, 2, 3]))
    with open(os.path.join(d, 'big.bin'), 'wb') as f:
        f.write(bytes(range(256)) * 3)


def pipe_peek(M):
    """the bytes waiting in the monitor's stdin pipe (typed earlier and not consumed: left-over prompt answers, the
    newline the harness adds per line); read without blocking and written back in the same order"""
    import fcntl
    fl = fcntl.fcntl(M.r, fcntl.F_GETFL)
    data = b''
    try:
        fcntl.fcntl(M.r, fcntl.F_SETFL, fl | os.O_NONBLOCK)
        while True:
            try:
                chunk = os.read(M.r, 65536)
            except (BlockingIOError, InterruptedError):
                break
            if not chunk:
                break
            data += chunk
    finally:
        fcntl.fcntl(M.r, fcntl.F_SETFL, fl)
    if data:
        os.write(M.w, data)
    return data


def pipe_drain(M):
    """discard what is waiting in the monitor's stdin pipe (the newlines the harness added for earlier lines), so
    that the lines typed for an interactive `assemble` are what its prompts read"""
    import fcntl
    fl = fcntl.fcntl(M.r, fcntl.F_GETFL)
    try:
        fcntl.fcntl(M.r, fcntl.F_SETFL, fl | os.O_NONBLOCK)
        while True:
            try:
                if not os.read(M.r, 65536):
                    break
            except (BlockingIOError, InterruptedError):
                break
    finally:
        fcntl.fcntl(M.r, fcntl.F_SETFL, fl)


def asm_expectation(M, ln, stale=b''):
    """What an `assemble` line must store, by the documented behaviour of the COMMAND (the statement's bytes are
    whatever the monitor's own Assembler returns for it at that address: the assembler is C07's subject):
    -> None (not an assemble line / not judged) or {address: value} of the cells it must store, in order.
    One-line form: the bytes at the parsed address, nothing when address or statement is refused.  Interactive
    form: per typed line the bytes at the running address (advance, wrap at 2 ** ADDR_WIDTH), nothing for a refused
    line, until the first blank line.  Not judged: a range that leaves the PHYSICAL memory (65Org16 above $3FFFF:
    the slice store clips, see notes/asmc-gen-tie.md), a session without a blank line, anything that raises
    something else."""
    m = M.m
    try:
        cmdw, arg, _ = m.parseline(m._preprocess_line(ln.text))
    except Exception:  # noqa: B902
        return None
    if cmdw != 'assemble' or arg is None:
        return None
    size = len(M.subject())
    top = 1 << WIDTHS[m._mpu.name][1] if m._mpu.name in WIDTHS else None
    if top is None:
        return None
    stores = {}

    def put(start, bs):
        if start < 0 or start + len(bs) > size:
            return False
        for i, b in enumerate(bs):
            stores[start + i] = b
        return True
    number, assemble = m._address_parser.number, m._assembler.assemble
    parts = arg.split(None, 1)
    try:
        if len(parts) == 2:
            try:
                start = number(parts[0])
                bs = assemble(parts[1], start)
            except (KeyError, OverflowError, SyntaxError):
                return {}
            return stores if put(start, bs) else None
        if arg == '':
            start = m._mpu.pc
        else:
            try:
                start = number(arg)
            except (KeyError, OverflowError):
                return {}
        typed = ((stale + ln.feed) or b'\n').decode('latin-1').split('\n')
        for l in typed[:-1]:            # the piece after the last newline was not entered
            if any(c in l for c in '\r\x7f\x08\x1b'):
                return None
            if not l.strip():
                return stores
            try:
                bs = assemble(l, start)
            except (KeyError, OverflowError, SyntaxError):
                continue
            if not put(start, bs):
                return None
            start += len(bs)
            if start >= top:
                start = 0
        return None
    except Exception:  # noqa: B902
        return None


def run_session(dev, lines, scratch, budget=1.0, twin=True):
    """-> dict(records=[...], aborted=None|reason).  One record per executed line."""
    os.chdir(scratch)
    A = Mon(dev)
    B = Mon(dev) if twin else None
    recs = []
    aborted = None
    try:
        for ln in lines:
            if os.getcwd() != scratch and not os.getcwd().startswith(scratch + os.sep):
                os.chdir(scratch)
            before = A.snapshot()
            last_before = A.m.lastcmd
            if ln.feed:
                for M in (A, B):
                    if M is not None:
                        pipe_drain(M)
            # `assemble` lines: what they must store (the prompts read what is waiting in the pipe, then the feed)
            want = asm_expectation(A, ln, pipe_peek(A)) if ln.cmd == 'assemble' or 'a' in ln.text else None
            mem0 = list(A.subject()) if want is not None else None
            for M in (A, B):
                if M is None:
                    continue
                M.feed(ln.feed)
                if not M.pending():
                    M.feed(b'\n')          # an unexpected interactive prompt ends at once
            cwd0 = os.getcwd()
            kind, val, text = A.run(ln.text, budget)
            cwd1 = os.getcwd()
            asm = None
            if want is not None and kind == 'ret':
                mem1 = A.subject()
                if len(mem1) == len(mem0):
                    asm = dict(want=dict((a, v) for a, v in want.items() if mem0[a] != v),
                               got=dict((i, y) for i, (x, y) in enumerate(zip(mem0, mem1)) if x != y))
            if kind == 'budget':
                aborted = 'budget'
                recs.append(dict(line=ln, kind=kind))
                break
            after = A.snapshot()
            rec = dict(line=ln, kind=kind, val=val, text=text, before=before, after=after, last_before=last_before,
                       lastcmd=A.m.lastcmd, status=text.endswith('\n' + repr(A.m._mpu) + '\n'), asm=asm)
            if B is not None:
                bl = ln.canon if ln.canon is not None else ln.text
                os.chdir(cwd0)
                kb, vb, tb = B.run(bl, budget)
                try:
                    os.chdir(cwd1)
                except OSError:
                    os.chdir(scratch)
                if kb == 'budget':
                    aborted = 'budget-twin'
                    recs.append(rec)
                    break
                rec['twin'] = dict(line=bl, kind=kb, val=vb, text=tb, after=B.snapshot())
            recs.append(rec)
    finally:
        A.close()
        if B is not None:
            B.close()
    return dict(records=recs, aborted=aborted)


def labels_tok(labels):
    return ','.join('%s=%d' % (tohex(k), v) for k, v in labels) or '-'


def bps_tok(bps):
    return ','.join('N' if b is None else str(b) for b in bps) or '-'


def model_request(dev, recs):
    W, AW = WIDTHS[dev]
    items = []
    for r in recs:
        if r['kind'] == 'budget':
            break
        items.append('L' + tohex(r['line'].text))
        if r['kind'] == 'ret':
            items.append('S' + ','.join(str(v) for v in r['after']['regs']))
    return 'cmdline %s 0,0,0,%d,48,0 16 78 - - - %s' % (dev, (1 << W) - 1, ' '.join(items))


def parse_model(reply):
    segs = []
    for seg in reply.split('|'):
        head, _, st = seg.partition(' ; ')
        h = head.split(' ')
        s = st.split(' ')
        segs.append(dict(cls=h[0], word=None if h[1] == 'N' else unhex(h[1]), exit=h[2] == '1', verdict=h[3],
                         ext=h[4] == '1', pairs=[] if h[5] == '-' else h[5].split(','), status=h[6] == '1',
                         memfx=h[7], dev=s[0], regs=tuple(int(x) for x in s[1].split(',')), radix=int(s[2]),
                         width=int(s[3]), labels=s[4], bps=s[5], lastcmd=unhex(s[6])))
    return segs


def judge(dev, recs, segs):
    """-> (findings, ties, stats rows)."""
    W, AW = WIDTHS[dev]
    bm, am = (1 << W) - 1, (1 << AW) - 1
    findings, ties, rows = [], [], []
    hist = []
    feeds = []
    model_lost = False      # after the first model/real disagreement only the model-free property parts are judged

    def finding(kind, what, rec, extra=None, **kw):
        key = dict(kind=kind)
        key.update(kw)
        d = dict(key=key, what='%s [%s] after %d line(s): %s' % (kind, dev, len(hist) - 1, what),
                 replay=dict(device=dev, lines=list(hist), failing_line=rec['line'].text, kind=kind, detail=what))
        if any(feeds):
            d['replay']['feeds'] = list(feeds)      # what was typed at the interactive prompts, per line
        if extra:
            d['replay'].update(extra)
        findings.append(d)

    for idx, rec in enumerate(recs):
        ln = rec['line']
        hist.append(ln.text)
        feeds.append(ln.feed.decode('latin-1') if ln.feed else '')
        if rec['kind'] == 'budget':
            rows.append((None, ln, 'budget'))
            break
        seg = segs[idx] if idx < len(segs) else None
        # ---------------- PROPERTY on the real code ----------------
        if rec['kind'] == 'raise':
            finding('escape', 'onecmd(%r) raised %s' % (ln.text, rec['val']), rec)
            rows.append((None, ln, 'escape'))
            break
        ret = bool(rec['val'])
        text, before, after = rec['text'], core_of(rec['before']), core_of(rec['after'])
        cats = real_categories(text)
        word = (rec['lastcmd'].split() or [''])[0] if not ln.text.lstrip(' \t.\x0b\x0c\r\n\x1c\x1d\x1e\x1f').startswith('!') else ''
        word = re.match(r'[A-Za-z0-9_]*', word).group(0)
        repeat = bool(LOOKS_EMPTY.match(ln.text)) and bool(rec['last_before'])
        if ret:
            ok = bool(LOOKS_QUIT.match(ln.text)) or (repeat and bool(LOOKS_QUIT.match(rec['last_before'])))
            if not ok or ln.quit is False:
                finding('exit-not-quit', 'onecmd(%r) returned %r although the line is not a quit form' % (ln.text, rec['val']),
                        rec)
        elif ln.quit is True:
            finding('quit-no-exit', 'onecmd(%r) returned %r: a quit form must request exit' % (ln.text, rec['val']), rec)
        ax = rec.get('asm')
        if ax is not None and ax['want'] != ax['got']:
            # `assemble` (one line or interactive) must store exactly the assembled bytes at the (running) address
            def cells(dd):
                return ', '.join('$%x=%x' % kv for kv in sorted(dd.items())[:8]) or 'nothing'
            finding('asm-store', 'onecmd(%r)%s must store {%s} and nothing else, but the memory changed by {%s}'
                    % (ln.text, (' with the lines %r typed' % ln.feed.decode('latin-1')) if ln.feed else '',
                       cells(ax['want']), cells(ax['got'])), rec, dict(feed=ln.feed.decode('latin-1'), output=text[-500:]))
        is_regs = word == 'registers'
        W, AW = WIDTHS[rec['before']['dev']]
        bm, am = (1 << W) - 1, (1 << AW) - 1
        if cats and cats != ['cpu'] and not is_regs and before != after:
            diff = [k for k in before if before[k] != after[k]]
            finding('rejected-changed', 'onecmd(%r) was refused (%s) but changed %s' % (ln.text, '/'.join(cats), diff), rec,
                    dict(before={k: before[k] for k in diff}, after={k: after[k] for k in diff}, output=text[-700:]),
                    cmd=word, refused=cats[0], changed=diff[0])
        if is_regs:
            names = ('a', 'x', 'y', 'sp', 'p', 'pc')
            for i, nme in enumerate(names):
                ov, nv = before['regs'][i], after['regs'][i]
                if ov != nv:
                    lim = am if nme == 'pc' else bm
                    named = re.search(r'(^|[\s,=])%s=' % nme, rec['lastcmd'])
                    if not named:
                        finding('regs-unnamed', 'onecmd(%r) changed register %s which it does not name' % (ln.text, nme), rec)
                    elif not (0 <= nv <= lim):
                        finding('regs-width', 'onecmd(%r) set %s to %d which does not fit its width' % (ln.text, nme, nv),
                                rec, dict(before=before['regs'], after=after['regs']))
            for k in ('dev', 'mem', 'labels', 'bps', 'radix', 'width'):
                if before[k] != after[k]:
                    finding('regs-other', 'onecmd(%r) (registers) changed %s' % (ln.text, k), rec)
            if ln.regpairs is not None:
                exp = list(before['regs'])
                for nme, v in ln.regpairs:
                    if nme in names and v <= (am if nme == 'pc' else bm):
                        exp[names.index(nme)] = v
                if tuple(exp) != after['regs']:
                    finding('regs-exact', 'onecmd(%r): registers %r expected %r (valid pairs assigned, others unchanged)'
                            % (ln.text, after['regs'], tuple(exp)), rec, dict(before=before['regs'], pairs=ln.regpairs))
        if ln.expect is not None and cats and ln.dev == rec['before']['dev'] and 'comment-in-open-quote' not in ln.noise:
            # a well-formed command (radix-independent spelling, value within this device's range, quotes
            # balanced, any `;` inside quotes) must not be refused
            finding('wellformed-refused', 'onecmd(%r) is well-formed but was refused (%s)' % (ln.text, '/'.join(cats)), rec,
                    dict(output=text[-500:]), cmd=word)
        if ln.expect is not None and not cats:
            want = ln.expect(before)
            for k, v in want.items():
                if after[k] != v:
                    finding('effect', 'onecmd(%r): %s is %r, expected %r' % (ln.text, k, after[k], v), rec)
            for k in before:
                if k not in want and before[k] != after[k]:
                    finding('effect-other', 'onecmd(%r) also changed %s' % (ln.text, k), rec)
        tw = rec.get('twin')
        if tw is not None and ln.canon is not None:
            if tw['kind'] == 'raise':
                finding('escape', 'onecmd(%r) raised %s' % (tw['line'], tw['val']), rec)
            else:
                same = (bool(tw['val']) == ret and core_of(tw['after']) == after and norm_out(tw['text']) == norm_out(text))
                if not same:
                    what = 'return' if bool(tw['val']) != ret else ('state' if core_of(tw['after']) != after else 'output')
                    finding('equiv', 'onecmd(%r) and its plain long form onecmd(%r) differ in %s' % (ln.text, tw['line'], what),
                            rec, dict(twin_line=tw['line'], out=text[:300], twin_out=tw['text'][:300]))
        elif tw is not None and core_of(tw['after']) != after:
            # identical line on the twin: determinism of the experiment itself
            ties.append(dict(what='twin monitor diverged on identical input %r' % ln.text, model='', real=''))
        # ---------------- TIE: model vs real ----------------
        outcome = 'exit' if ret else (cats[0] if cats else 'ok')
        rows.append((word or None, ln, outcome))
        if model_lost:
            continue
        if seg is None:
            ties.append(dict(what='model returned no segment for line %d' % idx, model='', real=''))
            continue
        real_state = dict(dev=rec['after']['dev'], regs=rec['after']['regs'], radix=rec['after']['radix'],
                          width=rec['after']['width'], labels=labels_tok(rec['after']['labels']),
                          bps=bps_tok(rec['after']['bps']), lastcmd=rec['lastcmd'])
        bad = []
        for k, v in real_state.items():
            if seg[k] != v:
                bad.append('%s: model %r real %r' % (k, seg[k], v))
        if seg['exit'] != ret:
            bad.append('exit: model %r real %r' % (seg['exit'], rec['val']))
        if seg['status'] != rec['status']:
            bad.append('status print: model %r real %r' % (seg['status'], rec['status']))
        if seg['memfx'] == 'same' and rec['before']['mem'] != rec['after']['mem']:
            bad.append('memory: model says unchanged, real changed')
        if seg['memfx'] == 'zero' and rec['after']['mem'] != zero_hash(rec['after']['dev']):
            bad.append('memory: model says zeroed, real memory is not all zero')
        mw = seg['word']
        if (seg['cls'] in ('cmd', 'repeat') and (mw in VERDICT_WORDS or seg['verdict'] == 'unknown')) \
                or seg['cls'] in ('nocmd', 'norepeat'):
            mv = seg['verdict']
            if mw == 'registers':
                if [p for p in seg['pairs'] if p != 'ok'] != reg_messages(text) and 'syntax' not in cats:
                    bad.append('register pairs: model %r real messages %r' % (seg['pairs'], reg_messages(text)))
                if (mv == 'syntax') != ('syntax' in cats):
                    bad.append('verdict: model %s real %r' % (mv, cats))
            else:
                rc = cats[0] if cats else 'ok'
                if mv == 'usage':
                    mv = 'ok'
                if mv != rc:
                    bad.append('verdict: model %s real %r' % (mv, cats))
        if bad and seg['verdict'] not in ('ok', 'usage') and mw != 'registers' and before != after \
                and seg['cls'] in ('cmd', 'repeat', 'nocmd', 'norepeat'):
            # the documented behaviour (model) rejects this line, the real monitor changed session state
            diff = [k for k in before if before[k] != after[k]]
            finding('rejected-changed', 'onecmd(%r) must be rejected (%s) but the monitor accepted it and changed %s'
                    % (ln.text, seg['verdict'], diff), rec,
                    dict(before={k: before[k] for k in diff}, after={k: after[k] for k in diff}, output=text[-700:]),
                    cmd=mw, refused=seg['verdict'], changed=diff[0])
        if bad and mw == 'registers' and seg['cls'] in ('cmd', 'repeat') and seg['pairs'] \
                and all(p != 'ok' for p in seg['pairs']) and before['regs'] != after['regs']:
            # every name=value pair of the line must be refused (unknown label, too wide, bad name): nothing is assigned
            finding('rejected-changed', 'onecmd(%r): every pair must be rejected (%s) but the registers changed from %r to %r'
                    % (ln.text, '/'.join(seg['pairs']), before['regs'], after['regs']), rec,
                    dict(before=before['regs'], after=after['regs'], output=text[-700:]),
                    cmd=mw, refused=seg['pairs'][0], changed='regs')
        if bad:
            ties.append(dict(what='model and real monitor disagree on line %d %r of session %r [%s]' % (
                idx, ln.text, hist[:-1], dev), model='; '.join(bad)[:600], real=text[:300],
                replay=dict(device=dev, lines=list(hist))))
            model_lost = True
    return findings, ties, rows


_ZERO = {}


def zero_hash(dev):
    if dev not in _ZERO:
        _ZERO[dev] = hash(tuple([0] * (0x40000 if dev == '65Org16' else 0x10000)))
    return _ZERO[dev]


# ---------------------------------------------------------------------------------------
# workers
# ---------------------------------------------------------------------------------------

def _work(spec):
    seed, idx, nsess, base = spec
    install_timer()
    scratch = os.path.join(base, 'w%d' % idx)
    os.makedirs(scratch, exist_ok=True)
    scratch = os.path.realpath(scratch)
    prepare_scratch(scratch)
    rng = random.Random('c20-%d-%d' % (seed, idx))
    res = dict(sessions=0, lines=0, agree=0, findings=[], nfind={}, ties=[], dist={}, distinct=set(), aborted=0,
               samples=[], twins=0, asm_judged=0, asm_storing=0, asm_interactive=0)
    batch = []
    for s in range(nsess):
        dev = DEVS[(idx + s) % 3]
        lines = gen_session(rng, dev)
        out = run_session(dev, lines, scratch, twin=(s % 2 == 0))
        # zero-memory observation for reset / mpu (cheap: only when the model will claim it)
        batch.append((dev, out))
    reqs = [model_request(dev, out['records']) for dev, out in batch]
    try:
        replies = run_driver(reqs)
    except Exception as ex:  # noqa: B902
        res['ties'].append(dict(what='driver failed', model=str(ex)[:300], real=''))
        replies = None
    for k, (dev, out) in enumerate(batch):
        res['sessions'] += 1
        if out['aborted']:
            res['aborted'] += 1
        recs = out['records']
        segs = []
        if replies is not None and recs and recs[0]['kind'] != 'budget':
            try:
                segs = parse_model(replies[k]) if replies[k] else []
            except Exception as ex:  # noqa: B902
                res['ties'].append(dict(what='unparsable model reply', model=(replies[k] or '')[:300], real=str(ex)))
        f, t, rows = judge(dev, recs, segs)
        for x in f:
            ks = json.dumps(x['key'], sort_keys=True)
            res['nfind'][ks] = res['nfind'].get(ks, 0) + 1
            if res['nfind'][ks] <= 3:
                res['findings'].append(x)
        res['ties'] += t[:2]
        res['lines'] += len(rows)
        if not t:
            res['agree'] += len(rows)
        for word, ln, outcome in rows:
            key = '%s/%s' % (word or ln.cmd or '-', outcome)
            res['dist'][key] = res['dist'].get(key, 0) + 1
            if not (outcome == 'ok' and word is None and ln.argclass == 'blank'):
                res['distinct'].add((dev, word or '-', ln.argclass, ln.noise, outcome))
        res['twins'] += sum(1 for r in recs if r.get('twin') is not None and r['line'].canon is not None)
        for r in recs:
            if r.get('asm') is not None:
                res['asm_judged'] += 1
                res['asm_storing'] += 1 if r['asm']['want'] else 0
                res['asm_interactive'] += 1 if (r['asm']['want'] and r['line'].feed) else 0
        if len(res['samples']) < 2 and len(recs) >= 3 and not t and not f:
            res['samples'].append(dict(device=dev, lines=[r['line'].text[:60] for r in recs[:6]],
                                       outcomes=[o for _, _, o in rows[:6]]))
    shutil.rmtree(scratch, ignore_errors=True)
    res['distinct'] = list(res['distinct'])
    return res


def explore(ctx):
    t0 = time.time()
    base = os.path.join(ctx.work, 'c20')
    os.makedirs(base, exist_ok=True)
    nsess = 3000 if ctx.quick() else 100000
    procs = min(16, os.cpu_count() or 1)
    chunk = 50 if ctx.quick() else 250
    specs = [(ctx.seed, i, chunk, base) for i in range((nsess + chunk - 1) // chunk)]
    total = dict(sessions=0, lines=0, agree=0, findings=[], nfind={}, ties=[], dist={}, distinct=set(), aborted=0,
                 samples=[], twins=0, asm_judged=0, asm_storing=0, asm_interactive=0)
    cwd = os.getcwd()
    with multiprocessing.Pool(procs) as pool:
        for r in pool.imap_unordered(_work, specs):
            for k in ('sessions', 'lines', 'agree', 'aborted', 'twins', 'asm_judged', 'asm_storing', 'asm_interactive'):
                total[k] += r[k]
            total['findings'] += r['findings']
            total['ties'] += r['ties']
            total['samples'] += r['samples']
            for k, v in r['nfind'].items():
                total['nfind'][k] = total['nfind'].get(k, 0) + v
            for k, v in r['dist'].items():
                total['dist'][k] = total['dist'].get(k, 0) + v
            total['distinct'] |= set(tuple(x) for x in r['distinct'])
    os.chdir(cwd)
    ctx.note('%d sessions, %d lines, %d twin comparisons, %d sessions cut short by the time budget, %.1fs on %d processes'
             % (total['sessions'], total['lines'], total['twins'], total['aborted'], time.time() - t0, procs))
    for t in total['ties'][:6]:
        ctx.broken.append(dict(kind='tie', what=t['what'][:400], detail='model: %s | real: %s' % (t.get('model'), t.get('real')),
                               replay=t.get('replay')))
    if total['ties']:
        ctx.note('model/real disagreements: %d' % len(total['ties']))
    total['findings'].sort(key=lambda f: (len(f['replay']['lines']), sum(len(x) for x in f['replay']['lines'])))
    seen = {}
    for f in total['findings']:
        ks = json.dumps(f['key'], sort_keys=True)
        seen[ks] = seen.get(ks, 0) + 1
        if seen[ks] <= 2:
            ctx.findings.append(f)
            if seen[ks] == 1:
                ctx.note('property deviation %s x%d, e.g. %s' % (ks, total['nfind'][ks], f['what'][:300]))
    ctx.stats['evaluations'] = total['lines']
    ctx.stats['traces_validated_against_impl'] = total['agree']
    ctx.stats['distinct_nontrivial'] = len(total['distinct'])
    ctx.note('assemble lines judged by the store oracle: %d (%d of them must store something, %d through the '
             'interactive prompt)' % (total['asm_judged'], total['asm_storing'], total['asm_interactive']))
    ctx.stats['distribution'] = dict(sessions=total['sessions'], cut_short=total['aborted'], twin_comparisons=total['twins'],
                                     assemble_store_oracle=dict(judged=total['asm_judged'], storing=total['asm_storing'],
                                                                interactive_storing=total['asm_interactive']),
                                     command_outcome=dict(sorted(total['dist'].items())),
                                     property_deviations=total['nfind'])
    ctx.samples = total['samples'][:6]


def replay(ctx, path):
    obj = json.load(open(path))
    f = obj.get('finding')
    rp = (f or {}).get('replay') or (obj.get('broken') or [{}])[0].get('replay')
    if not rp:
        print(json.dumps(obj, indent=1)[:3000])
        return 0
    install_timer()
    scratch = os.path.realpath(os.path.join(ctx.work, 'replay'))
    os.makedirs(scratch, exist_ok=True)
    prepare_scratch(scratch)
    dev = rp['device']
    fds = rp.get('feeds') or []
    lines = [Line(t, feed=(fds[i].encode('latin-1') if i < len(fds) else b'')) for i, t in enumerate(rp['lines'])]
    out = run_session(dev, lines, scratch, twin=False)
    segs = []
    try:
        segs = parse_model(run_driver([model_request(dev, out['records'])])[0])
    except Exception as ex:  # noqa: B902
        print('model    : driver unavailable: %s' % ex)
    for i, r in enumerate(out['records']):
        print('line %2d  : %r' % (i, r['line'].text))
        if r['kind'] != 'ret':
            print('   real  : %s %s' % (r['kind'], r.get('val')))
            continue
        print('   real  : returned %r, refused=%s, state %s' % (r['val'], real_categories(r['text']), {
            k: v for k, v in core_of(r['after']).items() if k != 'mem'}))
        if core_of(r['before']) != core_of(r['after']):
            print('   changed: %s' % [k for k in core_of(r['before']) if r['before'][k] != r['after'][k]])
        if i < len(segs):
            print('   model : exit=%s verdict=%s regs=%s radix=%s width=%s labels=%s bps=%s' % (
                segs[i]['exit'], segs[i]['verdict'], segs[i]['regs'], segs[i]['radix'], segs[i]['width'],
                segs[i]['labels'], segs[i]['bps']))
    f2, t2, _ = judge(dev, out['records'], segs)
    for x in f2:
        print('DIFF     : [property] %s' % x['what'])
    for x in t2:
        print('DIFF     : [tie] %s -- %s' % (x['what'], x.get('model')))
    return 1 if (f2 or t2) else 0
