"""Tie by regeneration for the monitor's memory COMMAND FRONT ENDS (C16): run the translator
`harness/py2lean_monmem.py` (unit `memcmd`: help_fill/load/save/mem, do_fill, do_load, do_save, do_mem)
before the build -- called from `props/c16.py: pre_build(ctx)` after the `fill` unit of `montie`.

The translator parses `$PY65_REPO/py65/monitor.py` with `ast` and rewrites
`lean/Py65/Gen/MonMemGen.lean` iff its text changed; the check then builds
`Py65.Proofs.MonMemGenEq` (generated = hand model `Model/MonMem.lean`, for all arguments) and
`Py65.Props.C16g` like any other theorem module.  A refusal is a broken tie (`kind='translator'`),
never by itself a violation: the exploration still runs.
"""
import json
import os
import subprocess
import sys

HERE = os.path.dirname(os.path.dirname(os.path.abspath(__file__)))
if HERE not in sys.path:
    sys.path.insert(0, HERE)
from common import LEAN, REPO  # noqa: E402

FILE = 'MonMemGen.lean'


def pre_build(ctx):
    rep = os.path.join(ctx.work, 'py2lean_monmem.json')
    env = dict(os.environ, PY65_REPO=REPO)
    p = subprocess.run([sys.executable, os.path.join(HERE, 'py2lean_monmem.py'), '--out',
                        os.path.join(LEAN, 'Py65', 'Gen'), '--report', rep],
                       stdout=subprocess.PIPE, stderr=subprocess.STDOUT, env=env, timeout=120)
    out = p.stdout.decode('utf-8', 'replace')
    r = {}
    try:
        r = json.load(open(rep))
    except Exception:
        pass
    u = (r.get('units') or {}).get('memcmd', {})
    info = dict(unit='memcmd', file='lean/Py65/Gen/' + FILE, functions=u.get('functions'),
                rewritten=r.get('written'), source_sha256=r.get('source_sha256'), ok=bool(u.get('ok')))
    ctx.stats.setdefault('translator', {})['monitor_memcmd'] = info
    if p.returncode != 0 or not r.get('ok') or not u.get('ok'):
        err = u.get('error') or r.get('error') or out
        ctx.broken.append(dict(kind='translator',
                               what='py2lean_monmem refused py65/monitor.py (unit memcmd%s)'
                                    % (', function %s' % u['function'] if u.get('function') else ''),
                               detail=(err or '')[-1500:], where=u.get('where') or r.get('where'),
                               function=u.get('function')))
        ctx.note('monitor translator REFUSED unit memcmd: %s' % ((err or '')[:200]))
        return False
    if r.get('written'):
        ctx.note('monitor translator: %s rewritten (py65/monitor.py differs from the pinned translation)'
                 % ', '.join(r['written']))
    return True
