"""C10 -- ObservableMemory notifies exactly the subscribers of an address, once, in order.

Proof level: the theorems of lean/Py65/Props/C10.lean hold of the hand-written model
lean/Py65/Model/ObsMem.lean for ALL histories; lean/Py65/Props/C10g.lean restates them for the model
REGENERATED from the current py65/memory.py (tie 1: harness/py2lean_mem.py -> lean/Py65/Gen/ObsMemGen.lean,
run by `pre_build`; lean/Py65/Proofs/ObsMemGenEq.lean proves generated = hand model).  This module also is
tie 2 of the hand model to the real class (correspondence, DESIGN.md section 2.6) and the failing-input
search:

 * random histories (subscribe_to_read/_write with arbitrary address iterables, item and slice
   reads/writes, bulk writes; both mask sizes; aliasing, negative and huge addresses; repeated
   callbacks; callbacks answering None / 0 / other by a seeded rule) are executed on the REAL
   py65.memory.ObservableMemory in-process with instrumented callbacks that record the call log,
   and through the Lean model (driver line `obs ...`); the canonical texts are diffed
   (disagreement = broken tie);
 * independently, the PROPERTY is evaluated on the real code's behaviour by a small Python oracle
   written from the property text (exactly once, registration order, last non-None, chaining,
   silent bulk write, element-wise slices, no other cell changes); a violation is a finding with
   a shrunk replay.
"""
import json
import multiprocessing
import os
import random

import subprocess
import sys

import common
from common import bg, run_driver

# generated = hand model, one theorem per translated definition (lean/Py65/Proofs/ObsMemGenEq.lean)
GEN_EQ_THEOREMS = ['Py65.Proofs.ObsMemGenEq.' + t for t in (
    'init_eq', 'init_none_eq', 'init_defaults', 'setitem_int_eq', 'getitem_int_eq', 'setitem_slice_eq',
    'getitem_slice_eq', 'subscribe_to_write_eq', 'subscribe_to_read_eq', 'write_eq', 'apply_eq', 'run_eq',
    'obsStep_eq', 'replayObs_eq')]


def pre_build(ctx):
    """Tie 1 for py65/memory.py: regenerate lean/Py65/Gen/ObsMemGen.lean from the current source
    (called by check.py inside the build lock, before `lake build`).  Shared with C11."""
    rep = os.path.join(ctx.work, 'py2lean_mem.json')
    env = dict(os.environ, PYTHONPATH=common.REPO)
    p = subprocess.run([sys.executable, os.path.join(os.path.dirname(os.path.dirname(os.path.abspath(__file__))),
                                                     'py2lean_mem.py'),
                        '--out', os.path.join(common.LEAN, 'Py65', 'Gen'), '--report', rep],
                       stdout=subprocess.PIPE, stderr=subprocess.STDOUT, env=env, timeout=120)
    out = p.stdout.decode('utf-8', 'replace')
    r = {}
    try:
        r = json.load(open(rep))
    except Exception:
        pass
    if p.returncode != 0 or not r.get('ok'):
        ctx.broken.append(dict(
            kind='translator', what='py2lean_mem refused py65/memory.py (no regenerated ObservableMemory model: '
                                    'Py65/Gen/ObsMemGen.lean is now a stub that does not check, so ObsMemGenEq and '
                                    'the C10g/C11g theorems are unproved for this source)',
            detail=('%s%s%s' % (r.get('error') or out[-1500:],
                                ' at %s' % r['where'] if r.get('where') else '',
                                ' in %s' % r['function'] if r.get('function') else ''))[-1500:],
            where=r.get('where'), function=r.get('function')))
        return None
    ctx.stats['translator'] = dict(source='py65/memory.py', definitions=r.get('definitions'),
                                   functions=r.get('functions'), rewritten=r.get('written'),
                                   source_sha256=r.get('source_sha256'))
    if r.get('written'):
        ctx.note('py2lean_mem: Py65/Gen/ObsMemGen.lean changed (memory.py differs from the committed translation)')
    return r

ID = 'C10'
# Props.C10: the property theorems about the hand model; Proofs.ObsMemGenEq: the model REGENERATED from
# the current py65/memory.py (harness/py2lean_mem.py, run by pre_build below) equals the hand model;
# Props.C10g: the property theorems restated for the regenerated definitions.
LEAN_MODULES = ['Py65.Props.C10', 'Py65.Proofs.ObsMemGenEq', 'Py65.Props.C10g']
NAMESPACES = ['Py65.Props.C10', 'Py65.Proofs.ObsMemGenEq', 'Py65.Props.C10g']
# library helpers (CPython behaviour modelled in lean/Py65/Model/*Rt*.lean ...) that the generated code of these
# modules calls, derived by scanning the Lean sources (harness/rtscan.py); validated against CPython on every run
import rtcheck  # noqa: E402
RT_HELPERS = rtcheck.helpers_for(LEAN_MODULES)
LEVEL = 'proof'
USES_GEN = False
RULE = ('a history counts as non-trivial when at least one subscriber callback was called in it; '
        'distinct = distinct (address width, sequence of operation kinds, sequence of '
        '(callback id, read/write, replied None/0/other) of the calls made) tuples among those')
TRUSTED = [
    'tie 1 (regeneration): harness/py2lean_mem.py parses py65/memory.py with `ast` on every run and writes '
    'lean/Py65/Gen/ObsMemGen.lean (every method of ObservableMemory except __getattr__, statement by '
    'statement: masks, comparisons, `&=`, the order mask / look-up / loop / store, the `is None` tests, loop '
    'bodies, slice bounds, default arguments); it refuses (exit 3 -> broken tie) any construct, attribute, '
    'method or call outside its enumerated subset.  lean/Py65/Proofs/ObsMemGenEq.lean proves generated = '
    'hand model for ALL arguments; Props/C10g.lean restates the property theorems for the generated '
    'definitions.  Trusted here: the translator itself (evaluation order of the accepted subset, the typing '
    'of the parameters: int / slice index, list of ints, callback) -- it is additionally validated every run '
    'by tie 2, because generated = hand model is proved and hand model = real class is sampled',
    'modelled, not regenerated (library behaviour, lean/Py65/Model/PyData.lean and sliceIndices in '
    'Model/ObsMem.lean): defaultdict(list) / setdefault (absent key = empty list, the returned list aliases '
    'the entry), `callback not in list` as object identity, list.append, slice.indices + range, zip, len, '
    'n * [c], list item assignment, list slice assignment (Py.listSliceAssign); and the hand-written prelude '
    '`call` printed verbatim by the translator: a callback call is answered by the oracle `reply` and '
    'appended to the call log',
    'tie 2 (sampled correspondence): hand model lean/Py65/Model/ObsMem.lean vs py65.memory.ObservableMemory '
    '(exact comparison of returned values, complete call log, touched cells, len(_subject))',
    'harness/props/c10.py: generator, canonicaliser, the seeded reply rule (reproduced in '
    'Py65/Driver/Obs.lean) and the independent property oracle',
]
ASSUMPTIONS = [
    'the backing list is a Python list of the default length physMask+1 (what ObservableMemory() creates '
    'itself -- generated __init__ with subject=None, theorem C10g.init_default -- and what the harness passes '
    'as subject=)',
    'callbacks are distinct Python objects per id (registration identity = object identity), take '
    '(address) / (address, value) and return None or an int; they do not raise and do not re-enter the memory',
    'slice step 0 raises ValueError before any element is touched (modelled); no other exception is modelled '
    '(in particular no IndexError: item access masks the address first)',
    'address collections, slice-assignment values and bulk-write data are modelled as finite lists of ints',
    '__getattr__ delegation to the backing list is outside the property and not modelled (the translator '
    'only checks that it is still the plain delegation)',
]
EXPECTED_THEOREMS = [
    'Py65.Props.C10.subs_spec', 'Py65.Props.C10.get_calls', 'Py65.Props.C10.set_chain',
    'Py65.Props.C10.no_subs_silent', 'Py65.Props.C10.subscribe_idempotent',
    'Py65.Props.C10.slice_elementwise', 'Py65.Props.C10.bulk_write_silent',
] + GEN_EQ_THEOREMS + [
    'Py65.Props.C10g.subs_spec', 'Py65.Props.C10g.get_calls', 'Py65.Props.C10g.set_chain',
    'Py65.Props.C10g.no_subs_silent', 'Py65.Props.C10g.subscribe_idempotent',
    'Py65.Props.C10g.slice_elementwise', 'Py65.Props.C10g.bulk_write_silent', 'Py65.Props.C10g.init_default',
]

MASK = {16: 0xffff, 32: 0x3ffff}
_TEMPLATE = {}


def cell0(a):
    return (a * 37 + 11) % 251


def template(width):
    t = _TEMPLATE.get(width)
    if t is None:
        t = [cell0(a) for a in range(MASK[width] + 1)]
        _TEMPLATE[width] = t
    return t


def reply_rule(seed, cb, idx, addr, val):
    """The seeded answer of callback `cb` (same rule as Py65.Driver.replyRule)."""
    pers = bg(seed, 8, cb) % 4
    if pers == 0:
        return None
    key = cb * 1000003 + idx * 7919 + addr * 31 + (0 if val is None else (val + 1) * 131)
    k = bg(seed, 19, key)
    if pers == 1:
        return None if k % 3 == 0 else (0 if k % 3 == 1 else k // 3 % 256)
    if pers == 2:
        return 0 if k % 5 == 0 else k // 5 % 300 - 20
    return 0 if k % 8 == 0 else (k // 8 % 256 if k % 8 == 1 else None)


# ---------------------------------------------------------------------------------------
# generator
# ---------------------------------------------------------------------------------------

def gen_history(rng, maxlen=40):
    width = rng.choice([16, 32])
    mask = MASK[width]
    L = mask + 1
    nhot = rng.choice([1, 2, 2, 3, 4])
    hot = []
    for _ in range(nhot):
        r = rng.random()
        if r < 0.3:
            hot.append(rng.choice([0, 1, mask, mask - 1, L // 2, 0xff, 0x100, 0xf001, 0xf004]) & mask)
        elif hot and r < 0.6:
            hot.append((hot[-1] + rng.choice([1, 2, 3, -1])) & mask)
        else:
            hot.append(rng.randrange(L))
    ncb = rng.choice([1, 2, 3, 4, 6])

    def addr():
        a = rng.choice(hot)
        r = rng.random()
        if r < 0.12:
            a = (a + rng.choice([-1, 1])) & mask
        r = rng.random()
        if r < 0.45:
            return a
        if r < 0.65:
            return a + L                        # alias one physical size up
        if r < 0.75:
            return a - L                        # negative alias
        if r < 0.85:
            return a + L * rng.choice([2, 3, -2, 5, 1 << 14, -(1 << 14)])
        if r < 0.92:
            return a + L * rng.randrange(-(1 << 30), 1 << 30)   # huge ints
        return rng.randrange(-3 * L, 3 * L)

    def addr_list():
        r = rng.random()
        if r < 0.08:
            return []
        if r < 0.35:
            return [addr()]
        if r < 0.6:
            a = addr()
            n = rng.choice([2, 3, 4, 8])
            return list(range(a, a + n))          # contiguous, may cross the physical size
        l = [addr() for _ in range(rng.choice([2, 3, 4, 6]))]
        if rng.random() < 0.5:
            l.append(rng.choice(l))               # repeats inside one iterable
        return l

    def val():
        r = rng.random()
        if r < 0.2:
            return 0
        if r < 0.8:
            return rng.randrange(256)
        return rng.choice([-1, 256, 0xffff, 1 << 40, -77])

    def slc():
        """(start, stop, step) around the hot addresses; at most a few hundred elements."""
        while True:
            s = slc1()
            if s[2] == 0 or len(range(*slice(*s).indices(L))) <= 400:
                return s

    def slc1():
        a = rng.choice(hot)
        r = rng.random()
        if r < 0.04:
            return (rng.choice([None, a]), rng.choice([None, a + 3]), 0)       # ValueError
        if r < 0.45:
            lo, hi = a - rng.choice([0, 1, 2, 5]), a + rng.choice([0, 1, 2, 3, 9])
            step = rng.choice([None, 1, 1, 2, 3])
            if rng.random() < 0.35:
                lo, hi = lo - L, hi - L          # negative (from the end) spelling
            elif rng.random() < 0.2:
                hi = hi - L if hi < L else hi
            return (lo, hi, step)
        if r < 0.7:
            hi, lo = a + rng.choice([0, 1, 2, 5]), a - rng.choice([1, 2, 3, 9])
            step = rng.choice([-1, -1, -2, -3])
            if rng.random() < 0.35:
                lo, hi = lo - L, hi - L
            return (hi, lo, step)
        if r < 0.8:
            # open ended towards an end of the memory
            if rng.random() < 0.5:
                return (mask - rng.choice([0, 1, 5, 40]), rng.choice([None, L, L + 7, 1 << 40]),
                        rng.choice([None, 1, 3]))
            return (rng.choice([0, 1, 5, 40]), rng.choice([None, -L - 1, -(1 << 40)]),
                    rng.choice([-1, -2, -7]))
        if r < 0.9:
            # None start/stop, large stride through the hot address
            step = rng.choice([L // 256, L // 64 + 1, 4099, -(L // 256), -4099, -(L // 16)])
            if rng.random() < 0.5:
                return (a % abs(step) if step > 0 else None, None, step)
            return (None, None, step)
        # out of range / clamped / empty
        return (rng.choice([None, L + 5, -L - 5, a, -1, 1 << 35]),
                rng.choice([None, a, a + 2, -1, -L - 9, L + 1]),
                rng.choice([None, 1, -1, L // 128, -(L // 128), 1 << 33, -(1 << 33)]))

    ops = []
    n = rng.randrange(3, maxlen + 1)
    nsub = rng.choice([1, 2, 3, 5, 8])
    for i in range(n):
        r = rng.random()
        if i < nsub or r < 0.18:
            ops.append([rng.choice('RW'), rng.randrange(ncb), addr_list()])
        elif r < 0.42:
            ops.append(['g', addr()])
        elif r < 0.66:
            ops.append(['s', addr(), val()])
        elif r < 0.78:
            ops.append(['G'] + list(slc()))
        elif r < 0.9:
            s = slc()
            try:
                cnt = len(range(*slice(*s).indices(L)))
            except ValueError:
                cnt = 2
            k = rng.choice([cnt, cnt, max(0, cnt - 1), cnt + 2, 0, 1])
            ops.append(['S'] + list(s) + [[val() for _ in range(min(k, 400))]])
        else:
            a = addr()
            if rng.random() < 0.3:
                a = mask - rng.choice([0, 1, 2, 5])    # near the end: may run past it
            ops.append(['B', a, [val() for _ in range(rng.choice([0, 1, 2, 3, 8]))]])
    return dict(width=width, seed=rng.randrange(1 << 30), ops=ops)


def fmt_opt(x):
    return 'N' if x is None else str(x)


def fmt_list(l):
    return ','.join(str(x) for x in l) or '-'


def op_token(op):
    k = op[0]
    if k in 'RW':
        return '%s:%d:%s' % (k, op[1], fmt_list(op[2]))
    if k == 'g':
        return 'g:%d' % op[1]
    if k == 's':
        return 's:%d:%d' % (op[1], op[2])
    if k == 'G':
        return 'G:%s:%s:%s' % tuple(fmt_opt(x) for x in op[1:4])
    if k == 'S':
        return 'S:%s:%s:%s:%s' % (fmt_opt(op[1]), fmt_opt(op[2]), fmt_opt(op[3]), fmt_list(op[4]))
    if k == 'B':
        return 'B:%d:%s' % (op[1], fmt_list(op[2]))
    raise ValueError(k)


def driver_line(h):
    return 'obs %d %d %s' % (h['width'], h['seed'], ' '.join(op_token(o) for o in h['ops']))


# ---------------------------------------------------------------------------------------
# the real class, instrumented
# ---------------------------------------------------------------------------------------

class RealRun(object):
    """Runs one history on the real ObservableMemory; records per-op results and call-log slices."""

    def __init__(self, h, subject=None, iterable_variation=True):
        from py65.memory import ObservableMemory
        self.h = h
        self.width, self.seed = h['width'], h['seed']
        self.mask = MASK[self.width]
        self.L = self.mask + 1
        self.subject = subject if subject is not None else template(self.width)[:]
        self.mem = ObservableMemory(subject=self.subject, addrWidth=self.width)
        self.log = []
        self.replies = []
        self._cbs = {}
        self.outs = []          # per op: '-', int, list, 'E', 'X:Type'
        self.log_at = []        # len(log) before each op
        self.touched = set()

    def cb(self, kind, i):
        # Every second callback index (by history seed) is ONE callable used for both directions -- a tracer
        # `cb(address, value=None)` subscribed to reads and to writes is an ordinary client of the class; read and
        # write subscriptions are independent tables, so the documented behaviour is that of two separate callables
        # (seeded change C10-5 kept one set of (address, callback) pairs for both directions).
        dual = (self.seed + i) % 2 == 0
        key = ('D', i) if dual else (kind, i)
        f = self._cbs.get(key)
        if f is None:
            log, replies, seed = self.log, self.replies, self.seed
            if dual:
                def f(address, value=None, _i=i):
                    idx = len(log)
                    log.append((_i, address, value))
                    r = reply_rule(seed, _i, idx, address, value)
                    replies.append(r)
                    return r
            elif kind == 'R':
                def f(address, _i=i):
                    idx = len(log)
                    log.append((_i, address, None))
                    r = reply_rule(seed, _i, idx, address, None)
                    replies.append(r)
                    return r
            else:
                def f(address, value, _i=i):
                    idx = len(log)
                    log.append((_i, address, value))
                    r = reply_rule(seed, _i, idx, address, value)
                    replies.append(r)
                    return r
            self._cbs[key] = f
        return f

    def iterable(self, l, j):
        # the address "range" may be any iterable
        m = j % 4
        if m == 0:
            return l
        if m == 1:
            return tuple(l)
        if m == 2:
            return iter(list(l))
        if len(l) >= 2 and all(l[i + 1] == l[i] + 1 for i in range(len(l) - 1)):
            return range(l[0], l[-1] + 1)
        return (x for x in l)

    def run(self):
        mem, L = self.mem, self.L
        for j, op in enumerate(self.h['ops']):
            self.log_at.append(len(self.log))
            k = op[0]
            try:
                if k == 'R':
                    mem.subscribe_to_read(self.iterable(op[2], j), self.cb('R', op[1]))
                    out = '-'
                elif k == 'W':
                    mem.subscribe_to_write(self.iterable(op[2], j), self.cb('W', op[1]))
                    out = '-'
                elif k == 'g':
                    out = mem[op[1]]
                    self.touched.add(op[1] & self.mask)
                elif k == 's':
                    self.touched.add(op[1] & self.mask)
                    mem[op[1]] = op[2]
                    out = '-'
                elif k == 'G':
                    sl = slice(op[1], op[2], op[3])
                    if op[3] != 0:
                        self.touched.update(range(*sl.indices(L)))
                    out = mem[sl]
                elif k == 'S':
                    sl = slice(op[1], op[2], op[3])
                    if op[3] != 0:
                        self.touched.update(range(*sl.indices(L)))
                    mem[sl] = list(op[4]) if j % 2 else iter(list(op[4]))
                    out = '-'
                elif k == 'B':
                    s = op[1] & self.mask
                    self.touched.update(range(s, s + len(op[2])))
                    mem.write(op[1], list(op[2]))
                    out = '-'
                else:
                    raise AssertionError(k)
            except ValueError:
                out = 'E'
            except Exception as ex:      # the model knows no other exception
                out = 'X:%s' % type(ex).__name__
            self.outs.append(out)
        self.log_at.append(len(self.log))
        return self

    def canonical(self):
        def o(x):
            if isinstance(x, list):
                return '[' + ','.join(str(v) for v in x) + ']'
            return str(x)
        outs = ' '.join(o(x) for x in self.outs) or '-'
        log = ' '.join('%d:%d:%s' % (c, a, fmt_opt(v)) for (c, a, v) in self.log) or '-'
        subj = self.subject
        cells = ' '.join('%d=%s' % (a, subj[a] if -len(subj) <= a < len(subj) else '?')
                         for a in sorted(self.touched)) or '-'
        return '%s | %s | %s | %d' % (outs, log, cells, len(subj))


# ---------------------------------------------------------------------------------------
# the property, evaluated directly on the behaviour of the real code (independent oracle)
# ---------------------------------------------------------------------------------------

def first_occurrences(l):
    out = []
    for x in l:
        if x not in out:
            out.append(x)
    return out


def oracle_check(rr):
    """Returns list of violations dict(aspect=, op_index=, op=, expected=, got=) of the property
    on the recorded behaviour `rr` (a finished RealRun), and the oracle's expected cells/length."""
    h = rr.h
    L = rr.L
    viol = []
    registrations = {'R': [], 'W': []}     # (frozenset of physical addresses, cb) in order
    cells = {}                             # physical address -> value (else template)
    length = L
    tmpl = template(rr.width)

    def cell(a):
        return cells[a] if a in cells else tmpl[a]

    def subscribers(kind, a):
        return first_occurrences([cb for (aset, cb) in registrations[kind] if a in aset])

    pos = 0                                # how much of the real call log is explained so far

    def expect_calls(j, op, exp, aspect):
        nonlocal pos
        got = rr.log[pos:pos + len(exp)]
        if got != exp:
            viol.append(dict(aspect=aspect, op_index=j, op=op_token(op), expected=exp[:12], got=got[:12]))
        pos += len(exp)

    def spec_get(j, op, a):
        """expected (calls, value) of one item read of physical address a, given the replies the
        callbacks really gave (taken from the seeded rule at the real call indices)."""
        nonlocal pos
        subs = subscribers('R', a)
        exp = [(cb, a, None) for cb in subs]
        result = None
        for i, cb in enumerate(subs):
            r = reply_rule(rr.seed, cb, pos + i, a, None)
            if r is not None:
                result = r
        expect_calls(j, op, exp, 'read-calls')
        return cell(a) if result is None else result

    def spec_set(j, op, a, v):
        nonlocal pos
        subs = subscribers('W', a)
        exp = []
        for i, cb in enumerate(subs):
            exp.append((cb, a, v))
            r = reply_rule(rr.seed, cb, pos + i, a, v)
            if r is not None:
                v = r
        expect_calls(j, op, exp, 'write-chain')
        cells[a] = v

    for j, op in enumerate(h['ops']):
        k = op[0]
        out = rr.outs[j]
        if pos != rr.log_at[j]:
            viol.append(dict(aspect='call-count', op_index=j - 1, op=op_token(h['ops'][j - 1]) if j else '-',
                             expected='%d calls so far' % pos, got='%d calls so far' % rr.log_at[j]))
            pos = rr.log_at[j]
        if isinstance(out, str) and out.startswith('X:'):
            viol.append(dict(aspect='raise', op_index=j, op=op_token(op), expected='no exception', got=out))
            continue
        if k in 'RW':
            registrations[k].append((frozenset(a % L for a in op[2]), op[1]))
        elif k == 'g':
            want = spec_get(j, op, op[1] % L)
            if out != want:
                viol.append(dict(aspect='read-value', op_index=j, op=op_token(op), expected=want, got=out))
        elif k == 's':
            spec_set(j, op, op[1] % L, op[2])
        elif k in 'GS':
            if op[3] == 0:
                if out != 'E':
                    viol.append(dict(aspect='slice', op_index=j, op=op_token(op), expected='ValueError', got=out))
                continue
            idx = list(range(L)[op[1]:op[2]:op[3]])     # element-wise sequence, independent of .indices()
            if k == 'G':
                want = [spec_get(j, op, a) for a in idx]
                if out != want:
                    viol.append(dict(aspect='slice-read', op_index=j, op=op_token(op),
                                     expected=want[:12], got=out[:12] if isinstance(out, list) else out))
            else:
                for a, v in zip(idx, op[4]):
                    spec_set(j, op, a, v)
        elif k == 'B':
            s = op[1] % L
            for i, v in enumerate(op[2]):
                cells[s + i] = v
            length = max(length, s + len(op[2]))
    if pos != len(rr.log):
        viol.append(dict(aspect='call-count', op_index=len(h['ops']) - 1, op=op_token(h['ops'][-1]),
                         expected='%d calls in all' % pos, got='%d calls in all' % len(rr.log),
                         extra=rr.log[pos:pos + 8]))
    # every cell of the backing list: template, except what the property says was stored.  The
    # cells the property accounts for are checked and put back, then the whole list must equal the
    # template again (one C-speed comparison; also leaves `subject` reusable for the next history)
    subj = rr.subject
    bad = None
    if len(subj) != length:
        bad = ('len', length, len(subj))
    for a, v in cells.items():
        if a >= len(subj) or subj[a] != v:
            bad = bad or (a, v, subj[a] if a < len(subj) else None)
        if a < L and a < len(subj):
            subj[a] = tmpl[a]
    del subj[L:]
    if subj != tmpl:
        n = min(len(tmpl), len(subj))
        a = next((i for i in range(n) if tmpl[i] != subj[i]), n)
        bad = bad or (a, tmpl[a] if a < len(tmpl) else None, subj[a] if a < len(subj) else None)
        subj[:] = tmpl
    if bad is not None:
        viol.append(dict(aspect='cells', op_index=None, op='(final memory)', expected='cell %s = %s' % bad[:2],
                         got='cell %s = %s' % (bad[0], bad[2])))
    return viol


# ---------------------------------------------------------------------------------------
# evaluation of a batch
# ---------------------------------------------------------------------------------------

def violates(h):
    rr = RealRun(h).run()
    rr.canon = rr.canonical()
    return oracle_check(rr), rr


def shrink(h, aspect):
    """Greedy: drop operations / shorten address lists while some violation of the same aspect
    remains."""
    def bad(hh):
        try:
            v, _ = violates(hh)
        except Exception:
            return False
        return any(x['aspect'] == aspect for x in v)
    cur = dict(h, ops=[list(o) for o in h['ops']])
    changed = True
    while changed:
        changed = False
        i = len(cur['ops']) - 1
        while i >= 0:
            cand = dict(cur, ops=cur['ops'][:i] + cur['ops'][i + 1:])
            if cand['ops'] and bad(cand):
                cur = cand
                changed = True
            i -= 1
        for i, o in enumerate(cur['ops']):
            if o[0] in 'RW' and len(o[2]) > 1:
                for j in range(len(o[2])):
                    cand_op = [o[0], o[1], o[2][:j] + o[2][j + 1:]]
                    cand = dict(cur, ops=cur['ops'][:i] + [cand_op] + cur['ops'][i + 1:])
                    if bad(cand):
                        cur = cand
                        changed = True
                        break
    return cur


def signature(h, rr):
    kinds = ''.join(o[0] for o in h['ops'])
    calls = tuple((c, v is not None, 0 if r is None else (1 if r == 0 else 2))
                  for (c, a, v), r in zip(rr.log, rr.replies))
    return hash((h['width'], kinds, calls))


def evaluate(histories, driver_ok=True):
    out = dict(n=len(histories), tie_bad=[], findings=[], sigs=set(), samples=[], validated=0,
               dist=dict(width16=0, width32=0, ops=0, sub=0, get=0, set=0, slice_get=0, slice_set=0, bulk=0,
                         calls=0, reply_none=0, reply_zero=0, reply_other=0, alias_or_negative_addr=0,
                         value_error=0, bulk_past_end=0, slices_with_calls=0, histories_with_calls=0,
                         repeated_registration=0, chain_replaced=0))
    dist = out['dist']
    runs = []
    pool = {}
    for h in histories:
        subj = pool.get(h['width'])
        if subj is None:
            subj = pool[h['width']] = template(h['width'])[:]
        rr = RealRun(h, subject=subj).run()
        runs.append(rr)
        rr.canon = rr.canonical()
        viol = oracle_check(rr)      # also puts `subj` back to the template
        rr.subject = None
        dist['width%d' % h['width']] += 1
        dist['ops'] += len(h['ops'])
        seen_reg = set()
        for j, o in enumerate(h['ops']):
            k = o[0]
            dist[{'R': 'sub', 'W': 'sub', 'g': 'get', 's': 'set', 'G': 'slice_get', 'S': 'slice_set',
                  'B': 'bulk'}[k]] += 1
            if k in 'gsB' and not (0 <= o[1] <= rr.mask):
                dist['alias_or_negative_addr'] += 1
            if k in 'RW':
                for a in o[2]:
                    if not (0 <= a <= rr.mask):
                        dist['alias_or_negative_addr'] += 1
                    key = (k, o[1], a & rr.mask)
                    if key in seen_reg:
                        dist['repeated_registration'] += 1
                    seen_reg.add(key)
            if k in 'GS' and rr.log_at[j + 1] > rr.log_at[j]:
                dist['slices_with_calls'] += 1
            if k == 'B' and (o[1] & rr.mask) + len(o[2]) > rr.L:
                dist['bulk_past_end'] += 1
            if rr.outs[j] == 'E':
                dist['value_error'] += 1
        dist['calls'] += len(rr.log)
        for (c, a, v), r in zip(rr.log, rr.replies):
            dist['reply_none' if r is None else ('reply_zero' if r == 0 else 'reply_other')] += 1
            if v is not None and r is not None and r != v:
                dist['chain_replaced'] += 1
        if rr.log:
            dist['histories_with_calls'] += 1
            out['sigs'].add(signature(h, rr))
        if len(out['samples']) < 2 and rr.log and len(h['ops']) <= 14:
            out['samples'].append(dict(request=driver_line(h), real=rr.canon[:600]))
        if viol:
            v = viol[0]
            small = shrink(h, v['aspect'])
            v2, rr2 = violates(small)
            v2 = [x for x in v2 if x['aspect'] == v['aspect']] or v2 or viol
            w = v2[0]
            out['findings'].append(dict(
                key=dict(aspect=w['aspect'], width=small['width']),
                what='ObservableMemory(%d-bit) %s at op %s `%s`: expected %s, got %s' % (
                    small['width'], w['aspect'], w['op_index'], w['op'], w['expected'], w['got']),
                replay=dict(history=small, request=driver_line(small), violation=w,
                            real=rr2.canon[:1500], original_history=h)))
    if driver_ok:
        replies = run_driver([driver_line(h) for h in histories])
        for h, rr, rp in zip(histories, runs, replies):
            can = rr.canon
            out['validated'] += 1
            if can != rp:
                out['tie_bad'].append(dict(request=driver_line(h)[:1500], model=rp[:800], real=can[:800]))
    out['sigs'] = list(out['sigs'])
    return out


def _worker(args):
    seed, n, maxlen, driver_ok = args
    rng = random.Random(seed)
    return evaluate([gen_history(rng, maxlen) for _ in range(n)], driver_ok)


def explore(ctx):
    quick = ctx.quick()
    total = 4000 if quick else 150000
    per = 250 if quick else 1000
    jobs = [(ctx.seed * 1000003 + k, per, 40, ctx.driver_ok) for k in range(total // per)]
    results = []
    corpus_dir = os.path.join(common.VERIF, 'corpus', ID)
    corpus = []
    if os.path.isdir(corpus_dir):
        for f in sorted(os.listdir(corpus_dir)):
            if f.endswith('.json'):
                try:
                    corpus.append(json.load(open(os.path.join(corpus_dir, f)))['history'])
                except Exception:
                    pass
    if corpus:
        results.append(evaluate(corpus, ctx.driver_ok))
    with multiprocessing.Pool(min(16, len(jobs))) as pool:
        results += pool.map(_worker, jobs)
    n = sum(r['n'] for r in results)
    sigs = set()
    dist = {}
    ties = []
    for r in results:
        sigs |= set(r['sigs'])
        for k, v in r['dist'].items():
            dist[k] = dist.get(k, 0) + v
        ctx.findings += r['findings']
        ties += r['tie_bad']
        for s in r['samples']:
            if len(ctx.samples) < 6:
                ctx.samples.append(s)
    if ties:
        ctx.broken.append(dict(kind='tie', what='ObsMem model and py65.memory.ObservableMemory disagree '
                                                '(correspondence)', detail=json.dumps(ties[0])[:1800],
                               count=len(ties)))
    ctx.stats['evaluations'] = n
    ctx.stats['distinct_nontrivial'] = len(sigs)
    ctx.stats['traces_validated_against_impl'] = sum(r['validated'] for r in results)
    ctx.stats['distribution'] = dist
    ctx.note('explored %d histories (%d ops, %d callback calls), %d distinct non-trivial, %d findings, '
             '%d model/code disagreements' % (n, dist.get('ops', 0), dist.get('calls', 0), len(sigs),
                                              len(ctx.findings), len(ties)))


def replay(ctx, path):
    """Re-run one replay file on the real code, the property oracle and the Lean model."""
    obj = json.load(open(path))
    f = obj.get('finding')
    if not f:
        print(json.dumps(obj, indent=1)[:3000])
        return 0
    h = f['replay']['history']
    viol, rr = violates(h)
    print('history:', driver_line(h))
    print('real   :', rr.canon[:2000])
    try:
        print('model  :', run_driver([driver_line(h)])[0][:2000])
    except Exception as ex:
        print('model  : (driver not available: %s)' % ex)
    for v in viol:
        print('DIFF   : [%s] op %s `%s`: expected %s, got %s' % (v['aspect'], v['op_index'], v['op'],
                                                                 v['expected'], v['got']))
    return 1 if viol else 0
