"""C18 -- character I/O maps at the configured addresses, once per access, across resets.

Proof level: the theorems of lean/Py65/Props/C18.lean hold of the hand-written model
lean/Py65/Model/MonIO.lean (the ObservableMemory model of C10 + the monitor's two observers +
`-i/-o`, `_reset`, `reset`, `mpu`).  This module ties the model to the real `py65.monitor.Monitor`
and evaluates the PROPERTY on the real code.

A case = device, `-i`/`-o` option texts (absent, defaults, page boundaries, the ends of the address
space, 0, aliases beyond the 256 K physical memory of the 65Org16, I == O, neighbours), a sequence of
`reset` / `mpu <name>` commands issued through `Monitor.onecmd`, a pending input string written to
the monitor's stdin (a real pipe: `getc` uses select + read on the descriptor), and a straight-line
program mixing loads and stores (LDA/LDX/LDY/STA/STX/STY absolute, INC absolute) to O, I, their
neighbours, aliases and unrelated cells.  The program is poked with the monitor's own `fill` command and
run with `goto`; a transparent recording proxy around the device's memory object yields the ordered
access log with the values returned.

 * PROPERTY oracle (written from the property text, does not use the Lean model), on the log:
   the text the monitor printed during the run is exactly the values stored to addresses congruent to O
   (mod physical size), in order, each once (followed by the status lines); every load from an address
   congruent to I returns the next pending byte (LF as CR) or 0 when none is pending; afterwards
   exactly that many bytes are gone from the pipe; every other load returns the cell.  By
   construction of the program the same is demanded of the result cells the program stored its loads
   to.  The mapping must be there after the constructor and after every reset / mpu sequence.
 * TIE: the same (options, commands, pending input, access log) goes through the Lean model (`io …`):
   observers installed or not, their masked addresses, every value read, the output and the number
   of pending bytes left must agree.
"""
import json
import multiprocessing
import os
import random
import select
import sys
import time

HERE = os.path.dirname(os.path.dirname(os.path.abspath(__file__)))
if HERE not in sys.path:
    sys.path.insert(0, HERE)
from common import run_driver  # noqa: E402
from props.moncommon import Mon, DEVS, WIDTHS, install_timer, tohex  # noqa: E402

ID = 'C18'
LEAN_MODULES = ['Py65.Props.C18', 'Py65.Proofs.MonIOGenEq', 'Py65.Props.C18g', 'Py65.Proofs.ConsoleGenEq',
                'Py65.Props.C18gc', 'Py65.Props.C18h']
NAMESPACES = ['Py65.Props.C18', 'Py65.Proofs.MonIOGenEq', 'Py65.Props.C18g', 'Py65.Proofs.ConsoleGenEq',
              'Py65.Props.C18gc', 'Py65.Props.C18h']
# library helpers (CPython behaviour modelled in lean/Py65/Model/*Rt*.lean ...) that the generated code of these
# modules calls, derived by scanning the Lean sources (harness/rtscan.py); validated against CPython on every run
import rtcheck  # noqa: E402
RT_HELPERS = rtcheck.helpers_for(LEAN_MODULES)
LEVEL = 'proof'
USES_PROLOGUE = True
USES_GEN = True      # Proofs/MonIOGenEq ties the modelled device-class constants to the CPU-generated Cfg
EXPECTED_THEOREMS = [
    'Py65.Props.C18.io_trace', 'Py65.Props.C18.io_mapping_stable', 'Py65.Props.C18.io_session',
    # tie by regeneration: generated methods / closures = hand model, and the theorems restated for them
    'Py65.Proofs.MonIOGenEq.cls_widths', 'Py65.Proofs.MonIOGenEq.microprocessors_eq',
    'Py65.Proofs.MonIOGenEq.get_mpu_spec', 'Py65.Proofs.MonIOGenEq.get_mpu_eq',
    'Py65.Proofs.MonIOGenEq.get_mpu_own_name',
    'Py65.Proofs.MonIOGenEq.getc_eq', 'Py65.Proofs.MonIOGenEq.putc_eq', 'Py65.Proofs.MonIOGenEq.putc_unencodable',
    'Py65.Proofs.MonIOGenEq.putc_not_a_code_point', 'Py65.Proofs.MonIOGenEq.call_putc',
    'Py65.Proofs.MonIOGenEq.call_getc', 'Py65.Proofs.MonIOGenEq.accessG_good',
    'Py65.Proofs.MonIOGenEq.replayG_good', 'Py65.Proofs.MonIOGenEq.install_spec',
    'Py65.Proofs.MonIOGenEq.install_eq', 'Py65.Proofs.MonIOGenEq.install_none',
    'Py65.Proofs.MonIOGenEq.reset_eq', 'Py65.Proofs.MonIOGenEq.sessOf_resetSt',
    'Py65.Proofs.MonIOGenEq.do_reset_eq', 'Py65.Proofs.MonIOGenEq.available_mpus_eq',
    'Py65.Proofs.MonIOGenEq.do_mpu_eq', 'Py65.Proofs.MonIOGenEq.applyCmdG_eq',
    'Py65.Proofs.MonIOGenEq.applyCmdsG_eq', 'Py65.Proofs.MonIOGenEq.parse_loop_eq',
    'Py65.Proofs.MonIOGenEq.parse_args_eq', 'Py65.Proofs.MonIOGenEq.init_eq',
    'Py65.Proofs.MonIOGenEq.parse_optsOf', 'Py65.Proofs.MonIOGenEq.init_construct',
    'Py65.Props.C18g.io_trace', 'Py65.Props.C18g.io_mapping_stable', 'Py65.Props.C18g.io_session',
    'Py65.Props.C18g.defaults', 'Py65.Props.C18g.reset_recreates', 'Py65.Props.C18g.reset_zero_is_an_address',
    # the console side: getch_noblock (POSIX) + as_string (Python 3) regenerated
    'Py65.Proofs.ConsoleGenEq.as_string_eq', 'Py65.Proofs.ConsoleGenEq.decode_latin1',
    'Py65.Proofs.ConsoleGenEq.decode_utf8_high_byte', 'Py65.Proofs.ConsoleGenEq.getch_noblock_eq',
    'Py65.Proofs.ConsoleGenEq.getch_noblock_eq_modes', 'Py65.Proofs.ConsoleGenEq.getch_noblock_select_fault',
    'Py65.Props.C18gc.console_delivers_every_byte', 'Py65.Props.C18gc.console_idle',
    'Py65.Props.C18gc.getc_step_is_console', 'Py65.Props.C18gc.getc_delivers_every_byte',
    # program level: the generated CPU run on the monitor's observed memory (C18g composed with C12 / C05h)
    'Py65.Props.C18h.io_program', 'Py65.Props.C18h.io_run_is_replay', 'Py65.Props.C18h.io_consistent_of_safe',
    'Py65.Props.C18h.io_step_memory', 'Py65.Props.C18h.io_instruction', 'Py65.Props.C18h.io_rmw_in_order',
    'Py65.Props.C18h.io_instruction_consistent', 'Py65.Props.C18h.rmw_not_located',
    'Py65.Props.C18h.io_program_partial',
]
RULE = ('a case counts as non-trivial when its program made at least one access to an address congruent to I '
        'or O; distinct = distinct (device after the commands, class of I, class of O, command sequence kinds, '
        'number of I loads vs pending bytes class, sequence of access kinds to I/O/alias/neighbour/other) tuples')
TRUSTED = [
    'REGENERATED on every run: Monitor.__init__ (the slice that stores mpu_type / memory / putc_addr / getc_addr, '
    'defaults included, parses argv and calls _reset with the ATTRIBUTES), _parse_args (-i / -o with int(value, 16), '
    '-m through _get_mpu, -h, -l/-r/-g, the GetoptError handler), _get_mpu (case-insensitive search of the class '
    'table Microprocessors, itself read from the class body and the import lines), _reset (the `getc_addr is not None '
    'and putc_addr is not None` test; device, parser, disassembler, assembler re-created), _install_mpu_observers '
    'with its closures putc (chr, the UnicodeEncodeError branch, write, flush) and getc (getch_noblock, `if char:`, '
    'ord) and the two subscribe_to_* calls at [self.putc_addr] / [self.getc_addr], do_reset, do_mpu (+ nested '
    'available_mpus) are translated from the current py65/monitor.py by harness/py2lean_monio.py into '
    'lean/Py65/Gen/MonIOGen.lean; Py65.Proofs.MonIOGenEq proves them equal to the hand model Py65.Model.MonIO for ALL '
    'arguments and states (getc_eq, putc_eq, accessG_good / replayG_good: an access through the generated closures = '
    'MonIO.access; install_spec, reset_eq = resetWith, do_reset_eq / do_mpu_eq / applyCmdsG_eq = applyCmds, '
    'get_mpu_eq = devAddrWidth, parse_loop_eq for EVERY option list, init_construct = construct); Py65.Props.C18g '
    'restates io_trace, io_mapping_stable, io_session for the generated definitions.  A source change that breaks an '
    'equality, or that the translator refuses, is a broken tie',
    'REGENERATED on every run as well (unit con of the same translator -> lean/Py65/Gen/ConsoleGen.lean): the POSIX '
    'branch of py65/utils/console.py getch_noblock (select, stdin.read(1), as_string(..., <codec literal>), '
    '`except KeyboardInterrupt: raise`, the bare `except: pass`, `if len(char) and ord(char) == 10: char = \'\\r\'`) '
    'and the Python-3 branch of py65/compat.py as_string (isinstance(s, str), s.decode(encoding), the default codec); '
    'Py65.Proofs.ConsoleGenEq proves getch_noblock = the step MonIORt.getchNoblock the generated getc uses (pop one '
    'pending byte, Latin-1, LF as CR, \'\' when none) for EVERY queue, in binary and text mode, with the write end '
    'open or closed, and what happens on an error out of select; Py65.Props.C18gc restates "every byte value is '
    'delivered unchanged except 10 -> 13, one per load".  The codec literal is checked by the translator: \'latin-1\' '
    'and \'utf-8\' have a run-time model (pyDecode; with utf-8 the equality fails: decode_utf8_high_byte), any other '
    'literal is refused.  MODELLED there: select / stdin.read(1) on the queue of pending bytes with optional faults '
    '(ConEnv), bytes.decode for the two codecs, noncanonical_mode skipped by name (checked to be one '
    '`try: ... except: pass`), the Windows branch and getch are not translated',
    'hand model Py65.Model.MonIO on top of Py65.Model.ObsMem (the driver runs it; ObsMem itself is regenerated and '
    'proved equal in C10) -- tied to the real Monitor additionally by this sampled correspondence',
    'harness/py2lean_monio.py (Python subset -> Lean, on the machinery of py2lean_mon.py; evaluation order and the '
    'static resolution of try/except for the accepted subset are modelled, not verified; facts it checks: the imports, '
    'the bodies of _output / _exit / _usage, that putc_addr / getc_addr / mpu_type / memory / _mpu / the width '
    'attributes / the parser, disassembler, assembler are assigned only in __init__ / _parse_args / _reset, that the '
    "device's memory object is replaced only in _install_mpu_observers, that _reset / _install_mpu_observers / "
    '_parse_args are called only from __init__, do_reset, do_mpu / _reset / __init__) and the helpers of '
    'lean/Py65/Model/MonIORt.lean the generated text calls, MODELLED not verified: the device classes (name, '
    'ADDR_WIDTH, BYTE_WIDTH, ADDR_FORMAT, BYTE_FORMAT, addrMask, byteMask; the widths and masks are proved equal to '
    'the CPU-generated Cfg, cls_widths) and their constructor (memory=None: fresh zeroed list), ObservableMemory(...) '
    '= ObsMem.init (subject assumed of default length), AddressParser / Disassembler / Assembler constructors (record '
    'what they were given, fresh identity), stdout = code points written + how many flushed with an arbitrary '
    'encodable-set Env.enc, stdin = queue of pending bytes, console.getch_noblock = pop one byte (Latin-1, LF as CR) '
    "or '', chr / ord, str.lower (ASCII), sorted / list.sort, str.join, dict.keys / items in insertion order, "
    'int(s, 16) = PyStr.pyIntL, l[1:]; getopt.getopt is UNINTERPRETED (Env.getopt: the theorems hold for every '
    'function; init_construct assumes it returns the options [-m NAME] [-i X] [-o Y]), sys.argv and the usage text '
    'are parameters, the start-up actions -l / -g / -r of __init__ (after _reset) are uninterpreted state '
    'transformers guarded by the translated `is not None` tests, the statements of __init__ that concern other units '
    '(_breakpoints, _width, prompt, _add_shortcuts, console.save_mode, unbuffered stdin, cmd.Cmd.__init__) are '
    'skipped by their exact text, `except: console.restore_mode(); raise` is transparent',
    'the OS side of getc (select + read(1) on a dup of the stdin descriptor, termios calls failing quietly on '
    'a pipe) is replaced in the model by a queue of pending bytes',
    'the glue MonIOGenEq.accessG / replayG (one device access on self._mpu.memory: the ObservableMemory model calls '
    'callbacks by identity; their answers and effects come from running the generated closures, answered from the '
    'state at the start of the access -- exact because an access of this memory calls at most one callback)',
    'PROGRAM level (Py65.Props.C18h on Py65.Proofs.IoProg / IoProgAcc / IoProgRmw / IoProgCoh): the GENERATED step() '
    'of the three devices is run, instruction by instruction, on the plain memory "what a load would return now" '
    '(viewG: the generated getc through the ObservableMemory model) and the access log of each instruction is '
    'replayed through the generated observers (replayG, the object of io_trace); Consistent -- the observed memory '
    'answers every load of the instruction exactly as the plain memory the CPU ran on -- is what makes this a step() '
    'ON the observed memory.  io_program: for n consistent instructions the loads returned what the property says, '
    'the output is the stores to O in program order once each, one byte consumed per load from I; '
    'io_consistent_of_safe / io_instruction_consistent: Consistent holds when no load from I follows another access '
    'to I inside ONE instruction and all addresses are physical (from the actual access list; or from '
    'Spec.dataAccesses via C12, order-free, for an instruction not located at I; or, for read-modify-write '
    'instructions, from the Spec list IN ORDER: io_rmw_in_order, so INC I is covered); io_instruction: per '
    'instruction the accesses are C12\'s list, bytes consumed = its loads from I, characters printed = the stores '
    'to O of Spec.dataAccesses; io_step_memory: the device model changes its memory only through LOGGED writes '
    '(IoProgCoh: every generated handler, every opcode byte, every device), so its own memory after an instruction '
    'is the plain replay of the instruction\'s log and agrees with the observed memory\'s cells off I; '
    'io_program_partial: all of it for a well-formed machine with no hypothesis along the run but InstrOK (C05h keeps '
    'the machine well-formed).  TRUSTED there: the generated device model is a function of a PLAIN memory that it '
    'READS only through memGet (Machine.lean; the CPU translator emits nothing else -- the premise of C11 / C12; the '
    'write side is proved, io_step_memory) -- running it on an effectful memory without the Consistent check needs a '
    're-translation over a memory monad; the glue IoProg.ioStep / viewG (hand-written, 10 lines); the static '
    'generator harness/gen_ioprog.py only writes proof text the kernel checks.  NOT covered (Consistent fails, '
    'example located_at_I): an instruction that loads from I after another access to I (programs located at I, a '
    'pointer fetched through I whose target is I, two aliases of I on the 65Org16)',
    'here additionally the access log is observed on the real device through a recording proxy',
    'the Python oracle of this module',
]
ASSUMPTIONS = [
    'pending input is any byte string (0..255); a mapping is claimed when both addresses are integers -- None '
    '(constructor keyword only) means no character I/O',
    'addresses that alias through the 256 K physical memory of the 65Org16 are the same cell',
    'the program is not located at I or O and the monitor itself does not display I (mem / disassemble of I '
    'would consume input): only the running program accesses memory',
    'tie by regeneration: the stored values are code points the stdout stream can encode (okEv; every value of the '
    'three devices on a StringIO -- for an unencodable one the generated putc provably prints `?`, for a value that '
    'is not a code point chr raises: putc_unencodable, putc_not_a_code_point); the constructor theorem is for '
    'command lines whose options are [-m NAME] [-i X] [-o Y] (the general loop is parse_loop_eq)',
    'program level (C18h): every instruction of the run is Consistent -- guaranteed (io_instruction_consistent, '
    'io_program_partial) for declared opcodes of a program not located at I whose instructions, one by one, contain no '
    'load from I after another access to I (LDA/LDX/LDY/CMP/ADC/... I, STA/STX/STY O, read-modify-write of I or O '
    'all qualify) and, on the 65Org16, touch physical addresses 0..$3FFFF only and have opcode cells < 256; '
    'registers, cells and pending bytes inside the byte; the stream encodes every value of the byte',
]


def pre_build(ctx):
    """translator tie: regenerate lean/Py65/Gen/MonIOGen.lean from the current monitor.py"""
    from props import iotie
    return iotie.pre_build(ctx)


PHYS = {'6502': 0x10000, '65C02': 0x10000, '65Org16': 0x40000}
DEVOF = {'6502': '6502', '65c02': '65C02', '65org16': '65Org16'}


class LogMem(object):
    """Transparent recording proxy around the device's memory object."""

    def __init__(self, inner):
        self.__dict__['_inner'] = inner
        self.__dict__['log'] = []

    def __getitem__(self, a):
        v = self._inner[a]
        if not isinstance(a, slice):
            self.log.append(('r', a, v))
        return v

    def __setitem__(self, a, v):
        if not isinstance(a, slice):
            self.log.append(('w', a, v))
        self._inner[a] = v

    def __getattr__(self, n):
        return getattr(self._inner, n)

    def __len__(self):
        return len(self._inner)


# ---------------------------------------------------------------------------------------
# generator
# ---------------------------------------------------------------------------------------

def addr_options(rng, dev):
    """-> (text|None|('kw', int|None), class): an option text, absent, or a constructor keyword argument."""
    if rng.random() < 0.15:
        t, cls = addr_options(rng, dev)
        if isinstance(t, str):
            return ('kw', int(t, 16)), 'kw-' + cls
        if rng.random() < 0.3:
            return ('kw', None), 'kw-None'
    W, AW = WIDTHS[dev]
    phys = PHYS[dev]
    top = (1 << AW) - 1
    r = rng.random()
    if r < 0.12:
        return None, 'default'
    if r < 0.30:
        v = rng.choice([0xf001, 0xf004, 0xe000, 0xe001, 0x0200, 0x8000, 0xbfff])
        return rng.choice(['%x', '%X', '%04x', '0x%x']) % v, 'plain'
    if r < 0.50:
        v = rng.choice([0xff, 0x100, 0x1ff, 0x200, 0xfeff, 0xff00, 0x00fe, 0x7fff, 0x8000]) + (0 if W == 8 else rng.choice([0, 0x10000]))
        return '%x' % v, 'page-boundary'
    if r < 0.62:
        v = rng.choice([1, 2, phys - 1, phys - 2, 0xffff, 0xfffe])
        return '%x' % v, 'end'
    if r < 0.72:
        return rng.choice(['0', '00', '0000']), 'zero'
    if r < 0.88 and dev == '65Org16':
        base = rng.choice([0xf001, 0x1f004, 0x3ffff, 0x20000, 0x0, 0x1])
        v = base + phys * rng.choice([1, 2, 3, 0x3fff])
        return '%x' % (v & top), 'alias'
    v = rng.randrange(1, phys)
    return '%x' % v, 'random'


def addr_of(t, dflt):
    """The configured address: default, option text, or keyword argument (None = no character I/O)."""
    if t is None:
        return dflt
    if isinstance(t, (tuple, list)):
        return t[1]
    return int(t, 16)


def opt_tok(t):
    if t is None:
        return 'N'
    if isinstance(t, (tuple, list)):
        return 'KN' if t[1] is None else 'K%d' % t[1]
    return tohex(t)


def mon_args(case):
    kw = {}
    i = o = None
    if isinstance(case['i'], (tuple, list)):
        kw['getc_addr'] = case['i'][1]
    else:
        i = case['i']
    if isinstance(case['o'], (tuple, list)):
        kw['putc_addr'] = case['o'][1]
    else:
        o = case['o']
    return i, o, kw


def gen_cmds(rng):
    n = rng.choice([0, 0, 1, 1, 2, 3, 4])
    out = []
    for _ in range(n):
        r = rng.random()
        if r < 0.45:
            out.append(('reset', None))
        elif r < 0.9:
            out.append(('mpu', rng.choice(['6502', '65c02', '65C02', '65org16', '65Org16', '65ORG16'])))
        else:
            out.append(('mpu', rng.choice(['', 'z80', '65'])))
    return out


def final_dev(dev, cmds):
    for k, a in cmds:
        if k == 'mpu' and a and a.lower() in DEVOF:
            dev = DEVOF[a.lower()]
    return dev


def gen_case(rng, dev):
    itxt, icls = addr_options(rng, dev)
    otxt, ocls = addr_options(rng, dev)
    if rng.random() < 0.06 and isinstance(itxt, str):
        otxt, ocls = itxt, 'same-as-I'
    cmds = gen_cmds(rng)
    fdev = final_dev(dev, cmds)
    W, AW = WIDTHS[fdev]
    phys = PHYS[fdev]
    I = addr_of(itxt, 0xf004)
    O = addr_of(otxt, 0xf001)
    if I is None or O is None:
        I, O = (I or 0xf004), (O or 0xf001)      # no mapping: the program still pokes around there
    # the device after the commands decides the physical size; the configured addresses stay
    hot = []
    for base in (I, O):
        hot += [base, base + 1, base - 1, base + phys, base + 2 * phys]
    am = (1 << AW) - 1
    hot = [a & am for a in hot]
    # program and result areas well away from I, O (physically)
    forbidden = set()
    for a in (I, O):
        for d in range(-4, 5):
            forbidden.add((a + d) % phys)
    while True:
        P = rng.choice([0x0300, 0x0400, 0x2000, 0x4000, 0x6000, 0x9000, 0xa000, 0xc000, 0xd000])
        R = rng.choice([0x0280, 0x0500, 0x3000, 0x5000, 0x7000, 0xb000])
        span = set(range(P, P + 160)) | set(range(R, R + 40))
        if not (span & forbidden):
            break
    nops = rng.choice([1, 2, 4, 6, 10, 14])
    ops = []
    for _ in range(nops):
        r = rng.random()
        if r < 0.3:
            a = rng.choice([I, I, I, I + phys if fdev == '65Org16' else I, I + 1, I - 1]) & am
        elif r < 0.6:
            a = rng.choice([O, O, O, O + phys if fdev == '65Org16' else O, O + 1, O - 1]) & am
        elif r < 0.7:
            a = rng.choice(hot)
        else:
            a = rng.choice([0x10, 0x0210, 0x1234, 0x8888, 0xeeee])
            if (a % phys) in forbidden:
                a = 0x0270
        k = rng.random()
        if k < 0.45:
            ops.append(('ld', rng.choice('axy'), a))
        elif k < 0.92:
            bm = (1 << W) - 1
            v = rng.choice([0x41, 0x0a, 0x0d, 0, 0x7f, 0x80, 0xff, bm, rng.randrange(bm + 1)])
            ops.append(('st', rng.choice('axy'), a, v))
        else:
            ops.append(('inc', a))
    nload = sum(1 for o in ops if o[0] in ('ld', 'inc') and (o[-1 if o[0] == 'inc' else 2] % phys) == (I % phys))
    r = rng.random()
    if r < 0.5:
        nin = nload + rng.choice([0, 1, 3])
    elif r < 0.8:
        nin = max(0, nload - rng.choice([1, 2]))
    else:
        nin = 0
    alphabet = [10, 13, 0, 65, 66, 97, 32, 127, 128, 0xc3, 0xa9, 255, 9, 27] + list(range(256))
    inp = bytes(rng.choice(alphabet) if rng.random() < 0.6 else rng.choice([10, 13, 65]) for _ in range(nin))
    close = rng.random() < 0.7 or nload - nin > 2      # an open, empty pipe costs 10 ms per load
    return dict(dev=dev, i=itxt, o=otxt, icls=icls, ocls=ocls, cmds=cmds, P=P, R=R, ops=ops, inp=inp, close=close)


OPC = {('ld', 'a'): 0xad, ('ld', 'x'): 0xae, ('ld', 'y'): 0xac, ('st', 'a'): 0x8d, ('st', 'x'): 0x8e, ('st', 'y'): 0x8c,
       ('imm', 'a'): 0xa9, ('imm', 'x'): 0xa2, ('imm', 'y'): 0xa0, 'inc': 0xee}


def assemble(case, fdev):
    """Cells of the program (list of ints, one per cell of the device)."""
    W, AW = WIDTHS[fdev]
    bm = (1 << W) - 1

    def absop(op, a):
        return [op, a & bm, (a >> W) & bm]
    code = []
    k = 0
    for o in case['ops']:
        if o[0] == 'ld':
            code += absop(OPC[('ld', o[1])], o[2]) + absop(OPC[('st', o[1])], case['R'] + k)
            k += 1
        elif o[0] == 'st':
            code += [OPC[('imm', o[1])], o[3] & bm] + absop(OPC[('st', o[1])], o[2])
        else:
            code += absop(OPC['inc'], o[1])
    code.append(0x00)   # BRK: the stop code, not executed
    return code


# ---------------------------------------------------------------------------------------
# one case on the real monitor
# ---------------------------------------------------------------------------------------

def drain(mon):
    """Bytes still pending on the monitor's stdin (the write end is closed first)."""
    mon.close_input()
    out = b''
    while True:
        rd, _, _ = select.select([mon.m.stdin], [], [], 0)
        if not rd:
            break
        b = mon.m.stdin.read(1)
        if not b:
            break
        out += b
    return out


def run_case(case):
    try:
        i, o, kw = mon_args(case)
        M = Mon(case['dev'], i=i, o=o, kwargs=kw)
    except ValueError as ex:
        return dict(ctor='E', err=str(ex)[:100])
    try:
        for k, a in case['cmds']:
            M.run('reset' if k == 'reset' else ('mpu %s' % a).rstrip())
        m = M.m
        fdev = m._mpu.name
        mem = m._mpu.memory
        obs = type(mem).__name__ == 'ObservableMemory'
        subs = None
        if obs:
            subs = (sorted((a, len(v)) for a, v in mem._read_subscribers.items() if v),
                    sorted((a, len(v)) for a, v in mem._write_subscribers.items() if v))
        code = assemble(case, fdev)
        # poke the program through the monitor's own fill command, 8 cells per line
        for off in range(0, len(code), 8):
            chunk = code[off:off + 8]
            M.run('fill $%x %s' % (case['P'] + off, ' '.join('$%x' % c for c in chunk)))
        subj = M.subject()
        ok_poke = list(subj[case['P']:case['P'] + len(code)]) == code
        M.feed(case['inp'])
        if case['close']:
            M.close_input()
        proxy = LogMem(m._mpu.memory)
        m._mpu.memory = proxy
        kind, val, text = M.run('goto $%x' % case['P'], budget=5.0)
        m._mpu.memory = proxy._inner
        status = '\n' + repr(m._mpu) + '\n'
        left = drain(M)
        W, AW = WIDTHS[fdev]
        res = [subj[case['R'] + k] for k in range(sum(1 for o in case['ops'] if o[0] == 'ld'))]
        return dict(ctor='ok', fdev=fdev, obs=obs, subs=subs, getc=m.getc_addr, putc=m.putc_addr, aw=m.addrWidth,
                    poke=ok_poke, kind=kind, val=val, text=text, status=status, log=proxy.log, left=left, res=res,
                    pcend=m._mpu.pc, code=code)
    finally:
        M.close()


def getch_expected(b):
    return 13 if b == 10 else b


def judge(case, real):
    """PROPERTY on the real run.  -> list of (kind, what)."""
    out = []
    if real['ctor'] != 'ok':
        return out
    fdev = real['fdev']
    phys = PHYS[fdev]
    I = addr_of(case['i'], 0xf004)
    O = addr_of(case['o'], 0xf001)
    if I is None or O is None or I < 0 or O < 0:
        return out          # no character I/O requested (None), or not an address
    if real['kind'] != 'ret':
        out.append(('run', 'goto did not return normally: %s %s' % (real['kind'], real['val'])))
        return out
    zero = 'zero-address' if (I == 0 or O == 0) else 'mapping'
    text = real['text']
    if not text.endswith(real['status']):
        out.append(('status', 'goto output does not end with the status lines'))
        return out
    printed = text[:-len(real['status'])]
    pending = list(case['inp'])
    want_out = []
    cells = {}
    consumed = 0
    for ev in real['log']:
        if ev[0] == 'w':
            _, a, v = ev
            cells[a % phys] = v
            if a % phys == O % phys:
                want_out.append(v)
        else:
            _, a, v = ev
            if a % phys == I % phys:
                if pending:
                    b = pending.pop(0)
                    consumed += 1
                    exp = getch_expected(b)
                    if v != exp:
                        k = 'input-byte-not-delivered' if b >= 128 else zero + '-load-value'
                        out.append((k, 'load from $%x (I=$%x) returned %d, the next pending byte is %d (expected %d)' % (a, I, v, b, exp)))
                elif v != 0:
                    out.append((zero + '-load-value', 'load from $%x (I=$%x) returned %d with no input pending (expected 0)' % (a, I, v)))
            # loads elsewhere: checked through "consume nothing" below and through the result cells
    want_text = ''.join(chr(v) for v in want_out)
    if printed != want_text:
        out.append((zero + '-output', 'stores to O=$%x wrote %r to the output, expected %r (values %s)' % (
            O, printed[:60], want_text[:60], want_out[:12])))
    want_left = bytes(pending)
    if real['left'] != want_left:
        out.append((zero + '-consumed', '%d load(s) from I=$%x: %d byte(s) left pending, expected %d' % (
            consumed, I, len(real['left']), len(want_left))))
    # by construction of the program (each ld op loads once and stores the value to the result area)
    special = False   # the final BRK is the stop code and is not executed: no stack / vector access
    if not special and real['poke']:
        pend = list(case['inp'])
        shadow = {}
        outs = []
        want_res = []
        for o in case['ops']:
            if o[0] == 'ld':
                a = o[2]
                if a % phys == I % phys:
                    v = getch_expected(pend.pop(0)) if pend else 0
                else:
                    v = shadow.get(a % phys, 0)
                want_res.append(v)
            elif o[0] == 'st':
                a, v = o[2], o[3] & ((1 << WIDTHS[fdev][0]) - 1)
                shadow[a % phys] = v
                if a % phys == O % phys:
                    outs.append(v)
            else:
                a = o[1]
                if a % phys == I % phys:
                    v = getch_expected(pend.pop(0)) if pend else 0
                else:
                    v = shadow.get(a % phys, 0)
                nv = (v + 1) & ((1 << WIDTHS[fdev][0]) - 1)
                shadow[a % phys] = nv
                if a % phys == O % phys:
                    outs.append(nv)
        got = real['res']
        for k, (w, g) in enumerate(zip(want_res, got)):
            if w is not None and w != g:
                out.append((zero + '-program', 'program load #%d stored %d in its result cell, expected %d' % (k, g, w)))
                break
        if [v for v in outs] != want_out:
            out.append((zero + '-program', 'program stores to O: log-derived %s vs by construction %s' % (want_out[:10], outs[:10])))
    return out


def model_line(case, real):
    aw = WIDTHS[case['dev']][1]
    cmds = ','.join('r' if k == 'reset' else 'm' + (tohex(a) if a else '-') for k, a in case['cmds']) or '-'
    if real['ctor'] != 'ok':
        return 'io %d %s %s %s - - -' % (aw, opt_tok(case['i']), opt_tok(case['o']), cmds)
    log = ','.join('r:%d' % e[1] if e[0] == 'r' else 'w:%d:%d' % (e[1], e[2]) for e in real['log']) or '-'
    pend = ','.join(str(b) for b in case['inp']) or '-'
    cells = ','.join('%d:%d' % (case['P'] + k, v) for k, v in enumerate(real['code']) if v) or '-'
    return 'io %d %s %s %s %s %s %s' % (aw, opt_tok(case['i']), opt_tok(case['o']), cmds, pend, cells, log)


def real_reply(case, real):
    if real['ctor'] != 'ok':
        return 'E'
    vals = ','.join('N' if e[0] == 'w' else str(e[2]) for e in real['log']) or '-'
    printed = real['text'][:-len(real['status'])] if real['text'].endswith(real['status']) else real['text']
    if not real['obs'] and 'Traceback (most recent call last):' in printed:
        # observers not installed: the device runs on its own plain list, and the 65Org16's has only 64 K
        # cells -- an access above raises IndexError into the catch-all.  The model of the plain memory is a
        # total function; the log (and so the comparison) ends at the failing access.
        printed = printed[:printed.index('Traceback (most recent call last):')]
    outs = ','.join(str(ord(c)) for c in printed) or '-'
    return '%d %d %s %s | %s | %s | %d' % (1 if real['obs'] else 0, real['aw'],
                                          'N' if real['getc'] is None else real['getc'],
                                          'N' if real['putc'] is None else real['putc'], vals, outs, len(real['left']))


def classify(case, real):
    phys = PHYS[real['fdev']]
    I = (addr_of(case['i'], 0xf004) or 0) % phys
    O = (addr_of(case['o'], 0xf001) or 0) % phys
    seq = []
    for e in real['log']:
        a = e[1] % phys
        if a == I and e[0] == 'r':
            seq.append('I')
        elif a == O and e[0] == 'w':
            seq.append('O')
        elif a in (I, O):
            seq.append('x')
    return ''.join(seq)


def evaluate(cases):
    install_timer()
    res = dict(n=0, agree=0, ties=[], findings=[], nfind={}, dist={}, distinct=set(), nontriv=0, samples=[])
    reals = [run_case(c) for c in cases]
    lines = [model_line(c, r) for c, r in zip(cases, reals)]
    try:
        model = run_driver(lines)
    except Exception as ex:  # noqa: B902
        res['ties'].append(dict(what='driver failed', detail=str(ex)[:300]))
        model = [None] * len(lines)
    for c, r, ln, mo in zip(cases, reals, lines, model):
        res['n'] += 1
        rr = real_reply(c, r)
        if mo is not None:
            if mo == rr:
                res['agree'] += 1
            elif len(res['ties']) < 6:
                res['ties'].append(dict(what='model and real monitor disagree on %s' % ln[:160],
                                        detail='model=%s real=%s' % (mo[:300], rr[:300]),
                                        replay=dict(case=_jsonable(c))))
        if r['ctor'] != 'ok':
            res['dist']['ctor-error'] = res['dist'].get('ctor-error', 0) + 1
            continue
        if r['obs'] and r['subs'] is not None:
            phys = PHYS[r['fdev']]
            want = ([((r['getc'] or 0) % phys, 1)], [((r['putc'] or 0) % phys, 1)])
            if (r['subs'][0], r['subs'][1]) != want and len(res['ties']) < 6:
                res['ties'].append(dict(what='observer tables %r, expected %r' % (r['subs'], want), detail='',
                                        replay=dict(case=_jsonable(c))))
        for kind, what in judge(c, r):
            key = dict(kind=kind)
            ks = json.dumps(key, sort_keys=True)
            res['nfind'][ks] = res['nfind'].get(ks, 0) + 1
            if res['nfind'][ks] <= 3:
                i_, o_, kw_ = mon_args(c)
                seq = ['Monitor(argv=%r%s)' % (['py65mon', '-m', c['dev']] + (['-i', i_] if i_ is not None else []) +
                                               (['-o', o_] if o_ is not None else []),
                                               ''.join(', %s=%r' % kv for kv in sorted(kw_.items())))]
                seq += [('reset' if k == 'reset' else 'mpu %s' % a) for k, a in c['cmds']]
                res['findings'].append(dict(key=key, what='%s [%s -i %s -o %s, then %s]: %s' % (
                    kind, c['dev'], c['i'], c['o'], [x for x in seq[1:]], what),
                    replay=dict(case=_jsonable(c), sequence=seq, detail=what)))
        seq = classify(c, r)
        tag = '%s/I:%s/O:%s' % (r['fdev'], c['icls'], c['ocls'])
        res['dist'][tag] = res['dist'].get(tag, 0) + 1
        if seq:
            res['nontriv'] += 1
            nI = seq.count('I')
            res['distinct'].add((r['fdev'], c['icls'], c['ocls'], tuple(k for k, _ in c['cmds']),
                                 'more' if len(c['inp']) > nI else ('equal' if len(c['inp']) == nI else 'fewer'), seq))
        if len(res['samples']) < 2 and seq and len(seq) >= 3:
            res['samples'].append(dict(device=c['dev'], i=c['i'], o=c['o'], cmds=c['cmds'], input=list(c['inp'])[:8],
                                       accesses=seq, output=[ord(x) for x in r['text'][:-len(r['status'])]][:8]))
    res['distinct'] = list(res['distinct'])
    return res


def _jsonable(c):
    d = dict(c)
    d['inp'] = list(c['inp'])
    d['ops'] = [list(o) for o in c['ops']]
    d['cmds'] = [list(x) for x in c['cmds']]
    return d


def _from_json(d):
    c = dict(d)
    c['inp'] = bytes(d['inp'])
    c['ops'] = [tuple(o) for o in d['ops']]
    c['cmds'] = [tuple(x) for x in d['cmds']]
    return c


def fixed_cases():
    """Canonical witnesses first."""
    out = []
    for dev in DEVS:
        for i, o in ((None, None), ('e000', 'e001'), ('0', 'e001'), ('e000', '0'), ('ff', '100'), ('ffff', 'fffe')):
            for cmds in ([], [('reset', None)], [('mpu', dev.lower())], [('reset', None), ('mpu', '65c02'), ('reset', None)]):
                I = addr_of(i, 0xf004)
                O = addr_of(o, 0xf001)
                ops = [('st', 'a', O, 0x48), ('ld', 'a', I), ('st', 'x', O, 0x69), ('ld', 'y', I), ('st', 'a', O + 1, 0x21),
                       ('ld', 'x', I + 1), ('ld', 'a', I)]
                out.append(dict(dev=dev, i=i, o=o, icls='fixed', ocls='fixed', cmds=cmds, P=0x4000, R=0x5000, ops=ops,
                                inp=b'A\nB', close=True))
    for v in (0x80, 0xc3, 0xff):
        out.append(dict(dev='6502', i=None, o=None, icls='fixed', ocls='fixed', cmds=[], P=0x4000, R=0x5000,
                        ops=[('ld', 'a', 0xf004), ('ld', 'a', 0xf004)], inp=bytes([v, 0x41]), close=True))
    for dev in DEVS:
        for i, o in ((('kw', 0xe000), ('kw', 0xe001)), (('kw', 0), ('kw', 0x200)), (('kw', None), ('kw', None)),
                     (('kw', None), None), (('kw', 0xd000), 'd001')):
            out.append(dict(dev=dev, i=i, o=o, icls='fixed-kw', ocls='fixed-kw', cmds=[('reset', None)], P=0x4000, R=0x5000,
                            ops=[('st', 'a', addr_of(o, 0xf001) or 0x210, 0x48), ('ld', 'a', addr_of(i, 0xf004) or 0x211)],
                            inp=b'Q', close=True))
    out.append(dict(dev='6502', i='xyz', o=None, icls='bad', ocls='fixed', cmds=[], P=0x4000, R=0x5000, ops=[], inp=b'', close=True))
    out.append(dict(dev='6502', i='-1', o='e001', icls='negative', ocls='fixed', cmds=[], P=0x4000, R=0x5000,
                    ops=[('ld', 'a', 0xffff)], inp=b'Z', close=True))
    return out


def _work(spec):
    seed, idx, n = spec
    rng = random.Random('c18-%d-%d' % (seed, idx))
    cases = fixed_cases() if idx == 0 else []
    for k in range(n):
        cases.append(gen_case(rng, DEVS[(idx + k) % 3]))
    return evaluate(cases)


def explore(ctx):
    t0 = time.time()
    n = 12000 if ctx.quick() else 240000
    chunk = 250 if ctx.quick() else 1500
    procs = min(16, os.cpu_count() or 1)
    specs = [(ctx.seed, i, chunk) for i in range((n + chunk - 1) // chunk)]
    total = dict(n=0, agree=0, ties=[], findings=[], nfind={}, dist={}, distinct=set(), nontriv=0, samples=[])
    with multiprocessing.Pool(procs) as pool:
        for r in pool.imap_unordered(_work, specs):
            for k in ('n', 'agree', 'nontriv'):
                total[k] += r[k]
            total['ties'] += r['ties']
            total['findings'] += r['findings']
            total['samples'] += r['samples']
            for k, v in r['nfind'].items():
                total['nfind'][k] = total['nfind'].get(k, 0) + v
            for k, v in r['dist'].items():
                total['dist'][k] = total['dist'].get(k, 0) + v
            total['distinct'] |= set(_tup(x) for x in r['distinct'])
    ctx.note('%d cases, %d agree with the model, %d touch I or O, %.1fs on %d processes' % (
        total['n'], total['agree'], total['nontriv'], time.time() - t0, procs))
    for t in total['ties'][:6]:
        ctx.broken.append(dict(kind='tie', what=t['what'][:400], detail=t.get('detail', '')[:800], replay=t.get('replay')))
    total['findings'].sort(key=lambda f: (len(f['replay']['case']['cmds']), len(f['replay']['case']['ops'])))
    seen = {}
    for f in total['findings']:
        ks = json.dumps(f['key'], sort_keys=True)
        seen[ks] = seen.get(ks, 0) + 1
        if seen[ks] <= 2:
            ctx.findings.append(f)
            if seen[ks] == 1:
                ctx.note('property deviation %s x%d, e.g. %s' % (ks, total['nfind'][ks], f['what'][:300]))
    ctx.stats['evaluations'] = total['n']
    ctx.stats['traces_validated_against_impl'] = total['agree']
    ctx.stats['distinct_nontrivial'] = len(total['distinct'])
    ctx.stats['distribution'] = dict(cases=dict(sorted(total['dist'].items())), touching_io=total['nontriv'],
                                     property_deviations=total['nfind'])
    ctx.samples = total['samples'][:6]


def _tup(x):
    return tuple(_tup(y) if isinstance(y, (list, tuple)) else y for y in x)


def replay(ctx, path):
    obj = json.load(open(path))
    f = obj.get('finding')
    rp = (f or {}).get('replay') or (obj.get('broken') or [{}])[0].get('replay')
    if not rp or 'case' not in rp:
        print(json.dumps(obj, indent=1)[:3000])
        return 0
    install_timer()
    c = _from_json(rp['case'])
    r = run_case(c)
    ln = model_line(c, r)
    print('case     : -m %s -i %s -o %s, commands %s, input %r' % (c['dev'], c['i'], c['o'], c['cmds'], c['inp']))
    print('program  : %s' % (c['ops'],))
    rr = real_reply(c, r)
    print('real     : %s' % rr[:600])
    try:
        mo = run_driver([ln])[0]
    except Exception as ex:  # noqa: B902
        mo = 'driver unavailable: %s' % ex
    print('model    : %s' % mo[:600])
    bad = False
    for kind, what in judge(c, r):
        print('DIFF     : [property] %s: %s' % (kind, what))
        bad = True
    if mo != rr:
        print('DIFF     : [tie] model vs real')
        bad = True
    return 1 if bad else 0
