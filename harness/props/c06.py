"""C06 -- interrupts, subroutines, reset and WAI."""
import cpu_props

ID = 'C06'
LEAN_MODULES = ['Py65.Props.C06']
NAMESPACES = ['Py65.Props.C06']
# library helpers (CPython behaviour modelled in lean/Py65/Model/*Rt*.lean ...) that the generated code of these
# modules calls, derived by scanning the Lean sources (harness/rtscan.py); validated against CPython on every run
import rtcheck  # noqa: E402
RT_HELPERS = rtcheck.helpers_for(LEAN_MODULES)
TRUSTED = ['Spec.Cpu / Spec.Cycles (hand-written programming model and documented cycle table, the oracle)', 'translator harness/py2lean.py, validated on every run by exact-state comparison with the real device', 'Py.land/lor/lxor definitions (characterised by theorems, differentially tested)']
ASSUMPTIONS = ['pairing theorems are stated on the specification (RTI/RTS after IRQ/NMI/BRK/JSR with an arbitrary frame-respecting computation in between, every SP incl. wrap); they transfer to the devices through the entry theorems here and the instruction theorems of C01-C03', 'nesting to arbitrary depth is not proved as a separate induction (each level is an instance of the pairing theorems)', 'reading of "irq() does nothing while I is set": nothing but ending a WAI on the 65C02']
LEVEL = 'proof'
RULE = ('random interleavings of step/irq/nmi/reset (1-8 operations) from boundary-biased states; every declared opcode x boundary-biased states (registers, operands, pointers and PC aimed at page/wrap boundaries); distinct = distinct (opcode, register-class, pc-quadrant, touched-cell-count) signatures of executions that ran')


def _opcodes(dev, modes):
    return [i for i in range(256) if modes[i][0] != '???']


SPEC = dict(module='props.c06', devs=['6502', '65C02', '65Org16'], opcodes=_opcodes, aspects={'sem', 'wait'}, mode='history',
            n_quick=40, n_thorough=1500, decimal=False)


def explore(ctx):
    cpu_props.explore(ctx, SPEC)


def replay(ctx, path):
    return cpu_props.replay(ctx, path)
